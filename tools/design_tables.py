#!/usr/bin/env python3
"""Regenerates the tables of DESIGN.md section 0 (repo fixes, known findings, seeded changes) from git log,
known_findings.json and seeded/*/meta.json. Tables live between <!-- BEGIN:x --> / <!-- END:x --> markers."""
import json, os, re, subprocess
V = os.path.dirname(os.path.dirname(os.path.abspath(__file__)))
MISSED_AT_FIRST = {"C01-3", "C02-1", "C02-3", "C10-2", "C10-3"}      # first result overwritten by a later confirmation run


def short(x):
    if x.startswith("VIOLATION"):
        return "caught" + (", no input" if "no-failing" in x else "")
    if x.startswith("OK"):
        return "MISSED"
    return x[:20] or "?"


def tables():
    k = json.load(open(os.path.join(V, "known_findings.json")))
    prop_of = {}
    for e in k:
        if e["status"] == "fixed":
            prop_of.setdefault(e["commit"], set()).add(e["property"])
    fixes = subprocess.run(["git", "-C", "/repo", "log", "--reverse", "--format=%h %s", "2b91710..HEAD"], capture_output=True, text=True).stdout.strip().splitlines()
    fx = ["| commit | subject | properties |", "|---|---|---|"]
    for l in fixes:
        h, msg = l.split(" ", 1)
        fx.append("| `%s` | %s | %s |" % (h, msg, ", ".join(sorted(prop_of.get(msg, []))) or "—"))
    kn = ["| property | id | what fails and why it is not repaired here |", "|---|---|---|"]
    kn += ["| %s | `%s` | %s |" % (e["property"], e["id"], e["what_fails"].replace("|", "/")) for e in k if e["status"] == "known"]
    sd = ["| seed | change (abridged) | first | now |", "|---|---|---|---|"]
    for sid in sorted(os.listdir(os.path.join(V, "seeded"))):
        m = json.load(open(os.path.join(V, "seeded", sid, "meta.json")))
        c = m.get("confirmed", {})
        first = c.get("check_result_with_patch", "")
        latest = c.get("check_result_latest", first)
        summ = m.get("summary", "").replace("\n", " ").replace("|", "/")
        summ = summ[:150] + ("…" if len(summ) > 150 else "")
        sd.append("| %s | %s | %s | %s |" % (sid, summ, "MISSED" if sid in MISSED_AT_FIRST else short(first), short(latest)))
    return {"fixes": fx, "known": kn, "seeds": sd}


def main():
    p = os.path.join(V, "DESIGN.md")
    s = open(p).read()
    for name, rows in tables().items():
        pat = re.compile(r"(<!-- BEGIN:%s -->\n).*?(<!-- END:%s -->)" % (name, name), re.S)
        if not pat.search(s):
            raise SystemExit("marker %s missing" % name)
        s = pat.sub(lambda m: m.group(1) + "\n".join(rows) + "\n" + m.group(2), s)
    open(p, "w").write(s)


if __name__ == "__main__":
    main()
