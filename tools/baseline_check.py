#!/usr/bin/env python3
"""Runs the repository's pinned test command on a tree (default /repo) and reports stable-baseline tests
that no longer pass. Usage: tools/baseline_check.py [tree]"""
import json, os, subprocess, sys, tempfile
import xml.etree.ElementTree as ET
tree = sys.argv[1] if len(sys.argv) > 1 else "/repo"
base = json.load(open("/root/.vp/BASELINE.json"))
xml = tempfile.mktemp(suffix=".xml", dir="/verif/.work")
env = dict(os.environ); env.pop("BROMELIA_VERIF", None)
subprocess.run(["/venv/bin/python", "-m", "pytest", "-q", "-p", "no:cacheprovider", "--timeout=900",
                "--continue-on-collection-errors", "--junitxml=" + xml], cwd=tree, env=env,
               stdout=subprocess.DEVNULL, stderr=subprocess.DEVNULL)
passed = set()
for tc in ET.parse(xml).getroot().iter("testcase"):
    if not any(c.tag in ("failure", "error", "skipped") for c in tc):
        passed.add("%s::%s" % (tc.get("classname"), tc.get("name")))
os.remove(xml)
missing = sorted(set(base["stable_pass"]) - passed)
print("passed=%d stable=%d broken=%d" % (len(passed), len(base["stable_pass"]), len(missing)))
for m in missing[:40]:
    print("BROKEN", m)
sys.exit(1 if missing else 0)
