#!/usr/bin/env python3
"""Runs the repository's pinned test command on a tree (default /repo) and reports stable-baseline tests
that no longer pass. Usage: tools/baseline_check.py [tree]

The suite binds fixed TCP ports and leaves non-daemon threads behind (the interpreter may not exit after the
session has finished), so it runs in its own network namespace when `unshare -n` is available and under a
hard timeout; the junit file is written at session end, before any such hang."""
import json, os, signal, subprocess, sys, tempfile
import xml.etree.ElementTree as ET
tree = sys.argv[1] if len(sys.argv) > 1 else "/repo"
base = json.load(open("/root/.vp/BASELINE.json"))
os.makedirs("/verif/.work", exist_ok=True)
xml = tempfile.mktemp(suffix=".xml", dir="/verif/.work")
env = dict(os.environ); env.pop("BROMELIA_VERIF", None)
cmd = ["/venv/bin/python", "-m", "pytest", "-q", "-p", "no:cacheprovider", "--timeout=900",
       "--continue-on-collection-errors", "--junitxml=" + xml]
if subprocess.run(["unshare", "-n", "true"], capture_output=True).returncode == 0:
    cmd = ["unshare", "-n", "sh", "-c", "ip link set lo up; exec " + " ".join(cmd)]
p = subprocess.Popen(cmd, cwd=tree, env=env, stdout=subprocess.DEVNULL, stderr=subprocess.DEVNULL, start_new_session=True)
import time
t0 = time.time()
try:
    # the junit file appears when the session has finished; the interpreter may then hang in thread shutdown
    while p.poll() is None and time.time() - t0 < 600:
        time.sleep(2)
        if os.path.exists(xml) and os.path.getsize(xml) > 0:
            time.sleep(3)
            break
finally:
    try:
        os.killpg(p.pid, signal.SIGKILL)
    except ProcessLookupError:
        pass
passed = set()
try:
    for tc in ET.parse(xml).getroot().iter("testcase"):
        if not any(c.tag in ("failure", "error", "skipped") for c in tc):
            passed.add("%s::%s" % (tc.get("classname"), tc.get("name")))
    os.remove(xml)
except (OSError, ET.ParseError) as e:
    print("no junit result (%s)" % e)
    sys.exit(2)
missing = sorted(set(base["stable_pass"]) - passed)
print("passed=%d stable=%d broken=%d" % (len(passed), len(base["stable_pass"]), len(missing)))
for m in missing[:40]:
    print("BROKEN", m)
sys.exit(1 if missing else 0)
