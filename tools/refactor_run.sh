#!/bin/bash
# tools/refactor_run.sh <srcdir> <id> : applies a behaviour-preserving refactoring in a scratch worktree and runs EVERY quick
# check against it from a scratch copy of /verif (false-alarm measurement). Prints one line per check that is not OK.
set -u
src="$1"; id="$2"
wt=/tmp/refac-$id; vc=/tmp/verifcopy-f-$id
git -C /repo worktree remove --force $wt 2>/dev/null; rm -rf $vc
git -C /repo worktree add -q --detach $wt HEAD || exit 3
(cd $wt && git apply "$src/patch.diff") || { echo "$id patch does not apply"; git -C /repo worktree remove --force $wt; exit 3; }
rsync -a --exclude .git --exclude replays --exclude .work /verif/ $vc/ 2>/dev/null
out=""
for p in ${PROPS:-C01 C02 C03 C04 C05 C06 C07 C08 C09 C10 C11 C12 C13 C14 C15 C16 C17 C18 C19 C20}; do
  r=$(cd $vc && VERIF_REPO=$wt timeout 1800 ./check $p 2>&1 | grep -E "^VIOLATION|^OK|HARNESS|Traceback" | tail -1)
  case "$r" in OK*) ;; *) out="$out\n  $p: $r"; [ -f $vc/replays/$p-0.json ] && cp $vc/replays/$p-0.json /tmp/refac-$id-$p.json ;; esac
done
git -C /repo worktree remove --force $wt; rm -rf $vc
if [ -z "$out" ]; then echo "$id: all checks OK (${PROPS:-all 20})"; else echo -e "$id: ALARMS$out"; fi
