#!/bin/bash
# tools/recheck_all.sh [ids...] : re-run every stored seeded change (or the given ones) against the current checks, 8 at a time
cd /verif
ids="$@"; [ -z "$ids" ] && ids=$(ls seeded)
echo $ids | tr ' ' '\n' | xargs -P 8 -I{} tools/recheck_seed.sh {}
