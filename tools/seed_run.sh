#!/bin/bash
# tools/seed_run.sh <srcdir> <seed-id> <PROP> [patchfile]
# Like keep_seed.sh but never touches /repo or this checkout's build: the seeded change is applied in a scratch
# worktree of /repo HEAD and the check runs from a scratch copy of /verif with VERIF_REPO pointing at that worktree.
# Confirms (demo passes without / fails with the patch; stable baseline still passes with it) and stores the seed.
set -u
src="$1"; id="$2"; prop="$3"; patch="${4:-$src/patch.diff}"
wt=/tmp/confirm-$id; vc=/tmp/verifcopy-$id
git -C /repo worktree remove --force $wt 2>/dev/null; rm -rf $vc
git -C /repo worktree add -q --detach $wt HEAD || exit 3
res_clean=$(cd $wt && PYTHONPATH=$wt timeout 300 /venv/bin/python -W ignore $src/demo.py >/dev/null 2>&1; echo $?)
(cd $wt && git apply --3way "$patch" >/dev/null 2>&1 && git reset -q) || { echo "patch does not apply"; git -C /repo worktree remove --force $wt; exit 3; }
(cd $wt && git diff) > /tmp/confirm-$id.diff
res_patched=$(cd $wt && PYTHONPATH=$wt timeout 300 /venv/bin/python -W ignore $src/demo.py >/dev/null 2>&1; echo $?)
base=$(cd /verif && python3 tools/baseline_check.py $wt 2>&1 | grep -v conda | head -5 | tr '\n' ' ')
rsync -a --exclude .git --exclude replays --exclude .work /verif/ $vc/
chk=$(cd $vc && VERIF_REPO=$wt ./check $prop 2>&1 | grep -E "^VIOLATION|^OK|HARNESS" | tail -1)
mkdir -p /verif/seeded/$id
rp=$(echo "$chk" | sed -n 's/.*replay=\([^ ]*\).*/\1/p')
[ -n "$rp" ] && [ -f "$vc/$rp" ] && cp "$vc/$rp" /verif/seeded/$id/replay_found.json
[ -n "$rp" ] && [ -f "$rp" ] && cp "$rp" /verif/seeded/$id/replay_found.json
git -C /repo worktree remove --force $wt; rm -rf $vc
cp /tmp/confirm-$id.diff /verif/seeded/$id/patch.diff
cp $src/*.py /verif/seeded/$id/
python3 - "$src" "$id" "$prop" "$res_clean" "$res_patched" "$base" "$chk" <<'PY'
import json, sys
src, sid, prop, rc, rp, base, chk = sys.argv[1:8]
try:
    meta = json.load(open(src + "/meta.json"))
except Exception:
    meta = {}
meta.update({"property": prop, "seed_id": sid,
             "confirmed": {"demo_exit_unpatched": int(rc), "demo_exit_patched": int(rp), "baseline_with_patch": base.strip(),
                           "check_result_with_patch": chk,
                           "what_was_run": "scratch worktree of /repo HEAD: demo.py before/after git apply; tools/baseline_check.py on the patched worktree; then ./check %s from a scratch copy of /verif with VERIF_REPO=<patched worktree>" % prop}})
json.dump(meta, open("/verif/seeded/%s/meta.json" % sid, "w"), indent=1)
print(sid, "demo", rc, "->", rp, "|", base.strip(), "|", chk)
PY
rm -f /tmp/confirm-$id.diff
