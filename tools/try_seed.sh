#!/bin/bash
# tools/try_seed.sh <patch.diff> <PROP> [<PROP>...] : apply a seeded change to /repo, run the checks, undo it
patch="$1"; shift
cd /repo && git apply --check "$patch" || { echo "PATCH DOES NOT APPLY"; exit 3; }
git apply "$patch"
cd /verif
for p in "$@"; do
  ./check "$p" 2>&1 | grep -v conda | grep -E "VIOLATION|^OK|HARNESS|KNOWN" | grep -v KNOWN | tail -3
done
git -C /repo checkout -- .
git -C /repo status --short | head -3
