#!/bin/bash
# tools/run_all_quick.sh [seed...] : every quick check on the unchanged tree, for each seed in turn (default 0); the evidence files
# are those of the LAST seed given. Prints one line per check and seed.
cd /verif
seeds="$@"; [ -z "$seeds" ] && seeds=0
for sd in $seeds; do
  for p in C01 C02 C03 C04 C05 C06 C07 C08 C09 C10 C11 C12 C13 C14 C15 C16 C17 C18 C19 C20; do
    r=$(VERIF_SEED=$sd ./check $p --tier quick 2>&1 | grep -E "^VIOLATION|^OK|HARNESS" | tail -1)
    echo "seed=$sd $r"
  done
done
