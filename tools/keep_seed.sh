#!/bin/bash
# tools/keep_seed.sh <srcdir> <seed-id> <PROP> [patchfile]
# Confirms a seeded change in a scratch worktree (demo passes without / fails with the patch; the stable baseline
# tests still pass with it), runs ./check PROP against it in /repo, and stores it under /verif/seeded/<seed-id>/.
set -u
src="$1"; id="$2"; prop="$3"; patch="${4:-$src/patch.diff}"
wt=/tmp/confirm-$id
git -C /repo worktree remove --force $wt 2>/dev/null
git -C /repo worktree add -q --detach $wt HEAD || exit 3
res_clean=$(cd $wt && PYTHONPATH=$wt timeout 300 /venv/bin/python -W ignore $src/demo.py >/dev/null 2>&1; echo $?)
(cd $wt && git apply --3way "$patch" >/dev/null 2>&1 && git reset -q) || { echo "patch does not apply"; git -C /repo worktree remove --force $wt; exit 3; }
(cd $wt && git diff) > /tmp/confirm-$id.diff
res_patched=$(cd $wt && PYTHONPATH=$wt timeout 300 /venv/bin/python -W ignore $src/demo.py >/dev/null 2>&1; echo $?)
base=$(cd /verif && python3 tools/baseline_check.py $wt 2>&1 | grep -v conda | head -5 | tr '\n' ' ')
git -C /repo worktree remove --force $wt
# run the check against /repo with the change applied, then undo
cd /repo && git apply /tmp/confirm-$id.diff
chk=$(cd /verif && ./check $prop 2>&1 | grep -E "^VIOLATION|^OK|HARNESS" | tail -1)
git -C /repo checkout -- . ; git -C /repo status --short | grep -q . && echo "WARNING: /repo not clean"
mkdir -p /verif/seeded/$id
cp /tmp/confirm-$id.diff /verif/seeded/$id/patch.diff
cp $src/demo.py /verif/seeded/$id/demo.py
python3 - "$src" "$id" "$prop" "$res_clean" "$res_patched" "$base" "$chk" <<'PY'
import json, sys
src, sid, prop, rc, rp, base, chk = sys.argv[1:8]
try:
    meta = json.load(open(src + "/meta.json"))
except Exception:
    meta = {}
meta.update({"property": prop, "seed_id": sid,
             "confirmed": {"demo_exit_unpatched": int(rc), "demo_exit_patched": int(rp), "baseline_with_patch": base.strip(),
                           "check_result_with_patch": chk,
                           "what_was_run": "scratch worktree of /repo HEAD: demo.py before/after git apply; tools/baseline_check.py on the patched worktree; then git -C /repo apply + ./check %s + git -C /repo checkout -- ." % prop}})
json.dump(meta, open("/verif/seeded/%s/meta.json" % sid, "w"), indent=1)
print(sid, "demo", rc, "->", rp, "|", base.strip(), "|", chk)
PY
rm -f /tmp/confirm-$id.diff
