#!/bin/bash
# tools/recheck_seed.sh <seed-id> : re-runs the stored seeded change against the CURRENT checks (scratch worktree + scratch
# copy of /verif, /repo untouched) and records the result in seeded/<id>/meta.json
set -u
id="$1"; prop=$(python3 -c "import json;print(json.load(open('/verif/seeded/$id/meta.json'))['property'])")
wt=/tmp/recheck-$id; vc=/tmp/verifcopy-r-$id
git -C /repo worktree remove --force $wt 2>/dev/null; rm -rf $vc
git -C /repo worktree add -q --detach $wt HEAD || exit 3
(cd $wt && git apply /verif/seeded/$id/patch.diff) || { echo "$id patch does not apply to HEAD"; git -C /repo worktree remove --force $wt; exit 3; }
rsync -a --exclude .git --exclude replays --exclude .work /verif/ $vc/ 2>/dev/null
chk=$(cd $vc && VERIF_REPO=$wt ./check $prop 2>&1 | grep -E "^VIOLATION|^OK|HARNESS" | tail -1)
rp=$(echo "$chk" | sed -n 's/.*replay=\([^ ]*\).*/\1/p')
[ -n "$rp" ] && [ -f "$vc/$rp" ] && cp "$vc/$rp" /verif/seeded/$id/replay_found.json
git -C /repo worktree remove --force $wt; rm -rf $vc
python3 - "$id" "$chk" <<'PY'
import json, sys
sid, chk = sys.argv[1:3]
p = "/verif/seeded/%s/meta.json" % sid
m = json.load(open(p))
m.setdefault("confirmed", {})["check_result_latest"] = chk
json.dump(m, open(p, "w"), indent=1)
print(sid, "|", chk)
PY
