# -*- coding: utf-8 -*-
"""Regenerate every Gen/*.lean file from /repo's working tree (also done by each check for what it needs)."""
import gen_pyfuns
import gen_dict
import gen_commands
import gen_psm
import gen_split
import gen_tbcd

if __name__ == "__main__":
    print("PyFuns:", gen_pyfuns.generate()[:2])
    print("Dictionary:", gen_dict.generate()[0])
    print("Commands:", gen_commands.generate()[0])
    print("Psm:", gen_psm.generate())
    print("Split:", gen_split.generate())
    print("Tbcd:", gen_tbcd.generate())
