# -*- coding: utf-8 -*-
"""Translator for a deliberately tiny Python subset to Lean 4 (DESIGN.md 3.2a).

Subset: a function of integer arguments (an optional leading `self` whose only use is `self.data[k]`
with a constant k, translated to the byte accessor argument `d k`); statements `if/elif/else`, `return`,
`raise` (any exception -> `none`), simple local assignment; expressions: integer and boolean constants,
names, chained comparisons, `and`/`or`/`not`, `+ - * // % ** & | ^`, and calls (positional arguments only) of other
functions of the same module that are themselves in the subset and total (translated to `@[simp]` helper definitions).

Integers are translated to `Nat` (the properties quantify over codes / bit indices >= 0; negative
arguments are exercised by the correspondence only). Anything outside the subset raises Untranslatable,
and the caller falls back to the hand-written model (tie (b) alone)."""
import ast
import inspect
import textwrap


class Untranslatable(Exception):
    pass


BIN = {ast.Add: "+", ast.Sub: "-", ast.Mult: "*", ast.FloorDiv: "/", ast.Mod: "%", ast.Pow: "^",
       ast.BitAnd: "&&&", ast.BitOr: "|||", ast.BitXor: "^^^"}
CMP = {ast.Eq: "=", ast.NotEq: "≠", ast.Lt: "<", ast.LtE: "≤", ast.Gt: ">", ast.GtE: "≥"}


class T:
    def __init__(self, params, has_self, fn=None, lean_name="f", helpers=None, depth=0):
        self.params, self.has_self = params, has_self
        self.raises = False
        self.fn, self.lean_name, self.depth = fn, lean_name, depth
        self.helpers = helpers if helpers is not None else {}      # python name -> (lean name, kind, text)

    def helper(self, e, kind):
        """a call of another function of the same module: translated on demand to a helper definition"""
        if not (isinstance(e, ast.Call) and isinstance(e.func, ast.Name) and not e.keywords and self.fn is not None):
            return None
        target = getattr(self.fn, "__globals__", {}).get(e.func.id)
        if not inspect.isfunction(target) or target.__module__ != self.fn.__module__ or self.depth > 3:
            raise Untranslatable("call of %s" % e.func.id)
        key = (e.func.id, kind)
        if key not in self.helpers:
            hname = "%s_%s" % (self.lean_name, e.func.id.strip("_"))
            text, info = translate(target, hname, kind, _helpers=self.helpers, _depth=self.depth + 1)
            if info["partial"] or info["self"]:
                raise Untranslatable("helper %s is partial" % e.func.id)
            self.helpers[key] = (hname, len(info["params"]), "@[simp] " + text)
        hname, arity, _ = self.helpers[key]
        if len(e.args) != arity:
            raise Untranslatable("arity of %s" % e.func.id)
        return "(%s %s)" % (hname, " ".join(self.num(a) for a in e.args))

    # expressions of integer type
    def num(self, e):
        if isinstance(e, ast.Constant) and isinstance(e.value, int) and not isinstance(e.value, bool):
            if e.value < 0:
                raise Untranslatable("negative literal")
            return str(e.value)
        if isinstance(e, ast.Name):
            if e.id not in self.params and e.id not in self.locals:
                raise Untranslatable("free name %s" % e.id)
            return e.id
        if isinstance(e, ast.BinOp) and type(e.op) in BIN:
            return "(%s %s %s)" % (self.num(e.left), BIN[type(e.op)], self.num(e.right))
        if isinstance(e, ast.Call):
            h = self.helper(e, "nat")
            if h:
                return h
        if (isinstance(e, ast.Subscript) and isinstance(e.value, ast.Attribute) and self.has_self
                and isinstance(e.value.value, ast.Name) and e.value.value.id == "self" and e.value.attr == "data"):
            idx = e.slice
            if isinstance(idx, ast.Constant) and isinstance(idx.value, int) and 0 <= idx.value:
                return "(d %d)" % idx.value
        raise Untranslatable("integer expression " + ast.dump(e)[:80])

    # expressions of boolean type
    def boo(self, e):
        if isinstance(e, ast.Constant) and isinstance(e.value, bool):
            return "true" if e.value else "false"
        if isinstance(e, ast.BoolOp):
            op = " && " if isinstance(e.op, ast.And) else " || "
            return "(" + op.join(self.boo(v) for v in e.values) + ")"
        if isinstance(e, ast.UnaryOp) and isinstance(e.op, ast.Not):
            return "(!%s)" % self.boo(e.operand)
        if isinstance(e, ast.Call):
            h = self.helper(e, "bool")
            if h:
                return h
        if isinstance(e, ast.Compare):
            parts, left = [], e.left
            for op, right in zip(e.ops, e.comparators):
                if type(op) not in CMP:
                    raise Untranslatable("comparison operator")
                parts.append("decide (%s %s %s)" % (self.num(left), CMP[type(op)], self.num(right)))
                left = right
            return "(" + " && ".join(parts) + ")"
        raise Untranslatable("boolean expression " + ast.dump(e)[:80])

    def block(self, stmts, kind, ind):
        """translate a statement list that must end every path with return / raise"""
        pad = "  " * ind
        if not stmts:
            raise Untranslatable("path without return")
        s, rest = stmts[0], stmts[1:]
        if isinstance(s, ast.Expr) and isinstance(s.value, ast.Constant) and isinstance(s.value.value, str):
            return self.block(rest, kind, ind)
        if isinstance(s, ast.Return):
            if s.value is None:
                raise Untranslatable("bare return")
            v = self.boo(s.value) if kind == "bool" else self.num(s.value)
            return pad + ("some %s" % v if self.opt else v)
        if isinstance(s, ast.Raise):
            self.raises = True
            if not self.opt:
                raise Untranslatable("raise in a total function")
            return pad + "none"
        if isinstance(s, ast.Assign) and len(s.targets) == 1 and isinstance(s.targets[0], ast.Name):
            name = s.targets[0].id
            v = self.num(s.value)
            self.locals.add(name)
            return pad + "let %s := %s\n" % (name, v) + self.block(rest, kind, ind)
        if isinstance(s, ast.If):
            c = self.boo(s.test)
            then = self.block(s.body + ([] if self.ends(s.body) else rest), kind, ind + 1)
            other = s.orelse if s.orelse else []
            els = self.block(other + ([] if (other and self.ends(other)) else rest), kind, ind + 1)
            return pad + "if %s then\n%s\n%selse\n%s" % (c, then, pad, els)
        raise Untranslatable("statement " + type(s).__name__)

    def ends(self, stmts):
        if not stmts:
            return False
        s = stmts[-1]
        if isinstance(s, (ast.Return, ast.Raise)):
            return True
        if isinstance(s, ast.If):
            return self.ends(s.body) and bool(s.orelse) and self.ends(s.orelse)
        return False


def translate(fn, lean_name, kind="bool", _helpers=None, _depth=0):
    """returns (lean source text, info dict). kind: 'bool' or 'nat' (the return type)"""
    src = textwrap.dedent(inspect.getsource(fn))
    tree = ast.parse(src).body[0]
    if not isinstance(tree, ast.FunctionDef):
        raise Untranslatable("not a function")
    args = [a.arg for a in tree.args.args]
    if tree.args.vararg or tree.args.kwarg or tree.args.kwonlyargs or tree.args.defaults:
        raise Untranslatable("signature")
    has_self = bool(args) and args[0] == "self"
    params = args[1:] if has_self else args
    t = T(params, has_self, fn, lean_name, _helpers, _depth)
    t.locals = set()
    t.opt = any(isinstance(n, ast.Raise) for n in ast.walk(tree))
    body = t.block(tree.body, kind, 1)
    ret = {"bool": "Bool", "nat": "Nat"}[kind]
    if t.opt:
        ret = "Option " + ret
    binders = ("(d : Nat → Nat) " if has_self else "") + " ".join("(%s : Nat)" % p for p in params)
    text = "def %s %s : %s :=\n%s\n" % (lean_name, binders, ret, body)
    if _depth == 0 and t.helpers:
        text = "\n".join(h[2] for h in t.helpers.values()) + "\n" + text
    return text, {"params": params, "self": has_self, "partial": t.opt}


# --------------------------------------------------------------------------- methods that rewrite self.data (4 bytes)

class D4(T):
    """`set_bit` / `unset_bit` of Unsigned32Type: a method (self, bit) whose statements are
         if [not] self.is_bit_set(bit): raise ...          -> match on the translated accessor (its error propagates)
         <local> = <integer expression over self.data[k], bit, locals>
         self.data = bytes(bytearray([e0, e1, e2, e3]))     -> the four new data bytes
         if/elif/else over integer comparisons
         return self.data
       The result is `Option (Nat × Nat × Nat × Nat)`: `none` = an exception, otherwise the four data bytes afterwards.
       The current bytes are the Lean variables d0..d3 (shadowed by each assignment of self.data)."""

    def num(self, e):
        if (isinstance(e, ast.Subscript) and isinstance(e.value, ast.Attribute) and isinstance(e.value.value, ast.Name)
                and e.value.value.id == "self" and e.value.attr == "data" and isinstance(e.slice, ast.Constant)
                and isinstance(e.slice.value, int) and 0 <= e.slice.value < 4):
            return "d%d" % e.slice.value
        return super().num(e)

    def is_bit_call(self, e):
        return (isinstance(e, ast.Call) and isinstance(e.func, ast.Attribute) and isinstance(e.func.value, ast.Name)
                and e.func.value.id == "self" and e.func.attr == "is_bit_set" and len(e.args) == 1 and not e.keywords)

    def block4(self, stmts, ind):
        pad = "  " * ind
        if not stmts:
            raise Untranslatable("path without return")
        s, rest = stmts[0], stmts[1:]
        if isinstance(s, ast.Expr) and isinstance(s.value, ast.Constant):
            return self.block4(rest, ind)
        if isinstance(s, ast.Return):
            if not (isinstance(s.value, ast.Attribute) and isinstance(s.value.value, ast.Name)
                    and s.value.value.id == "self" and s.value.attr == "data"):
                raise Untranslatable("return value")
            return pad + "some (d0, d1, d2, d3)"
        if isinstance(s, ast.Raise):
            return pad + "none"
        if isinstance(s, ast.Assign) and len(s.targets) == 1:
            t, v = s.targets[0], s.value
            if isinstance(t, ast.Name):
                self.locals.add(t.id)
                return pad + "let %s := %s\n" % (t.id, self.num(v)) + self.block4(rest, ind)
            if (isinstance(t, ast.Attribute) and isinstance(t.value, ast.Name) and t.value.id == "self" and t.attr == "data"
                    and isinstance(v, ast.Call) and isinstance(v.func, ast.Name) and v.func.id == "bytes" and len(v.args) == 1
                    and isinstance(v.args[0], ast.Call) and isinstance(v.args[0].func, ast.Name) and v.args[0].func.id == "bytearray"
                    and len(v.args[0].args) == 1 and isinstance(v.args[0].args[0], ast.List) and len(v.args[0].args[0].elts) == 4):
                es = [self.num(x) for x in v.args[0].args[0].elts]
                # bytearray([..]) raises ValueError for an element outside 0..255
                guard = " && ".join("decide (%s < 256)" % x for x in es)
                return (pad + "if !(%s) then none else\n" % guard
                        + pad + "let (d0, d1, d2, d3) := ((%s), (%s), (%s), (%s))\n" % tuple(es) + self.block4(rest, ind))
            raise Untranslatable("assignment")
        if isinstance(s, ast.If):
            test, neg = s.test, False
            if isinstance(test, ast.UnaryOp) and isinstance(test.op, ast.Not):
                test, neg = test.operand, True
            if self.is_bit_call(test):
                arg = self.num(test.args[0])
                then = self.block4(s.body + ([] if self.ends(s.body) else rest), ind + 2)
                other = list(s.orelse)
                els = self.block4(other + ([] if (other and self.ends(other)) else rest), ind + 2)
                t_branch, f_branch = (els, then) if neg else (then, els)
                return (pad + "match %s (fun k => if k = 0 then d0 else if k = 1 then d1 else if k = 2 then d2 else d3) %s with\n" % (self.isbit, arg)
                        + pad + "| none => none\n" + pad + "| some true =>\n" + t_branch + "\n" + pad + "| some false =>\n" + f_branch)
            c = self.boo(s.test)
            then = self.block4(s.body + ([] if self.ends(s.body) else rest), ind + 1)
            other = list(s.orelse)
            els = self.block4(other + ([] if (other and self.ends(other)) else rest), ind + 1)
            return pad + "if %s then\n%s\n%selse\n%s" % (c, then, pad, els)
        raise Untranslatable("statement " + type(s).__name__)


def translate_data4(fn, lean_name, isbit_lean_name):
    src = textwrap.dedent(inspect.getsource(fn))
    tree = ast.parse(src).body[0]
    args = [a.arg for a in tree.args.args]
    if args != ["self", "bit"] or tree.args.vararg or tree.args.kwarg or tree.args.kwonlyargs or tree.args.defaults:
        raise Untranslatable("signature")
    t = D4(["bit"], True, fn, lean_name)
    t.locals, t.opt, t.isbit = set(), True, isbit_lean_name
    body = t.block4(tree.body, 1)
    return "def %s (d0 d1 d2 d3 : Nat) (bit : Nat) : Option (Nat × Nat × Nat × Nat) :=\n%s\n" % (lean_name, body)


# --------------------------------------------------------------------------- message-kind predicates of utils.py

def translate_msgpred(fn, lean_name):
    """`is_cer_message(msg)` and friends: a function of one message whose statements are `if <cond>: return True|False`,
    `return True|False` (falling off the end = None = false), with <cond> built from not/and/or over
    `msg.header.is_request()`, `msg.header.is_proxiable()`, `msg.header.command_code ==/!= <module-level bytes constant>`.
    Result: `def name (isReq isProx : Bool) (cmd : Nat) : Bool`."""
    src = textwrap.dedent(inspect.getsource(fn))
    tree = ast.parse(src).body[0]
    args = [a.arg for a in tree.args.args]
    if len(args) != 1 or tree.args.vararg or tree.args.kwarg or tree.args.kwonlyargs or tree.args.defaults:
        raise Untranslatable("signature")
    m = args[0]
    G = fn.__globals__

    def hdr_call(e, name):
        return (isinstance(e, ast.Call) and not e.args and not e.keywords and isinstance(e.func, ast.Attribute) and e.func.attr == name
                and isinstance(e.func.value, ast.Attribute) and e.func.value.attr == "header"
                and isinstance(e.func.value.value, ast.Name) and e.func.value.value.id == m)

    def cond(e):
        if isinstance(e, ast.Constant) and isinstance(e.value, bool):
            return "true" if e.value else "false"
        if isinstance(e, ast.UnaryOp) and isinstance(e.op, ast.Not):
            return "(!%s)" % cond(e.operand)
        if isinstance(e, ast.BoolOp):
            return "(" + (" && " if isinstance(e.op, ast.And) else " || ").join(cond(v) for v in e.values) + ")"
        if hdr_call(e, "is_request"):
            return "isReq"
        if hdr_call(e, "is_proxiable"):
            return "isProx"
        if isinstance(e, ast.Compare) and len(e.ops) == 1 and isinstance(e.ops[0], (ast.Eq, ast.NotEq)):
            l, r = e.left, e.comparators[0]
            if (isinstance(l, ast.Attribute) and l.attr == "command_code" and isinstance(l.value, ast.Attribute) and l.value.attr == "header"
                    and isinstance(l.value.value, ast.Name) and l.value.value.id == m and isinstance(r, ast.Name)
                    and isinstance(G.get(r.id), bytes) and len(G[r.id]) == 3):
                c = "decide (cmd = %d)" % int.from_bytes(G[r.id], "big")
                return c if isinstance(e.ops[0], ast.Eq) else "(!%s)" % c
        raise Untranslatable("condition " + ast.dump(e)[:80])

    def block(stmts, ind):
        pad = "  " * ind
        stmts = [s for s in stmts if not (isinstance(s, ast.Expr) and isinstance(s.value, ast.Constant))]
        if not stmts:
            return pad + "false"                      # falling off the end returns None
        s, rest = stmts[0], stmts[1:]
        if isinstance(s, ast.Return):
            if s.value is None:
                return pad + "false"
            return pad + cond(s.value)
        if isinstance(s, ast.If):
            ends = lambda b: bool(b) and isinstance(b[-1], ast.Return)
            then = block(list(s.body) + ([] if ends(s.body) else rest), ind + 1)
            els = block(list(s.orelse) + ([] if ends(s.orelse) else rest), ind + 1)
            return pad + "if %s then\n%s\n%selse\n%s" % (cond(s.test), then, pad, els)
        raise Untranslatable("statement " + type(s).__name__)

    return "def %s (isReq isProx : Bool) (cmd : Nat) : Bool :=\n%s\n" % (lean_name, block(tree.body, 1))


# --------------------------------------------------------------------------- BaseMessageProcessor.create_answer

def translate_create_answer(fn):
    """`create_answer(self, msg)`: an if/elif chain over `msg.header.command_code == <bytes constant>` whose bodies are
    `answer = self.association.base.<template>`, then the UNCONDITIONAL statements `answer.header.hop_by_hop =
    msg.header.hop_by_hop`, `answer.header.end_to_end = msg.header.end_to_end` (either order), then `return answer`.
    Result: Lean text defining `createAnswerTmpl : Nat -> Option String` (template name by command code; `none` = no branch
    taken, the later use of `answer` raises) and the two flags `copiesHbh`, `copiesE2e`."""
    src = textwrap.dedent(inspect.getsource(fn))
    tree = ast.parse(src).body[0]
    args = [a.arg for a in tree.args.args]
    if len(args) != 2 or args[0] != "self":
        raise Untranslatable("signature")
    m = args[1]
    G = fn.__globals__
    body = [s for s in tree.body if not (isinstance(s, ast.Expr) and isinstance(s.value, ast.Constant))]
    if not body or not isinstance(body[0], ast.If) or not isinstance(body[-1], ast.Return):
        raise Untranslatable("shape")
    var = None
    branches = []
    node = body[0]
    while True:
        t = node.test
        ok = (isinstance(t, ast.Compare) and len(t.ops) == 1 and isinstance(t.ops[0], ast.Eq) and isinstance(t.comparators[0], ast.Name)
              and isinstance(G.get(t.comparators[0].id), bytes) and ast.unparse(t.left) == "%s.header.command_code" % m)
        if not ok or len(node.body) != 1 or not isinstance(node.body[0], ast.Assign) or len(node.body[0].targets) != 1:
            raise Untranslatable("branch shape")
        a = node.body[0]
        if not isinstance(a.targets[0], ast.Name) or not ast.unparse(a.value).startswith("self.association.base."):
            raise Untranslatable("branch assignment")
        var = var or a.targets[0].id
        if a.targets[0].id != var:
            raise Untranslatable("two answer variables")
        branches.append((int.from_bytes(G[t.comparators[0].id], "big"), ast.unparse(a.value).rsplit(".", 1)[1]))
        if len(node.orelse) == 1 and isinstance(node.orelse[0], ast.If):
            node = node.orelse[0]
        elif not node.orelse:
            break
        else:
            raise Untranslatable("else branch")
    copies = {"hop_by_hop": False, "end_to_end": False}
    for s in body[1:-1]:
        txt = ast.unparse(s)
        for f in copies:
            if txt == "%s.header.%s = %s.header.%s" % (var, f, m, f):
                copies[f] = True
                break
        else:
            raise Untranslatable("statement `%s`" % txt[:60])
    if ast.unparse(body[-1]) != "return %s" % var:
        raise Untranslatable("return")
    chain = "none"
    for code, tmpl in reversed(branches):
        chain = "if cmd = %d then some \"%s\" else %s" % (code, tmpl, chain)
    return ("def createAnswerTmpl (cmd : Nat) : Option String := %s\n"
            "def copiesHbh : Bool := %s\ndef copiesE2e : Bool := %s\n" % (chain, str(copies["hop_by_hop"]).lower(), str(copies["end_to_end"]).lower()))


# --------------------------------------------------------------------------- DiameterAssociation.split_data_stream

def translate_split(fn):
    """`split_data_stream(stream)`: a shape-checking translation. The function must be
         index = 0
         while len(stream) - index >= A:
             length = int.from_bytes(stream[index+B:index+C], byteorder="big")
             if length < D or len(stream) - index < length: break
             index += length
         if len(stream) - index >= E and int.from_bytes(stream[index+B':index+C'], byteorder="big") < F: return stream, b""
         return stream[:index], stream[index:]
       (names free, constants A..F, B, C, B', C' free). The constants go into the Lean text verbatim; the `while` becomes a
       recursion on a fuel argument that the caller instantiates with len(stream) (every iteration advances by >= D >= 1 bytes
       is part of what the tie theorem checks, since it compares with the well-founded model)."""
    import re
    f = getattr(fn, "__func__", fn)
    src = textwrap.dedent(inspect.getsource(f))
    tree = ast.parse(src).body[0]
    args = [a.arg for a in tree.args.args]
    if len(args) != 1:
        raise Untranslatable("signature")
    st = args[0]
    body = [s for s in tree.body if not (isinstance(s, ast.Expr) and isinstance(s.value, ast.Constant))]
    if len(body) != 4:
        raise Untranslatable("%d statements" % len(body))
    u = [ast.unparse(s) for s in body]
    m0 = re.fullmatch(r"(\w+) = 0", u[0])
    if not m0 or not isinstance(body[1], ast.While) or body[1].orelse:
        raise Untranslatable("loop header")
    ix = m0.group(1)
    lenx = r"len\(%s\) - %s" % (st, ix)
    mw = re.fullmatch(lenx + r" >= (\d+)", ast.unparse(body[1].test))
    wb = [ast.unparse(s) for s in body[1].body if not (isinstance(s, ast.Expr) and isinstance(s.value, ast.Constant))]
    if not mw or len(wb) != 3:
        raise Untranslatable("loop shape")
    ma = re.fullmatch(r"(\w+) = int\.from_bytes\(%s\[%s \+ (\d+):%s \+ (\d+)\], byteorder='big'\)" % (st, ix, ix), wb[0])
    if not ma:
        raise Untranslatable("length read `%s`" % wb[0][:60])
    ln = ma.group(1)
    mi = re.fullmatch(r"if %s < (\d+) or %s < %s:\n\s+break" % (ln, lenx, ln), wb[1])
    if not mi or wb[2] != "%s += %s" % (ix, ln):
        raise Untranslatable("loop body `%s` / `%s`" % (wb[1][:50], wb[2][:30]))
    mf = re.fullmatch(r"if %s >= (\d+) and int\.from_bytes\(%s\[%s \+ (\d+):%s \+ (\d+)\], byteorder='big'\) < (\d+):\n\s+return \(%s, b''\)"
                      % (lenx, st, ix, ix, st), u[2])
    if not mf or u[3] != "return (%s[:%s], %s[%s:])" % (st, ix, st, ix):
        raise Untranslatable("tail `%s` / `%s`" % (u[2][:60], u[3][:40]))
    A, B, C, D = mw.group(1), ma.group(2), ma.group(3), mi.group(1)
    E, B2, C2, F = mf.group(1), mf.group(2), mf.group(3), mf.group(4)
    return ("def splitIdx (stream : Bytes) : Nat → Nat → Nat\n  | 0, i => i\n  | f+1, i =>\n"
            "    if stream.length - i ≥ %s then\n      let length := fromBE ((stream.drop (i + %s)).take (%s - %s))\n"
            "      if length < %s ∨ stream.length - i < length then i else splitIdx stream f (i + length)\n    else i\n\n"
            "def splitDataStream (stream : Bytes) : Bytes × Bytes :=\n  let index := splitIdx stream stream.length 0\n"
            "  if stream.length - index ≥ %s ∧ fromBE ((stream.drop (index + %s)).take (%s - %s)) < %s then (stream, [])\n"
            "  else (stream.take index, stream.drop index)\n" % (A, B, C, B, D, E, B2, C2, B2, F))


# --------------------------------------------------------------------------- utils.encode_to_tbcd / decode_from_tbcd

def translate_tbcd(U):
    """Shape-checking translation of the two TBCD loops (and the helpers they call) of bromelia/utils.py. The statement lists
    must be the ones below up to the extracted constants: slice width W / step S / full-pair length L of the encoder, the filler
    character F (both loops), step S' and the index K of the digit kept at the filler in the decoder, the keys of `special_chars`.
    `transform_bits` (special characters, outside the property) becomes a parameter of the Lean encoder."""
    import re

    def stmts(fn):
        t = ast.parse(textwrap.dedent(inspect.getsource(fn))).body[0]
        return [ast.unparse(s) for s in t.body if not (isinstance(s, ast.Expr) and isinstance(s.value, ast.Constant))]
    g = stmts(U.get_two_bits)
    mg = re.fullmatch(r"return input\[offset:offset \+ (\d+)\]", g[0]) if len(g) == 1 else None
    if not mg:
        raise Untranslatable("get_two_bits")
    if stmts(U.is_special_char) != ["return any((char in bits for char in special_chars.keys()))"]:
        raise Untranslatable("is_special_char")
    keys = list(U.special_chars)
    if not all(isinstance(k, str) and len(k) == 1 for k in keys):
        raise Untranslatable("special_chars keys")
    e = stmts(U.encode_to_tbcd)
    pat_e = (r"while offset < len\(input\):\n    bits = get_two_bits\(input, offset\)\n    if len\(bits\) == (\d+):\n        bits = bits\[::-1\]\n"
             r"        bits = transform_bits\(bits\) if is_special_char\(bits\) else bits\n        output \+= bits\n        offset \+= (\d+)\n"
             r"    else:\n        bits = '(.)' \+ str\(bits\)\n        output \+= bits\n        return output")
    me = re.fullmatch(pat_e, e[2]) if len(e) == 4 else None
    if not me or e[0] != "offset, output = (0, '')" or e[1] != "input = str(input) if isinstance(input, int) else input" or e[3] != "return output":
        raise Untranslatable("encode_to_tbcd shape")
    d = stmts(U.decode_from_tbcd)
    pat_d = (r"while offset < len\(input\):\n    bits = get_two_bits\(input, offset\)\n    if '(.)' not in bits:\n        output \+= bits\[::-1\]\n"
             r"        offset \+= (\d+)\n    else:\n        output \+= bits\[(\d+)\]\n        return output")
    md = re.fullmatch(pat_d, d[1]) if len(d) == 3 else None
    if not md or d[0] != "offset, output = (0, '')" or d[2] != "return output":
        raise Untranslatable("decode_from_tbcd shape")
    W, L, S, F = mg.group(1), me.group(1), me.group(2), me.group(3)
    F2, S2, K = md.group(1), md.group(2), md.group(3)
    ch = lambda c: "'%s'" % c if c not in "'\\" else "'\\%s'" % c
    return ("/-- keys of `special_chars` -/\ndef specialChars : List Char := [%s]\n"
            "def isSpecial (bits : List Char) : Bool := specialChars.any (fun c => bits.contains c)\n\n"
            "def encLoop (transform : List Char → List Char) (input : List Char) : Nat → Nat → List Char → List Char\n"
            "  | 0, _, out => out\n  | f+1, off, out =>\n    if off < input.length then\n      let bits := (input.drop off).take %s\n"
            "      if bits.length = %s then\n        let bits := bits.reverse\n        let bits := if isSpecial bits then transform bits else bits\n"
            "        encLoop transform input f (off + %s) (out ++ bits)\n      else out ++ (%s :: bits)\n    else out\n"
            "def encode (transform : List Char → List Char) (input : List Char) : List Char := encLoop transform input (input.length + 1) 0 []\n\n"
            "def decLoop (input : List Char) : Nat → Nat → List Char → Option (List Char)\n  | 0, _, out => some out\n  | f+1, off, out =>\n"
            "    if off < input.length then\n      let bits := (input.drop off).take %s\n"
            "      if !(bits.any (fun c => c == %s)) then decLoop input f (off + %s) (out ++ bits.reverse)\n"
            "      else match bits[%s]? with\n        | some c => some (out ++ [c])\n        | none => none\n    else some out\n"
            "def decode (input : List Char) : Option (List Char) := decLoop input (input.length + 1) 0 []\n"
            % (", ".join(ch(k) for k in keys), W, L, S, ch(F), W, ch(F2), S2, K))
