# -*- coding: utf-8 -*-
"""Writes MANIFEST.json from the table below (kept here so that the manifest stays valid and uniform)."""
import json
import os

VERIF = os.path.dirname(os.path.dirname(os.path.abspath(__file__)))

CLAIMED = {
    "C17": dict(
        text="Lean theorems: for every natural n each integer family predicate (translated from utils.py on every run, and the hand model) holds iff n//1000 = k and n%1000 != 0; at most one holds; the answer-object predicates equal the integer predicates of the decoded Result-Code for every 4-byte value and are None without one. Tie: translator re-proof + exhaustive correspondence over codes 0..65535 x 5 predicates x both layers plus boundary/random 32-bit codes.",
        note="Trusted: Lean kernel; py2lean translator for the five integer predicates; the hand model of the object layer is tied by the exhaustive correspondence only; CPython int/bytes conversions.",
        technique="Lean 4 proof (omega/simp over translated predicates) + exhaustive differential correspondence",
        design="4 C17"),
    "C18": dict(
        text="Lean theorems over the model of the two TBCD loops: decode(encode s) = s for every string without the filler character (hence every digit string, any length, odd or even, by two-step induction), length and index-wise nibble-swapped layout of the encoding, filler present iff the length is odd, and the bytes of MSISDN/STN-SR data built from a number equal the 3GPP TBCD octets of its decimal numeral. Tie: exhaustive correspondence over all digit strings up to length 5 (quick) / 7 (thorough) plus random strings, and AVPs from numbers.",
        note="Trusted: Lean kernel; hand model of encode_to_tbcd/decode_from_tbcd tied by exhaustive differential runs; CPython str/int/bytes.fromhex; special characters (* # a b c) are outside the property and not modelled.",
        technique="Lean 4 proof (structural induction on digit lists) + exhaustive differential correspondence",
        design="4 C18"),
    "C20": dict(
        text="Lean theorems: for all 4 data bytes and every index 0..31 is_bit_set reads exactly Nat.testBit of the big-endian word; set_bit/unset_bit change exactly that bit (bytes stay bytes), redundant set/clear and indices >= 32 are rejected; the translated is_bit_set equals the hand model; Address data = family code ++ packed and the accessors return family and packed address back for every IPv4/IPv6 address; Time data = big-endian whole seconds for every representable instant, range error beyond; the calendar specification is characterised by epoch + successor laws. Tie: translator re-proof + differential correspondence (bits exhaustive over boundary words x indices).",
        note="Trusted: Lean kernel; py2lean translation of is_bit_set; CPython ipaddress (IPv6 text<->packed; IPv4 cross-checked by a Lean recogniser) and datetime subtraction (cross-checked by the Lean calendar spec on every sampled instant); hand models of set_bit/unset_bit/AddressType/TimeType tied by correspondence.",
        technique="Lean 4 proof (Nat.testBit extensionality, omega) + differential correspondence",
        design="4 C20"),
    "C01": dict(
        text="Lean theorems: the AVP serialiser as coded (length recomputed, truthiness tests, padding property) equals the RFC 6733 reference encoder for every AVP; declarative layout of the dump of every well-formed AVP (size multiple of 4, code/flags/24-bit length = header+data without padding, Vendor-ID field iff V flag, data, zero padding); Grouped AVPs to any nesting depth (mutual induction on content trees); after any sequence of appends the Message Length equals 20 + padded sizes = size of the dump, and the message dump equals the reference message encoding for all header field values. Tie: dictionary table regenerated from the source; differential correspondence of dump() of objects built through the public API (all dictionary classes, kinds, residues, nesting, flag overrides, four ways of building a message) against model and reference encoder in the native driver.",
        note="Trusted: Lean kernel; hand model of dump/append tied by correspondence; Gen/Dictionary translator; CPython bytes/struct/utf-8; typed command classes are exercised under C09.",
        technique="Lean 4 proof (structural/mutual induction, list lemmas) + differential correspondence against a Lean reference encoder",
        design="4 C01"),
    "C02": dict(
        text="Lean theorems over the decoder model (well-founded recursion, Python slice semantics, dictionary dispatch, class re-construction): for every stream of well-formed messages decoding yields exactly one object per message in order with header fields as on the wire and each AVP's code, Vendor-ID, data preserved, known pairs as their class, unknown ones generic, members of known Grouped AVPs recursively (mutual induction over content trees); re-serialisation equals header ++ encoding of the flag-normalised content; under the guard 'known AVPs carry default flags' it is byte-identical (full statement). Outside the guard the decoder resets flags: known finding C02-known-avp-reflagged with a proven witness. Tie: wire images from the Lean reference encoder decoded by DiameterMessage.load and compared object by object and byte by byte with model and specification.",
        note="Trusted: Lean kernel; hand model of DiameterAVP.load / DiameterMessage.load / typed re-construction tied by correspondence; Gen/Dictionary translator; DiameterURI data not modelled; known finding listed in known_findings.json (5 stable tests pin the re-flagging).",
        technique="Lean 4 proof (well-founded + mutual structural induction: decode(encode)=observe) + differential correspondence",
        design="4 C02"),
    "C03": dict(
        text="Lean: the decoders are DEFINED by well-founded recursion on the input length (termination obligations: each AVP iteration consumes >= 8 bytes, each message iteration >= 20); theorems for ALL byte strings: the result is messages or a library error, never a foreign exception; at most len/8 AVP objects over all nesting levels and len/20 messages (step/output bound); Message Length < 20 and truncated headers are rejected; one iteration of the receive worker keeps the thread alive and releases the association lock for every byte string. Tie: malformed corpus (all truncation points, length-field sweeps, bit flips, every dictionary class with out-of-domain data, garbage) through DiameterMessage.load / DiameterAVP.load under an iteration counter and alarm, and through one real iteration of recv_message_from_queue, compared with the model.",
        note="Trusted: Lean kernel; hand model of the decoders and of the worker iteration tied by correspondence; watchdog (SIGALRM + line-event counter). State-machine reaction to misaddressed requests / malformed CER is part of C06 (tick totality). Heap use is bounded via the object-count theorem, not measured.",
        technique="Lean 4 proof (well-founded recursion, strong induction on length) + malformed-input differential correspondence",
        design="4 C03"),
    "C10": dict(
        text="Lean: table facts decided completely by the kernel (decide +kernel) over the dictionary regenerated from the source on every run: every class has a modelled constructor shape; rows sharing a (vendor, code) key are the same definition; V flag iff vendor-specific, no reserved default flag bits; each class's key dispatches to its definition; no explicit vendor 0; enumerators distinct 32-bit values; every class matches the reviewed reference snapshot on name/vendor/code/type (and none disappeared); default flags match it except the two listed classes (known finding, _partial); every docs row names a class with that code and type. Constructor theorems for every kind and every Python value: accepted => the data is the well-formed encoding of that value (widths 4/8, enumerator membership, address family+width, URI acceptance, TBCD), Grouped => all mandatory members and data = concatenation of member encodings. Tie: translator validated against a live instance of each class; ~45 values of all Python types per class + in-domain values through the real constructors; Grouped classes with each mandatory member dropped.",
        note="Trusted: Lean kernel; gen_dict.py translator; reference/dictionary.json (reviewed snapshot, not an independent authority); hand model of the typed constructors tied by correspondence; CPython ipaddress/datetime/struct/re. Known finding C10-default-flags-297-299 (tests pin it).",
        technique="Lean 4 proof (decide +kernel over regenerated tables; case analysis per kind) + differential correspondence",
        design="4 C10"),
    "C09": dict(
        text="Lean: generic theorems about the _load loop for any table row and any arguments (AVPs = those produced by the arguments, in argument order, extras last; a None mandatory argument raises; each argument is carried by the dictionary class its key maps to with that class's code/vendor/flags; mandatory exactly once under distinct keys; R/P flag rule; Message Length = size when the Application-ID is set), plus table facts decided by the kernel over the command table regenerated from the source: regular constructor shape, keys resolve to dictionary classes, mandatory keys are parameters (_partial: one listed class), request/answer partners agree on command code and Application-ID, command code / Application-ID / R flag / mandatory key set equal the reviewed snapshot. Tie: every class x argument subsets through the real constructors compared with the model, with the reference encoding of (command header, arguments in declared order), clause by clause, and through a serialise/decode round trip.",
        note="Trusted: Lean kernel; gen_commands.py translator; reference/commands.json (reviewed snapshot); hand model of _load tied by correspondence; Session-Id arguments passed as bytes (generation is C16). Known findings: base ASA/RAA built without Application-ID (two-step usage), S6b AAAnswer dead mandatory key.",
        technique="Lean 4 proof (list induction over the _load loop; decide +kernel over regenerated tables) + differential correspondence",
        design="4 C09"),
}

NOT_YET = {
}


def main():
    checks = []
    for pid, c in sorted(CLAIMED.items()):
        checks.append({
            "property_id": pid,
            "quick_cmd": "./check %s --tier quick" % pid,
            "thorough_cmd": "./check %s --tier thorough" % pid,
            "evidence_file": "evidence/%s.json" % pid,
            "replay_cmd_template": "./check %s --replay {path}" % pid,
            "engine": "lean4-proof+correspondence",
            "level_claimed": {"category": "proof", "text": c["text"], "design_ref": c["design"]},
            "level_note": c["note"],
            "technique": c["technique"],
        })
    props = [json.loads(l)["id"] for l in open(os.path.join(VERIF, "properties.jsonl"))]
    na = [{"property_id": p, "reason": NOT_YET.get(p, "check not built yet in this round (planned as Lean proof + correspondence, see DESIGN.md section 4); not claimed until its check passes on the current tree")}
          for p in props if p not in CLAIMED]
    m = {
        "version": 1,
        "setup_cmd": "./setup.sh",
        "hooks": {"guard": "BROMELIA_VERIF", "enable": "no hooks in /repo: the harness substitutes module attributes from outside; checks export BROMELIA_VERIF=1 for uniformity",
                  "baseline_off_cmd": "cd /repo && env -u BROMELIA_VERIF /venv/bin/python -m pytest -ra -q -p no:cacheprovider --timeout=900 --continue-on-collection-errors",
                  "source_commits": [], "add_only": True},
        "engines": [{"name": "lean4-proof+correspondence", "path": "lean/ + harness/",
                     "serves_properties": sorted(CLAIMED),
                     "kind_free_text": "Lean 4 models/specs/theorems (lake project in lean/), translators regenerating Gen/*.lean from /repo, native line-protocol driver compared against the real code in-process by harness/props/*.py"}],
        "checks": checks,
        "not_applicable": na,
        "notes": "See DESIGN.md. known_findings.json lists fixed and known findings.",
    }
    with open(os.path.join(VERIF, "MANIFEST.json"), "w") as f:
        json.dump(m, f, indent=1)


if __name__ == "__main__":
    main()
