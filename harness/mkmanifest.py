# -*- coding: utf-8 -*-
"""Writes MANIFEST.json from the table below (kept here so that the manifest stays valid and uniform)."""
import json
import os

VERIF = os.path.dirname(os.path.dirname(os.path.abspath(__file__)))

CLAIMED = {
    "C17": dict(
        text="Lean theorems: for every natural n each integer family predicate (translated from utils.py on every run, and the hand model) holds iff n//1000 = k and n%1000 != 0; at most one holds; the answer-object predicates equal the integer predicates of the decoded Result-Code for every 4-byte value and are None without one. Tie: translator re-proof + exhaustive correspondence over codes 0..65535 x 5 predicates x both layers plus boundary/random 32-bit codes.",
        note="Trusted: Lean kernel; py2lean translator for the five integer predicates; the hand model of the object layer is tied by the exhaustive correspondence only; CPython int/bytes conversions.",
        technique="Lean 4 proof (omega/simp over translated predicates) + exhaustive differential correspondence",
        design="4 C17"),
    "C18": dict(
        text="Lean theorems over the model of the two TBCD loops: decode(encode s) = s for every string without the filler character (hence every digit string, any length, odd or even, by two-step induction), length and index-wise nibble-swapped layout of the encoding, filler present iff the length is odd, and the bytes of MSISDN/STN-SR data built from a number equal the 3GPP TBCD octets of its decimal numeral. Tie: exhaustive correspondence over all digit strings up to length 5 (quick) / 7 (thorough) plus random strings, and AVPs from numbers.",
        note="Trusted: Lean kernel; hand model of encode_to_tbcd/decode_from_tbcd tied by exhaustive differential runs; CPython str/int/bytes.fromhex; special characters (* # a b c) are outside the property and not modelled.",
        technique="Lean 4 proof (structural induction on digit lists) + exhaustive differential correspondence",
        design="4 C18"),
    "C20": dict(
        text="Lean theorems: for all 4 data bytes and every index 0..31 is_bit_set reads exactly Nat.testBit of the big-endian word; set_bit/unset_bit change exactly that bit (bytes stay bytes), redundant set/clear and indices >= 32 are rejected; the translated is_bit_set equals the hand model; Address data = family code ++ packed and the accessors return family and packed address back for every IPv4/IPv6 address; Time data = big-endian whole seconds for every representable instant, range error beyond; the calendar specification is characterised by epoch + successor laws. Tie: translator re-proof + differential correspondence (bits exhaustive over boundary words x indices).",
        note="Trusted: Lean kernel; py2lean translation of is_bit_set; CPython ipaddress (IPv6 text<->packed; IPv4 cross-checked by a Lean recogniser) and datetime subtraction (cross-checked by the Lean calendar spec on every sampled instant); hand models of set_bit/unset_bit/AddressType/TimeType tied by correspondence.",
        technique="Lean 4 proof (Nat.testBit extensionality, omega) + differential correspondence",
        design="4 C20"),
    "C01": dict(
        text="Lean theorems: the AVP serialiser as coded (length recomputed, truthiness tests, padding property) equals the RFC 6733 reference encoder for every AVP; declarative layout of the dump of every well-formed AVP (size multiple of 4, code/flags/24-bit length = header+data without padding, Vendor-ID field iff V flag, data, zero padding); Grouped AVPs to any nesting depth (mutual induction on content trees); after any sequence of appends the Message Length equals 20 + padded sizes = size of the dump, and the message dump equals the reference message encoding for all header field values. Tie: dictionary table regenerated from the source; differential correspondence of dump() of objects built through the public API (all dictionary classes, kinds, residues, nesting, flag overrides, four ways of building a message) against model and reference encoder in the native driver.",
        note="Trusted: Lean kernel; hand model of dump/append tied by correspondence; Gen/Dictionary translator; CPython bytes/struct/utf-8; typed command classes are exercised under C09.",
        technique="Lean 4 proof (structural/mutual induction, list lemmas) + differential correspondence against a Lean reference encoder",
        design="4 C01"),
    "C02": dict(
        text="Lean theorems over the decoder model (well-founded recursion, Python slice semantics, dictionary dispatch, class re-construction): for every stream of well-formed messages decoding yields exactly one object per message in order with header fields as on the wire and each AVP's code, Vendor-ID, data preserved, known pairs as their class, unknown ones generic, members of known Grouped AVPs recursively (mutual induction over content trees); re-serialisation equals header ++ encoding of the flag-normalised content; under the guard 'known AVPs carry default flags' it is byte-identical (full statement). Outside the guard the decoder resets flags: known finding C02-known-avp-reflagged with a proven witness. Tie: wire images from the Lean reference encoder decoded by DiameterMessage.load and compared object by object and byte by byte with model and specification.",
        note="Trusted: Lean kernel; hand model of DiameterAVP.load / DiameterMessage.load / typed re-construction tied by correspondence; Gen/Dictionary translator; DiameterURI data not modelled; known finding listed in known_findings.json (5 stable tests pin the re-flagging).",
        technique="Lean 4 proof (well-founded + mutual structural induction: decode(encode)=observe) + differential correspondence",
        design="4 C02"),
    "C03": dict(
        text="Lean: the decoders are DEFINED by well-founded recursion on the input length (termination obligations: each AVP iteration consumes >= 8 bytes, each message iteration >= 20); theorems for ALL byte strings: the result is messages or a library error, never a foreign exception; at most len/8 AVP objects over all nesting levels and len/20 messages (step/output bound); Message Length < 20 and truncated headers are rejected; one iteration of the receive worker keeps the thread alive and releases the association lock for every byte string. Tie: malformed corpus (all truncation points, length-field sweeps, bit flips, every dictionary class with out-of-domain data, garbage) through DiameterMessage.load / DiameterAVP.load under an iteration counter and alarm, and through one real iteration of recv_message_from_queue, compared with the model.",
        note="Trusted: Lean kernel; hand model of the decoders and of the worker iteration tied by correspondence; watchdog (SIGALRM + line-event counter). State-machine reaction to misaddressed requests / malformed CER is part of C06 (tick totality). Heap use is bounded via the object-count theorem, not measured.",
        technique="Lean 4 proof (well-founded recursion, strong induction on length) + malformed-input differential correspondence",
        design="4 C03"),
    "C10": dict(
        text="Lean: table facts decided completely by the kernel (decide +kernel) over the dictionary regenerated from the source on every run: every class has a modelled constructor shape; rows sharing a (vendor, code) key are the same definition; V flag iff vendor-specific, no reserved default flag bits; each class's key dispatches to its definition; no explicit vendor 0; enumerators distinct 32-bit values; every class matches the reviewed reference snapshot on name/vendor/code/type (and none disappeared); default flags match it except the two listed classes (known finding, _partial); every docs row names a class with that code and type. Constructor theorems for every kind and every Python value: accepted => the data is the well-formed encoding of that value (widths 4/8, enumerator membership, address family+width, URI acceptance, TBCD), Grouped => all mandatory members and data = concatenation of member encodings. Tie: translator validated against a live instance of each class; ~45 values of all Python types per class + in-domain values through the real constructors; Grouped classes with each mandatory member dropped.",
        note="Trusted: Lean kernel; gen_dict.py translator; reference/dictionary.json (reviewed snapshot, not an independent authority); hand model of the typed constructors tied by correspondence; CPython ipaddress/datetime/struct/re. Known finding C10-default-flags-297-299 (tests pin it).",
        technique="Lean 4 proof (decide +kernel over regenerated tables; case analysis per kind) + differential correspondence",
        design="4 C10"),
    "C09": dict(
        text="Lean: generic theorems about the _load loop for any table row and any arguments (AVPs = those produced by the arguments, in argument order, extras last; a None mandatory argument raises; each argument is carried by the dictionary class its key maps to with that class's code/vendor/flags; mandatory exactly once under distinct keys; R/P flag rule; Message Length = size when the Application-ID is set), plus table facts decided by the kernel over the command table regenerated from the source: regular constructor shape, keys resolve to dictionary classes, mandatory keys are parameters (_partial: one listed class), request/answer partners agree on command code and Application-ID, command code / Application-ID / R flag / mandatory key set equal the reviewed snapshot. Tie: every class x argument subsets through the real constructors compared with the model, with the reference encoding of (command header, arguments in declared order), clause by clause, and through a serialise/decode round trip.",
        note="Trusted: Lean kernel; gen_commands.py translator; reference/commands.json (reviewed snapshot); hand model of _load tied by correspondence; Session-Id arguments passed as bytes (generation is C16). Known findings: base ASA/RAA built without Application-ID (two-step usage), S6b AAAnswer dead mandatory key.",
        technique="Lean 4 proof (list induction over the _load loop; decide +kernel over regenerated tables) + differential correspondence",
        design="4 C09"),
    "C11": dict(
        text="Lean: model of the message container (list, named view with structural (base, suffix) names, Message Length) with append/extend/pop/cleanup/avps-setter/item assignment/key renaming/update_avp/refresh/in-place resize; theorem by induction over EVERY operation sequence: distinct listed objects, distinct names, one name per listed object and none for unlisted ones, length = 20 + padded sizes; has_avp agrees with the views; order preservation per operation; pop removes the named object. Tie: exhaustive operation sequences (length <= 3 over 25 operations, length 4 over a reduced alphabet; thorough deeper) plus random sequences to length 40 on generic and typed messages, real object compared with the model state after every step and checked against the coherence specification by object identity.",
        note="Trusted: Lean kernel; hand model tied by per-step correspondence; objects handed to operations are new and pairwise distinct (aliasing the same AVP object twice is outside the model); GroupedType's identical scheme is exercised only through C01 (data consistency).",
        technique="Lean 4 proof (inductive invariant over operation sequences) + exhaustive small-alphabet differential correspondence",
        design="4 C11"),
    "C12": dict(
        text="Lean: model of decorate_answer as four steps; theorems for every answer/request: decoration always succeeds for an answer with R clear; Application-ID, Hop-by-Hop, End-to-End and (when the request has one) Session-Id are the request's, a missing Session-Id AVP is added; for an answer arriving with E clear the E flag is set iff the handler's Result-Code is in the numeric 3xxx/4xxx/5xxx family (via C17 for all codes), a preset E flag is kept; no Result-Code next to an Experimental-Result; Message Length matches the final content. Tie: real decorate_answer on generic and typed answers over every Result-Code 0..6999 (thorough 0..65535) plus boundary 32-bit codes x Session-Id residues/absence x Experimental-Result x preset E.",
        note="Trusted: Lean kernel; abstract answer state (other AVPs as a padded size) tied by correspondence; the message placed on the send queue is the returned object (C13).",
        technique="Lean 4 proof (case analysis + C17 family lemma) + exhaustive-over-codes differential correspondence",
        design="4 C12"),
    "C13": dict(
        text="Lean: route table as nested insertion-ordered dictionaries; theorems: after any registration history dispatch returns the handler registered last for exactly that (Application-ID, command code) pair (other pairs, incl. the same code under another application, untouched); callback_route runs that handler and sends exactly one message for every outcome {answer, None, wrong type, standard exception}; the error answer is 5012 with the request's identifiers and Session-Id, local origin, requester as destination. Tie: real Bromelia.callback_route with an in-process worker over random route tables and outcomes.",
        note="Trusted: Lean kernel; in-process FakeWorker instead of multiprocessing workers, rate-limiting barriers replaced by no-ops; requests carry Session-Id/Origin AVPs (guard of the error path); handlers raising BaseException subclasses are outside the statement's outcomes.",
        technique="Lean 4 proof (assoc-list lemmas, induction over registration history) + differential correspondence",
        design="4 C13"),
    "C16": dict(
        text="Lean: Session-Id generation as a counter that only increases; theorems for every history of generations and bulk origin updates with any identities at any rate: generated (high, low) pairs — hence Session-Ids — are pairwise distinct, the i-th id carries counter start+i+1 (no restart on identity switch), the text is identity;init;counter;bromelia and starts with the identity. Tie: long histories with a scripted clock through SessionIdAVP, AcctMultiSessionIdAVP, typed messages and update_avps; all ids of a run checked for distinctness/form and compared with the model sequence; bytes carried unchanged.",
        note="Trusted: Lean kernel; str formatting of the id; datetime rebound in bromelia._internal_utils; counter overflow beyond 32 bits not modelled.",
        technique="Lean 4 proof (monotone counter invariant) + differential correspondence with scripted clock",
        design="4 C16"),
    "C19": dict(
        text="Lean: model of configuration validation and of the YAML step; theorems: accepted => every Connection field is exactly the configured value and mode/transport/addresses/timeout are in range; a complete configuration is accepted or rejected with InvalidConfigKey/InvalidConfigValue; unknown keys and invalid values are never accepted; accept/reject, error class and result are invariant under every permutation of the keys; YAML: one configuration per entry in order, case-normalised, TCP by default per entry. Tie: every key x value alphabet through three entry points, unknown keys, random combinations and key orders, caller's dict unchanged, YAML lists of 1..4 entries.",
        note="Trusted: Lean kernel; value abstraction (what validation looks at) tied by correspondence; ipaddress.IPv4Address cross-checked by Model/Ipv4.lean; PyYAML; Diameter(config=) only for configurations whose unchecked fields are ordinary (base-message construction is outside the property).",
        technique="Lean 4 proof (permutation invariance, lookup lemmas) + differential correspondence",
        design="4 C19"),
    "C06": dict(
        text="Lean: executable model of the peer state machine (one tick = run() of the current state + get_next_state, all seven state classes, both roles, restart on the same node object) and of the base-message validity predicates; theorems over EVERY history of ticks, inbound messages and local events: Open/Closing only after a capabilities exchange whose CER/CEA passed the validity predicate, which holds only for messages carrying the configured peer's Origin-Host and Origin-Realm (inductive invariant); a stopped machine is Closed with its transport released; run() is total and never stops the loop except by the transition to Closed; per-transition theorems for the named clauses (local stop: queued messages + exactly one DPR then Closing, nothing written while Closing, DPA closes; valid DPR answered with its identifiers then Closed; peer disconnect closes Open/Closing/Wait-I-CEA; non-CEA while awaiting the CEA closes; idle Open emits a DWR; delivery only by a tick in Open, one message, misaddressed requests dropped). Tie: the real state classes ticked one run()+get_next_state at a time over a substituted transport, inbound messages passed through the wire codec; breadth-first over all event sequences deduplicated on the implementation's state until closure (thorough) plus random histories; per-step observations equal the model's and satisfy a monitor written from the statement.",
        note="Trusted: Lean kernel; hand model tied by per-step correspondence; substituted transport/lock/time.sleep (psmdrv.py); abstraction of decoded messages to model tokens; the monitor is Python. Threads, sockets, timers: C04/C05/C08. As implemented: an unacceptable DWA moves Open to Closing without a DPR; an invalid CEA is ignored in Wait-I-CEA; Wait-Conn-Ack + valid CER enters the unimplemented Wait-Conn-Ack/Elect state; Closing waits for the DPA without a timeout.",
        technique="Lean 4 proof (inductive invariant over event histories + per-transition theorems) + state-space-exhaustive differential correspondence",
        design="4 C06"),
    "C07": dict(
        text="Lean (same state-machine model): for every history, both roles, across restarts on the same node object, the CEA/DWA/DPA written to the transport are, in order, exactly the answers owed to the valid CER/DWR/DPR consumed in an answering state (same command, the request's Hop-by-Hop and End-to-End), one per request and none without a request; no answer is ever parked in the send queue, so it is written in the tick that consumed its request. Tie: C06's exploration plus request-burst histories with boundary/repeated identifiers and reconnects; every answer on the substituted transport is decoded and matched with the request consumed in the same tick (command, R flag, identifiers, local Origin-Host/Realm, Result-Code, length).",
        note="Trusted: Lean kernel; hand model tied by per-step correspondence (props/c06.py, psmdrv.py); AVP content of the answers is checked on the implementation only (the model carries command and identifiers); identifiers are modelled as naturals (the wire width is C01's).",
        technique="Lean 4 proof (history invariant: answers written = answers owed) + differential correspondence",
        design="4 C07"),
    "C15": dict(
        text="Lean: transition system of identifier assignment (per creating thread: read 4 random bytes, then atomically test-and-register or go back to reading; Hop-by-Hop then End-to-End), any number of threads, ANY random stream (repeats allowed) and ANY interleaving; theorems by induction over all schedules: both registries are duplicate-free, identifiers issued to different creations are pairwise distinct, registries only grow, creations from an explicit header (and answers) do not touch them. Tie: sequential histories over scripted adversarial random sources through generic and typed request classes compared with the model; concurrent creation by 2..3 real threads under the simulation scheduler with hand-over at every source line of the two methods (depth-first schedule enumeration + random/priority schedules), registry operations logged, mapped to model actions and replayed on the model.",
        note="Trusted: Lean kernel; hand model tied by correspondence; os.urandom rebound in bromelia.base; the class-level lock replaced by the scheduler's lock; atomicity below a source line (GIL) not modelled; registry growth without bound is outside the property.",
        technique="Lean 4 proof (inductive invariant over all interleavings and random streams) + schedule-enumerating differential correspondence",
        design="4 C15"),
    "C14": dict(
        text="Lean: transition system of the rendezvous at the granularity of single synchronisation operations (caller: register, queue, wait, clear, release, return; dispatch thread per arriving answer: check, get, update, set, wait, pop), any number of callers keyed by distinct Hop-by-Hop identifiers, any number of answers per identifier (duplicates) and stray answers, every interleaving; theorems by induction over all schedules: a caller that returns is given an answer that arrived for its identifier (never its own request, never another record's), the registry holds a caller's entry from registration until the caller has released the dispatcher, so no answer is dropped before that; a caller whose answer has been dispatched is enabled or past the wait; in every reachable state where nothing can move and an answer has arrived the caller has returned with an answer and every dispatch thread has finished (no lost wake-up, no deadlock); a result is final. Tie: real send_message / handler_pending_answers / PendingAnswer / Worker registry methods under the simulation scheduler (depth-first schedule enumeration for 1-2 callers, random and priority schedules with line-level hand-over for 1..4 callers, duplicates and strays); return values compared by object identity; the log of registry and event operations replayed on the model.",
        note="Trusted: Lean kernel; hand model tied by trace replay; in-process worker (the multiprocessing boundary is not exercised); simulation scheduler; rate-limiting barriers time out immediately; distinctness of Hop-by-Hop identifiers is C15.",
        technique="Lean 4 proof (inductive invariant over all interleavings, deadlock-freedom by case analysis of quiescent states) + schedule-enumerating trace validation",
        design="4 C14"),
    "C05": dict(
        text="Lean: model of the outbound pipeline (send queue -> batch bounded by the send-buffer limit -> pending hand-over buffer -> send buffer -> socket) with actions submit (any thread) / flush (any limit) / transfer / write n (any partial length) / read event / disconnect; theorems for EVERY action sequence: conservation (written ++ send buffer ++ pending ++ queued encodings = concatenation of the accepted messages in acceptance order), hence the socket bytes are always a prefix of that concatenation (nothing duplicated, torn or interleaved) and equal it once the stages are empty (nothing lost); the accepted list is the list of submissions, so each submitter's messages keep their order; a batch is a prefix of the queue and the head message is always taken. Tie: the real client node under the simulation scheduler (library threads + 1..3 submitting threads, partial socket writes, inbound traffic, lowered batch limit, line-level hand-over in 30% of the runs); socket bytes cut at message boundaries and matched with the accepted messages; the operations on queue / hand-over buffer / socket replayed on the model.",
        note="Trusted: Lean kernel; hand model tied by log replay; scripted FakeSock + substituted selector/threading/queue/time; message bytes abstracted to (number, length) in the driver; runs cut short by the scheduler budget are counted as inconclusive; SCTP variants and real sockets are not exercised; BlockingIOError on send marks the transport stopped (C08).",
        technique="Lean 4 proof (conservation invariant over all action sequences) + scheduler-driven differential correspondence on the real threads",
        design="4 C05"),
    "C04": dict(
        text="Lean: framing theorem — for every sequence of well-formed messages and EVERY prefix of their concatenated encoding (wherever the network or the reader cut it, including inside headers), the split of the receive worker yields exactly the messages complete in that prefix, in order, and keeps the bytes of the partial one; model of the inbound pipeline (network chunks of any size, transport buffer, reassembly carry, receive queue, state-machine tick, delivery queue, consumer) and theorems for EVERY segmentation and EVERY interleaving of the four actors: what the application has received is an initial segment of the application messages sent and what the state machine has consumed an initial segment of the base messages sent (each once, complete, in order); when the network has delivered everything one more worker iteration leaves no byte behind and every message has been parsed; with the queues emptied the application has exactly the application messages sent. Tie: the real client node under the simulation scheduler with scripted segmentations (one byte at a time, around header size, mixed, several messages per read), received messages compared byte for byte, buffer operations replayed on the model; the state-machine/consumer hand-off additionally enumerated depth-first over all schedules for 1..3 messages.",
        note="Trusted: Lean kernel; hand model tied by log replay; scripted FakeSock and substituted selector/threading/queue/time; a message is a byte string in the model (decode of a complete message: C02); garbage with a length field below 20 is handed to the parser and discarded with the batch (C03); a length field larger than what ever arrives waits for ever (inherent to the framing).",
        technique="Lean 4 proof (framing lemma by induction on the message list; pipeline invariant over all action sequences) + scheduler-driven differential correspondence on the real threads",
        design="4 C04"),
}

NOT_YET = {
}


def main():
    checks = []
    for pid, c in sorted(CLAIMED.items()):
        checks.append({
            "property_id": pid,
            "quick_cmd": "./check %s --tier quick" % pid,
            "thorough_cmd": "./check %s --tier thorough" % pid,
            "evidence_file": "evidence/%s.json" % pid,
            "replay_cmd_template": "./check %s --replay {path}" % pid,
            "engine": "lean4-proof+correspondence",
            "level_claimed": {"category": "proof", "text": c["text"], "design_ref": c["design"]},
            "level_note": c["note"],
            "technique": c["technique"],
        })
    props = [json.loads(l)["id"] for l in open(os.path.join(VERIF, "properties.jsonl"))]
    na = [{"property_id": p, "reason": NOT_YET.get(p, "check not built yet in this round (planned as Lean proof + correspondence, see DESIGN.md section 4); not claimed until its check passes on the current tree")}
          for p in props if p not in CLAIMED]
    m = {
        "version": 1,
        "setup_cmd": "./setup.sh",
        "hooks": {"guard": "BROMELIA_VERIF", "enable": "no hooks in /repo: the harness substitutes module attributes from outside; checks export BROMELIA_VERIF=1 for uniformity",
                  "baseline_off_cmd": "cd /repo && env -u BROMELIA_VERIF /venv/bin/python -m pytest -ra -q -p no:cacheprovider --timeout=900 --continue-on-collection-errors",
                  "source_commits": [], "add_only": True},
        "engines": [{"name": "lean4-proof+correspondence", "path": "lean/ + harness/",
                     "serves_properties": sorted(CLAIMED),
                     "kind_free_text": "Lean 4 models/specs/theorems (lake project in lean/), translators regenerating Gen/*.lean from /repo, native line-protocol driver compared against the real code in-process by harness/props/*.py"}],
        "checks": checks,
        "not_applicable": na,
        "notes": "See DESIGN.md. known_findings.json lists fixed and known findings.",
    }
    with open(os.path.join(VERIF, "MANIFEST.json"), "w") as f:
        json.dump(m, f, indent=1)


if __name__ == "__main__":
    main()
