# -*- coding: utf-8 -*-
"""Regenerates lean/BromeliaVerif/Gen/Commands.lean from the working tree (tie (a), DESIGN.md 3.2a): one row
per typed command class (DiameterRequest / DiameterAnswer subclasses under bromelia.lib.*.messages):
constructor parameters in order, which of them default to None, mandatory / optionals tables (key -> AVP
class), command code and Application-ID read off the ast of __init__, plus the vendored reference snapshot."""
import ast
import importlib
import inspect
import json
import os
import pkgutil
import textwrap

from core import LEAN, VERIF, write_if_changed
from gen_dict import nkey, lstr, lopt


def classes():
    import bromelia.lib
    from bromelia.base import DiameterRequest, DiameterAnswer
    out = []
    for mi in sorted(pkgutil.iter_modules(bromelia.lib.__path__), key=lambda m: m.name):
        try:
            m = importlib.import_module("bromelia.lib.%s.messages" % mi.name)
        except ImportError:
            continue
        for name, c in sorted(vars(m).items()):
            if inspect.isclass(c) and issubclass(c, (DiameterRequest, DiameterAnswer)) and c.__module__ == m.__name__:
                out.append((mi.name, name, c, m))
    return out


def as_int(v):
    if v is None:
        return None
    if isinstance(v, int):
        return v
    return int.from_bytes(v, "big")


def row_of(mod, name, cls, m):
    from bromelia.base import DiameterRequest
    r = {"name": "%s.%s" % (mod, name), "module": mod, "cls": name, "is_request": issubclass(cls, DiameterRequest),
         "modelled": True, "cmd": 0, "app": None, "app_param": None, "needs_app_param": False}
    sig = inspect.signature(cls.__init__)
    params, default_none, defaults = [], [], {}
    for p in list(sig.parameters.values())[1:]:
        if p.kind == p.VAR_KEYWORD:
            continue
        if p.kind != p.POSITIONAL_OR_KEYWORD:
            r["modelled"] = False
            continue
        params.append(p.name)
        defaults[p.name] = p.default
        if p.default is None:
            default_none.append(p.name)
    r["params"], r["default_none"], r["defaults"] = params, default_none, defaults
    try:
        r["mandatory"] = [(k, v.__name__) for k, v in cls.mandatory.items()]
        r["optionals"] = [(k, v.__name__) for k, v in cls.optionals.items()]
    except Exception:
        r["mandatory"], r["optionals"], r["modelled"] = [], [], False
    try:
        tree = ast.parse(textwrap.dedent(inspect.getsource(cls.__init__))).body[0]
    except (OSError, TypeError, SyntaxError):
        r["modelled"] = False
        return r
    seen_init = seen_load = False
    for st in tree.body:
        if isinstance(st, ast.Expr) and isinstance(st.value, ast.Constant):
            continue
        if isinstance(st, ast.If) and not st.orelse and len(st.body) == 1 and isinstance(st.body[0], ast.Raise) \
                and isinstance(st.test, ast.UnaryOp) and isinstance(st.test.op, ast.Not) and isinstance(st.test.operand, ast.Name):
            r["needs_app_param"] = st.test.operand.id
            continue
        if isinstance(st, ast.Expr) and isinstance(st.value, ast.Call) and isinstance(st.value.func, ast.Attribute):
            call = st.value
            if call.func.attr == "__init__" and not seen_init:
                seen_init = True
                kw = {k.arg: k.value for k in call.keywords}
                if set(kw) != {"command_code", "application_id"}:
                    r["modelled"] = False
                    continue
                try:
                    r["cmd"] = as_int(eval(compile(ast.Expression(kw["command_code"]), "<cmd>", "eval"), vars(m)))
                    a = kw["application_id"]
                    if isinstance(a, ast.Name) and a.id in params:
                        r["app_param"] = a.id
                    else:
                        r["app"] = as_int(eval(compile(ast.Expression(a), "<app>", "eval"), vars(m)))
                except Exception:
                    r["modelled"] = False
                continue
            if call.func.attr == "_load" and seen_init and not seen_load:
                seen_load = True
                continue
        r["modelled"] = False
    if not (seen_init and seen_load):
        r["modelled"] = False
    if r["needs_app_param"] and r["needs_app_param"] != r["app_param"]:
        r["modelled"] = False
    return r


def rows():
    out = [row_of(*c) for c in classes()]
    # request / answer partner: same module, same stem
    idx = {(r["module"], r["cls"]): i for i, r in enumerate(out)}
    for r in out:
        stem = r["cls"][:-7] if r["cls"].endswith("Request") else r["cls"][:-6] if r["cls"].endswith("Answer") else None
        partner = None
        if stem is not None:
            other = stem + ("Answer" if r["cls"].endswith("Request") else "Request")
            partner = idx.get((r["module"], other))
        r["partner"] = partner
    return out


def reference():
    with open(os.path.join(VERIF, "reference", "commands.json")) as f:
        return json.load(f)


def lstrs(xs):
    return "[" + ", ".join(lstr(x) for x in xs) + "]"


def lpairs(ps):
    return "[" + ", ".join("(%s, %d)" % (lstr(k), nkey(v)) for k, v in ps) + "]"


def emit(rs, ref):
    o = ["/- GENERATED by harness/gen_commands.py from /repo's working tree on every check. Do not edit. -/",
         "import BromeliaVerif.Model.CommandTypes", "namespace BV.Gen", "open BV.Command", "",
         "/-- one row per typed command class; AVP classes are named by `Entry.nameKey` -/",
         "def commands : List Row := ["]
    for i, r in enumerate(rs):
        o.append("  { name := %s, nameKey := %d, modelled := %s, isRequest := %s, cmd := %d, app := %s, appParam := %s, needsAppParam := %s,"
                 % (lstr(r["name"]), nkey(r["name"]), "true" if r["modelled"] else "false", "true" if r["is_request"] else "false",
                    r["cmd"], lopt(r["app"]), "none" if not r["app_param"] else "(some %s)" % lstr(r["app_param"]),
                    "true" if r["needs_app_param"] else "false"))
        o.append("    params := %s, defaultNone := %s," % (lstrs(r["params"]), lstrs(r["default_none"])))
        o.append("    mandatory := %s, optionals := %s, partner := %s }%s" % (
            lpairs(r["mandatory"]), lpairs(r["optionals"]), lopt(r["partner"]), "," if i + 1 < len(rs) else ""))
    o += ["]", "", "/-- vendored reference snapshot reference/commands.json -/", "def commandsRef : List RefRow := ["]
    for i, r in enumerate(ref):
        o.append("  { nameKey := %d, isRequest := %s, cmd := %d, app := %s, appParam := %s, mandatoryKeys := %s," % (
            nkey(r["name"]), "true" if r["is_request"] else "false", r["cmd"], lopt(r["app"]),
            "none" if not r["app_param"] else "(some %s)" % lstr(r["app_param"]), lstrs(sorted(r["mandatory_keys"]))))
        o.append("    keyAvps := [%s] }%s" % (", ".join("(%s, %d, %d)" % (lstr(k), v or 0, c) for k, v, c in r.get("key_avps", [])),
                                              "," if i + 1 < len(ref) else ""))
    o += ["]", "", "end BV.Gen", ""]
    return "\n".join(o)


def generate():
    rs = rows()
    changed = write_if_changed(os.path.join(LEAN, "BromeliaVerif", "Gen", "Commands.lean"), emit(rs, reference()))
    return changed, rs


if __name__ == "__main__":
    import sys
    if len(sys.argv) > 1 and sys.argv[1] == "--make-reference":
        rs = rows()
        # key -> (vendor, code) of the AVP it carries, resolved through the reviewed dictionary snapshot by the naming
        # convention key "pua_flags" <-> class "PuaFlagsAVP" (reference/README.md lists the one exception)
        dref = {d["name"].lower(): d for d in json.load(open(os.path.join(VERIF, "reference", "dictionary.json")))}
        camel = lambda k: ("".join(k.split("_")) + "avp").lower()
        ref = []
        for r in rs:
            ka = []
            for k, _cls in r["mandatory"] + r["optionals"]:
                d = dref.get(camel(k)) or dref[camel(k[:-4])]
                ka.append([k, d["vendor"], d["code"]])
            ref.append({"name": r["name"], "is_request": r["is_request"], "cmd": r["cmd"], "app": r["app"], "app_param": r["app_param"],
                        "mandatory_keys": sorted(k for k, _ in r["mandatory"]), "key_avps": ka})
        json.dump(ref, open(os.path.join(VERIF, "reference", "commands.json"), "w"), indent=0)
        print("wrote", len(ref))
    else:
        ch, rs = generate()
        print(ch, len(rs), [r["name"] for r in rs if not r["modelled"]])
