# -*- coding: utf-8 -*-
"""Interleaving independence of code the properties treat as a function of its arguments (DESIGN.md 0.13).

Several properties quantify over values only (result-code predicates, TBCD, decoding, bit accessors, route dispatch), but a
library is called from several threads at once (one receive worker per connection, one dispatcher thread per request). A
change that makes such code keep state between calls (a memo, a lazily built table, a recycled registry, a 'current request'
attribute) keeps every sequential check green. This helper runs the calls of 2..3 threads under the simulation scheduler
(harness/sim.py: one thread at a time, hand-over before every source line of the named files) and compares every result with
the result of the same call made alone (sequential oracle). Module state is reset by `fresh()` before the oracle and before
every schedule, so first-use races are reachable."""
import random

import sim as simlib


def run_schedule(threads, files, seed, chooser=None, funcs=None, max_steps=60000):
    """threads: list of lists of zero-argument callables. Returns (status, results per thread, exceptions, schedule)"""
    s = simlib.Sim(seed=seed, trace_files=tuple(files), trace_funcs=funcs, max_steps=max_steps, timeout_prob=0)
    s.keep_log = False
    s.spin_timeout = 8.0
    results = [[None] * len(t) for t in threads]

    def worker(i, calls):
        def f():
            for j, c in enumerate(calls):
                try:
                    results[i][j] = ("ok", c())
                except BaseException as e:
                    if isinstance(e, (KeyboardInterrupt, SystemExit, simlib.SimExit)):
                        raise
                    results[i][j] = ("exc", type(e).__name__)
        return f
    try:
        for i, calls in enumerate(threads):
            s.spawn(worker(i, calls), "T%d" % i)
        status = s.run(chooser=chooser)
    finally:
        s.kill()
    return status, results, list(s.choices)


def explore(chk, what, make_threads, fresh, files, rng, n_schedules, funcs=None, describe=None):
    """make_threads(rng) -> (threads, description); fresh() resets module state. Registers cases and violations on chk."""
    for k in range(n_schedules):
        if chk.saturated():
            break
        threads, desc = make_threads(rng)
        fresh()
        oracle = []
        for calls in threads:
            row = []
            for c in calls:
                fresh()
                try:
                    row.append(("ok", c()))
                except BaseException as e:
                    if isinstance(e, (KeyboardInterrupt, SystemExit)):
                        raise
                    row.append(("exc", type(e).__name__))
            oracle.append(row)
        fresh()
        seed = rng.randrange(2 ** 30)
        how = rng.choice(["random", "pct", "pct"])
        chooser = simlib.pct_chooser(random.Random(seed), rng.choice([1, 2, 3]), 200) if how == "pct" else None
        status, results, schedule = run_schedule(threads, files, seed, chooser, funcs)
        inp = {"op": "concurrent-calls", "what": what, "calls": desc, "how": how, "seed": seed, "schedule_len": len(schedule)}
        chk.case(dict(inp, schedule=schedule[:400]), kind="threads:%s" % what)
        if status not in ("finished",):
            chk.violation("%s: concurrent calls did not finish under the scheduler (%s)" % (what, status), inp, "finished", status)
            continue
        if results != oracle:
            bad = [(i, j) for i, row in enumerate(oracle) for j, v in enumerate(row) if results[i][j] != v]
            i, j = bad[0]
            chk.violation("%s: the result of a call depends on what another thread is doing (thread %d, call %d)" % (what, i, j),
                          dict(inp, schedule=schedule[:2000]), {"alone": str(oracle[i][j])[:300]}, {"interleaved": str(results[i][j])[:300]})
    fresh()
