# -*- coding: utf-8 -*-
"""Type-directed generators over the repo's own AVP dictionary: Python values per data-type kind,
content trees (dictionary leaves, Grouped AVPs with members from the class's own tables, generic AVPs),
each together with the descriptor tokens understood by the Lean driver (lean/BromeliaVerif/Drv/Codec.lean).

Every random choice comes from the rng passed in (one PRNG per run)."""
import datetime
import ipaddress

import bromdict
import gen_dict

STRINGS = ["", "a", "ab", "abc", "abcd", "host.example.com", "realm", "épc.mnc001", "日本", "x" * 17, "€5", "A-b_c.d",
           # text that is not in Unicode normal form, compatibility characters, mixed case, surrounding blanks: carried as given
           "Jose\u0301", "\u212b", "\u1100\u1161", "\ufb01x", "MiXeD.Example.COM", " padded ", "tab\there", "\u00e9\u0301"]
U32 = [0, 1, 2, 255, 256, 65535, 65536, 2 ** 24 - 1, 2 ** 24, 2 ** 31 - 1, 2 ** 31, 2 ** 32 - 2, 2 ** 32 - 1, 10415, 16777251]
U64 = [0, 1, 2 ** 32 - 1, 2 ** 32, 2 ** 53, 2 ** 63 - 1, 2 ** 63, 2 ** 64 - 1]
V4 = ["0.0.0.0", "10.129.241.235", "127.0.0.1", "255.255.255.255", "192.168.0.1", "1.2.3.4"]
V6 = ["::", "::1", "2001:db8::1", "fe80::1:2:3:4", "ffff:ffff:ffff:ffff:ffff:ffff:ffff:ffff", "1:2:3:4:5:6:7:8"]


class Failed:
    """stands for an object whose construction through the public API raised"""
    def __init__(self, exc):
        import bromelia.exceptions as X
        self.err = "err:" + ("lib:" + type(exc).__name__ if type(exc).__module__ == X.__name__ else "std")

    def dump(self):
        raise FailedDump(self.err)

    __bytes__ = dump


class FailedDump(Exception):
    pass


def construct(f):
    try:
        return f()
    except BaseException as e:
        if isinstance(e, (KeyboardInterrupt, SystemExit)):
            raise
        return Failed(e)


class Gen:
    def __init__(self, rng):
        self.rng = rng
        self.rows = {r["name"]: r for r in gen_dict.rows()}
        self.classes = {c.__name__: c for c in bromdict.all_classes()}
        self.names = sorted(self.rows)
        self.leaf_names = [n for n in self.names if self.rows[n]["kind"] not in ("Grouped", "unmodelled")]
        self.grouped_names = [n for n in self.names if self.rows[n]["kind"] == "Grouped"]
        self.hits = {}
        self.build = True          # construct the Python objects (False: descriptors only, for wire images)
        self.oplogs = {}
        self.flag_mode = "mp"      # "mp": M/P overrides; "all": any flag byte consistent with the V bit
        self.override = 0.2
        self.mutate_grouped = False          # apply container operations to built Grouped AVPs (C01)
        self.big = 0.002                    # probability of an AVP whose length crosses the 2^16 boundary
        self.generic_unknown_only = False   # generic AVPs only with codes no dictionary class uses

    # ---------------------------------------------------------------- values
    def rbytes(self, n):
        if n > 4096:
            return self.rng.randbytes(n)
        return bytes(self.rng.randrange(256) for _ in range(n))

    def big_len(self):
        """data lengths that put the AVP Length field on either side of 2^16 (and well beyond)"""
        return self.rng.choice([65519, 65520, 65521, 65523, 65524, 65525, 65527, 65528, 65529, 65533, 65536, 65537, 70001, 131073])

    def rstr(self):
        r = self.rng
        if r.random() < 0.5:
            return r.choice(STRINGS)
        n = r.choice([0, 1, 2, 3, 4, 5, 7, 8, 9, 16, 31])
        return "".join(r.choice("abcdefghijklmnopqrstuvwxyz0123456789.-") for _ in range(n))

    def value(self, row):
        """in-domain (python value, descriptor value tokens) for a dictionary class row"""
        r, k = self.rng, row["kind"]
        if k in ("OctetString", "UTF8String", "DiameterIdentity"):
            if r.random() < self.big:
                b = self.rbytes(self.big_len())
                return b, ["B", b.hex()]
            if r.random() < 0.5:
                s = self.rstr()
                return s, ["S", ",".join(str(ord(c)) for c in s) or "-"]
            b = self.rbytes(r.choice([0, 1, 2, 3, 4, 5, 6, 7, 8, 12, 13, 33]))
            return b, ["B", b.hex() or "-"]
        if k in ("sessionId", "eapPayload"):
            b = (self.rstr() + ";1;2").encode() if k == "sessionId" else self.rbytes(r.choice([0, 1, 4, 5, 6, 23]))
            return b, ["B", b.hex() or "-"]
        if k == "tbcd":
            if r.random() < 0.7:
                n = r.choice([0, 5, 12, 123, 5521993082672, r.randrange(10 ** r.randrange(1, 16))])
                return n, ["I", str(n)]
            b = self.rbytes(r.choice([1, 5, 6, 7, 8]))
            return b, ["B", b.hex()]
        if k == "DiameterURI":
            host = r.choice(["host.example.com", "h1.realm.org", "abc", "a-b_c.d", "x" * 64, "épc.mnc1.org", "9a.b", "a.9"])
            u = r.choice(["aaa://", "aaas://"]) + host + r.choice(["", ":3868", ":1", ":49151", ":80"]) + \
                r.choice(["", ";transport=tcp", ";transport=sctp", ";transport=udp"]) + r.choice(["", ";protocol=diameter", ";protocol=radius"])
            if r.random() < 0.5:
                return u, ["S", ",".join(str(ord(c)) for c in u)]
            return u.encode(), ["B", u.encode().hex()]
        if k == "Integer32":
            b = self.rbytes(4)
            return b, ["B", b.hex()]
        if k == "Unsigned32":
            if r.random() < 0.75:
                n = r.choice(U32 + [r.randrange(2 ** 32)])
                return n, ["I", str(n)]
            b = self.rbytes(4)
            return b, ["B", b.hex()]
        if k == "Unsigned64":
            if r.random() < 0.75:
                n = r.choice(U64 + [r.randrange(2 ** 64)])
                return n, ["I", str(n)]
            b = self.rbytes(8)
            return b, ["B", b.hex()]
        if k == "Enumerated":
            v = r.choice(row["values"])
            b = v.to_bytes(4, "big")
            return b, ["B", b.hex()]
        if k == "Address":
            c = r.random()
            if c < 0.4:
                lit = r.choice(V4 + [".".join(str(r.randrange(256)) for _ in range(4))])
                return lit, ["IP", "4", ipaddress.IPv4Address(lit).packed.hex()]
            if c < 0.7:
                lit = r.choice(V6 + [":".join("%x" % r.choice([0, 0, 1, 65535, r.randrange(65536)]) for _ in range(8))])
                return lit, ["IP", "6", ipaddress.IPv6Address(lit).packed.hex()]
            if c < 0.85:
                b = b"\x00\x01" + self.rbytes(4)
            else:
                b = b"\x00\x02" + self.rbytes(16)
            return b, ["B", b.hex()]
        if k == "framedIp":
            lit = r.choice(V4 + [".".join(str(r.randrange(256)) for _ in range(4))])
            return lit, ["IP", "4", ipaddress.IPv4Address(lit).packed.hex()]
        if k == "Time":
            if r.random() < 0.7:
                y = r.choice([1900, 1970, 1999, 2000, 2021, 2035, r.randrange(1900, 2036)])
                m, d = r.randrange(1, 13), r.randrange(1, 29)
                t = (y, m, d, r.randrange(24), r.randrange(60), r.randrange(60))
                return datetime.datetime(*t, microsecond=r.choice([0, 999999])), ["T"] + [str(x) for x in t]
            b = self.rbytes(4)
            return b, ["B", b.hex()]
        raise KeyError(k)

    def m_p_flags(self, base):
        """a flag byte with the same V bit and arbitrary M/P (reserved bits clear unless flag_mode == 'all')"""
        if self.flag_mode == "all":
            return (base & 0x80) | self.rng.choice([0x00, 0x20, 0x40, 0x60, 0x7f, 0x01, 0x10, self.rng.randrange(128)])
        return (base & 0x80) | self.rng.choice([0x00, 0x20, 0x40, 0x60])

    # ---------------------------------------------------------------- trees
    def leaf(self, name=None):
        name = name or self.rng.choice(self.leaf_names)
        row = self.rows[name]
        val, toks = self.value(row)
        obj = construct(lambda: self.classes[name](val)) if self.build else None
        fl = "-"
        if self.rng.random() < self.override and not isinstance(obj, Failed):
            f = self.m_p_flags(row["flags"])
            if obj is not None:
                obj.flags = f
            fl = str(f)
        self.hit(name, row["kind"])
        return obj, ["D", name, fl] + toks

    def generic(self, unknown_only=False):
        r = self.rng
        vendor = None if r.random() < 0.5 else r.choice([0, 1, 10415, 13019, 2 ** 32 - 1, r.randrange(2 ** 32)])
        code = r.choice([0, 1, 263, 264, 999999, 2 ** 32 - 1, r.randrange(2 ** 32)])
        if unknown_only or self.generic_unknown_only:
            code = r.choice([0, 999999, 2 ** 32 - 1, 77777])
        elif r.random() < 0.2:
            # the code of a dictionary class under ANOTHER vendor (or none): an unknown pair that shares its code with a known one
            row = self.rows[r.choice(self.leaf_names + self.grouped_names)]
            code = row["code"]
            known = {(x["vendor"], x["code"]) for x in self.rows.values()}
            others = [v for v in (None, 10415, 13019, 5535, 1, 4491) if (v, code) not in known]
            vendor = r.choice(others)
        flags = (0x80 if vendor is not None else 0) | r.choice([0, 0x20, 0x40, 0x60, 0x1f & r.randrange(256)])
        n = r.choice([0, 1, 2, 3, 4, 5, 6, 7, 8, 9, 15, 16, 17, 40])
        if r.random() < self.big:
            n = self.big_len()
        data = self.rbytes(n)
        # the generic constructor's conversions: b"" / None stay, other bytes as is
        if self.flag_mode == "all":
            flags = (0x80 if vendor is not None else 0) | r.randrange(128)
        from bromelia.base import DiameterAVP
        obj = DiameterAVP(code=code, vendor_id=vendor, flags=flags, data=(data if data or r.random() < 0.5 else None)) if self.build else None
        self.hit("generic", "generic")
        return obj, ["X", str(code), str(flags), "-" if vendor is None else str(vendor), data.hex() or "-"]

    def grouped(self, depth, name=None):
        r = self.rng
        name = name or r.choice(self.grouped_names)
        row = self.rows[name]
        cls = self.classes[name]
        members = list(cls.mandatory.values())
        opts = list(cls.optionals.values())
        r.shuffle(opts)
        if depth > 0:
            members += opts[: r.choice([0, 0, 1, 2, 3])]
            if r.random() < 0.3 and opts:
                members.append(r.choice(opts))     # a repeated member
        r.shuffle(members)
        pairs = []                                   # (member object, its descriptor tokens)
        for m in members:
            pairs.append(self.tree(depth - 1, m.__name__))
        if depth > 0 and r.random() < 0.25:
            pairs.append(self.generic())
        kids = [p[0] for p in pairs]
        bad = [k for k in kids if isinstance(k, Failed)]
        obj = (bad[0] if bad else construct(lambda: cls(kids))) if self.build else None
        # container operations on the Grouped AVP itself (public API): pop / append / extend / avps setter
        oplog = []
        if self.build and self.mutate_grouped and obj is not None and not isinstance(obj, Failed) and r.random() < 0.3:
            for _ in range(r.choice([1, 2, 3])):
                op = r.choice(["pop", "pop", "append", "extend", "setavps"])
                mand_codes = {m.code for m in cls.mandatory.values()}
                keys = [k for k, v in obj.__dict__.items() if "_avp" in k and k != "_avps" and v.code not in mand_codes]
                if op == "pop" and keys:
                    key = r.choice(keys)
                    target = obj.__dict__[key]
                    obj.pop(key)
                    oplog.append("pop %s (position %d of %d)" % (key, [i for i, p in enumerate(pairs) if p[0] is target][0], len(pairs)))
                    pairs = [p for p in pairs if p[0] is not target]
                    self.hit("grouped-op:pop", "grouped-op")
                elif op in ("append", "extend"):
                    extra = [self.tree(max(depth - 1, 0), r.choice(members).__name__) if members and r.random() < 0.7 else self.generic()
                             for _ in range(1 if op == "append" else 2)]
                    if any(isinstance(e[0], Failed) for e in extra):
                        continue
                    if op == "append":
                        obj.append(extra[0][0])
                    else:
                        obj.extend([e[0] for e in extra])
                    pairs += extra
                    oplog.append("%s %d" % (op, len(extra)))
                    self.hit("grouped-op:" + op, "grouped-op")
                elif op == "setavps" and pairs:
                    r.shuffle(pairs)
                    obj.avps = [p[0] for p in pairs]
                    oplog.append("setavps %d" % len(pairs))
                    self.hit("grouped-op:setavps", "grouped-op")
        kids = [p[0] for p in pairs]
        ktoks = [t for p in pairs for t in p[1]]
        fl = "-"
        if r.random() < self.override and not isinstance(obj, Failed):
            f = self.m_p_flags(row["flags"])
            if obj is not None:
                obj.flags = f
            fl = str(f)
        self.hit(name, "Grouped")
        if oplog and obj is not None and not isinstance(obj, Failed):
            self.oplogs[id(obj)] = (obj, oplog)          # keeps the object alive: ids are not reused
        return obj, ["G", name, fl, str(len(kids))] + ktoks

    def tree(self, depth, name=None):
        """a content tree rooted at class `name` (or a random root)"""
        r = self.rng
        if name is not None:
            k = self.rows[name]["kind"]
            if k == "Grouped":
                if depth <= 0:
                    # bottom out: only mandatory members, leaves where possible
                    return self.grouped(0, name)
                return self.grouped(depth, name)
            if k == "unmodelled":
                raise KeyError("class %s has a constructor shape the translator does not model" % name)
            return self.leaf(name)
        c = r.random()
        if c < 0.25:
            return self.generic()
        if c < 0.45 and depth > 0:
            return self.grouped(depth)
        return self.leaf()

    def uri(self, name):
        r = self.rng
        s = r.choice(["aaa://host.example.com", "aaas://host.example.com:3868;transport=tcp",
                      "aaa://h1.realm.org;transport=sctp;protocol=diameter", "aaa://abc"])
        obj = self.classes[name](s) if self.build else None
        self.hit(name, "DiameterURI")
        # the driver has no URI model: described as the generic content it must serialise to
        row = self.rows[name]
        return obj, ["X", str(row["code"]), str(row["flags"]), "-" if row["vendor"] is None else str(row["vendor"]), s.encode().hex()]

    def hit(self, name, kind):
        self.hits[name] = self.hits.get(name, 0) + 1
        self.hits["kind:" + kind] = self.hits.get("kind:" + kind, 0) + 1
