# -*- coding: utf-8 -*-
"""Per-case watchdog for calls into the decoders: a loop-iteration counter on the `while` loops of
DiameterAVP.load / DiameterMessage.load (line events) plus a wall-clock alarm. A case that exhausts either is a
case on which the implementation differs from the (total) model, not a harness time-out."""
import inspect
import signal
import sys


class Hang(BaseException):
    pass


def _alarm(signum, frame):
    raise Hang()


class LoopCounter:
    def __init__(self):
        from bromelia.base import DiameterAVP, DiameterMessage
        self.codes = {}
        for fn in (DiameterAVP.load, DiameterMessage.load):
            try:
                src, first = inspect.getsourcelines(fn)
            except (OSError, TypeError):
                continue
            self.codes[fn.__code__] = {first + i for i, l in enumerate(src) if l.strip().startswith("while ")}
        self.n = 0
        self.limit = 0

    def local(self, frame, event, arg):
        if event == "line" and frame.f_lineno in self.codes[frame.f_code]:
            self.n += 1
            if self.n > self.limit:
                raise Hang()
        return self.local

    def glob(self, frame, event, arg):
        if frame.f_code in self.codes:
            return self.local
        return None


_counter = None


def guarded_load(fn, data, seconds=3.0):
    """runs fn(data) under the watchdog; returns ("ok", result) | ("hang", iterations) | ("exc", exception)"""
    global _counter
    if _counter is None:
        _counter = LoopCounter()
    c = _counter
    c.n, c.limit = 0, len(data) + 64
    old = signal.signal(signal.SIGALRM, _alarm)
    signal.setitimer(signal.ITIMER_REAL, seconds)
    sys.settrace(c.glob)
    try:
        try:
            res = fn(data)
        finally:
            sys.settrace(None)
            signal.setitimer(signal.ITIMER_REAL, 0)
            signal.signal(signal.SIGALRM, old)
        return "ok", res, c.n
    except Hang:
        return "hang", None, c.n
    except BaseException as e:
        if isinstance(e, (KeyboardInterrupt, SystemExit)):
            raise
        return "exc", e, c.n
