# -*- coding: utf-8 -*-
"""Shared machinery of the checks: Lean build + axiom audit, native model driver,
case bookkeeping, verdict rule (DESIGN.md 3.5), known findings, evidence, replay files.

Runs under /venv/bin/python with PYTHONPATH=/repo (the checks import the real bromelia
in-process)."""
import fcntl
import hashlib
import json
import os
import re
import subprocess
import sys
import time

VERIF = os.path.dirname(os.path.dirname(os.path.abspath(__file__)))
REPO = os.environ.get("VERIF_REPO", "/repo")
LEAN = os.path.join(VERIF, "lean")
WORK = os.path.join(VERIF, ".work")
REPLAYS = os.path.join(VERIF, "replays")
EVIDENCE = os.path.join(VERIF, "evidence")
STD_AXIOMS = {"propext", "Classical.choice", "Quot.sound"}
FORBIDDEN = re.compile(r"\b(sorry|admit|native_decide|bv_decide|implemented_by)\b|^\s*axiom\s|unsafe\s|maxHeartbeats\s+0")

for d in (WORK, REPLAYS, EVIDENCE):
    os.makedirs(d, exist_ok=True)


def log(*a):
    print(*a, file=sys.stderr, flush=True)


class HarnessError(Exception):
    """failure of the machinery itself -> exit 2, never a VIOLATION line"""


# --------------------------------------------------------------------------- Lean side

class LeanLock:
    def __enter__(self):
        self.f = open(os.path.join(WORK, "lean.lock"), "w")
        fcntl.flock(self.f, fcntl.LOCK_EX)
        return self

    def __exit__(self, *a):
        fcntl.flock(self.f, fcntl.LOCK_UN)
        self.f.close()


def write_if_changed(path, text):
    try:
        with open(path) as f:
            if f.read() == text:
                return False
    except FileNotFoundError:
        pass
    os.makedirs(os.path.dirname(path), exist_ok=True)
    with open(path, "w") as f:
        f.write(text)
    return True


def lake(args, timeout=1800):
    env = dict(os.environ)
    p = subprocess.run(["lake"] + args, cwd=LEAN, stdout=subprocess.PIPE, stderr=subprocess.STDOUT,
                       text=True, timeout=timeout, env=env)
    return p.returncode, p.stdout


def strip_comments(src):
    src = re.sub(r"/-.*?-/", "", src, flags=re.S)
    return "\n".join(l.split("--")[0] for l in src.splitlines())


def theorem_names(module):
    """names of the theorems stated in a Properties module (fully qualified)"""
    path = os.path.join(LEAN, *module.split(".")) + ".lean"
    src = strip_comments(open(path).read())
    names, ns = [], []
    for line in src.splitlines():
        m = re.match(r"\s*namespace\s+(\S+)", line)
        if m:
            ns.append(m.group(1))
            continue
        m = re.match(r"\s*end\s+(\S+)", line)
        if m and ns and ns[-1] == m.group(1):
            ns.pop()
            continue
        m = re.match(r"\s*(?:@\[[^\]]*\]\s*)?(?:private\s+|protected\s+)?theorem\s+(\S+)", line)
        if m:
            names.append(".".join(ns + [m.group(1)]))
    return names


def forbidden_hits(files):
    hits = []
    for path in files:
        src = strip_comments(open(path).read())
        for i, line in enumerate(src.splitlines(), 1):
            if FORBIDDEN.search(line):
                hits.append("%s:%d: %s" % (os.path.relpath(path, VERIF), i, line.strip()))
    return hits


def lean_files():
    out = []
    for root, _, fs in os.walk(os.path.join(LEAN, "BromeliaVerif")):
        out += [os.path.join(root, f) for f in fs if f.endswith(".lean")]
    out += [os.path.join(LEAN, "Driver", f) for f in os.listdir(os.path.join(LEAN, "Driver")) if f.endswith(".lean")]
    return sorted(out)


class LeanResult:
    def __init__(self):
        self.obligations = []      # theorem names
        self.discharged = []       # those that compiled with standard axioms only
        self.failed = {}           # name -> reason
        self.build_log = ""
        self.driver_ok = False
        self.forbidden = []
        self.leanchecker = {}


def lean_build(prop_modules, need_driver=True):
    """Build the property modules and the native driver; audit axioms of every theorem."""
    res = LeanResult()
    with LeanLock():
        if need_driver:
            rc, out = lake(["build", "driver"])
            res.driver_ok = rc == 0
            res.build_log += out
            if rc != 0:
                raise HarnessError("native driver does not build (model/driver sources or a regenerated Gen/*.lean file):\n" + out[-3000:])
        for mod in prop_modules:
            names = theorem_names(mod)
            res.obligations += names
            rc, out = lake(["build", mod])
            res.build_log += out
            if rc != 0:
                # find out which theorems broke: errors are reported with line numbers; attribute
                # them coarsely (every theorem of the module is undischarged unless audited below)
                log("build of %s failed:\n%s" % (mod, out[-3000:]))
                for n in names:
                    res.failed[n] = "module %s does not build" % mod
                res.failed["__log__" + mod] = out[-4000:]
                continue
            audit = os.path.join(WORK, "Audit_%s.lean" % mod.replace(".", "_"))
            with open(audit, "w") as f:
                f.write("import %s\n" % mod)
                for n in names:
                    f.write("#print axioms %s\n" % n)
            rc, out = lake(["env", "lean", audit])
            if rc != 0:
                raise HarnessError("axiom audit failed to run for %s:\n%s" % (mod, out[-2000:]))
            blocks = re.split(r"(?m)^(?=')", out)
            seen = {}
            for b in blocks:
                m = re.match(r"'(.+?)' (depends on axioms: \[(.*?)\]|does not depend on any axioms)", b, flags=re.S)
                if m:
                    axs = set(a.strip() for a in (m.group(3) or "").replace("\n", " ").split(",") if a.strip())
                    seen[m.group(1)] = axs
            for n in names:
                if n not in seen:
                    res.failed[n] = "not found by #print axioms"
                elif not seen[n] <= STD_AXIOMS:
                    res.failed[n] = "non-standard axioms: %s" % sorted(seen[n] - STD_AXIOMS)
                else:
                    res.discharged.append(n)
            if os.environ.get("VERIF_TIER") == "thorough" or "--tier thorough" in " ".join(sys.argv) or ("thorough" in sys.argv):
                # thorough tier: the compiled module is re-checked by the toolchain's independent checker
                rc, out = lake(["env", "leanchecker", mod], timeout=3600)
                res.build_log += out
                res.leanchecker[mod] = "ok" if rc == 0 else out[-600:]
                if rc != 0:
                    for n in names:
                        res.failed[n] = "leanchecker rejects %s" % mod
                    res.discharged = [n for n in res.discharged if n not in names]
    limit_memory()
    res.forbidden = forbidden_hits(lean_files())
    if res.forbidden:
        for n in list(res.discharged):
            res.failed[n] = "forbidden construct in Lean sources: %s" % res.forbidden[0]
        res.discharged = []
    return res


def limit_memory(gib=24):
    """soft address-space limit for the harness process itself (called after the Lean build, whose children need
    more): a runaway implementation call then fails with MemoryError instead of taking the machine down"""
    import resource
    try:
        resource.setrlimit(resource.RLIMIT_AS, (gib << 30, resource.getrlimit(resource.RLIMIT_AS)[1]))
    except (ValueError, OSError):
        pass


def driver_path():
    return os.path.join(LEAN, ".lake", "build", "bin", "driver")


def run_driver(lines, timeout=3600):
    """one operation per line in, one answer per line out"""
    if not lines:
        return []
    exe = driver_path()
    if not os.path.exists(exe):
        raise HarnessError("native driver missing (run ./setup.sh)")
    data = ("\n".join(lines) + "\n").encode()
    p = subprocess.run([exe], input=data, stdout=subprocess.PIPE, stderr=subprocess.PIPE, timeout=timeout)
    if p.returncode != 0:
        raise HarnessError("driver crashed: %s" % p.stderr.decode()[-2000:])
    out = p.stdout.decode().split("\n")
    if out and out[-1] == "":
        out.pop()
    if len(out) != len(lines):
        raise HarnessError("driver answered %d lines for %d operations" % (len(out), len(lines)))
    return out


# --------------------------------------------------------------------------- known findings

def load_known_findings(prop):
    path = os.path.join(VERIF, "known_findings.json")
    if not os.path.exists(path):
        return []
    with open(path) as f:
        return [e for e in json.load(f) if e.get("property") == prop and e.get("status") == "known"]


# --------------------------------------------------------------------------- a check run

class Check:
    """Bookkeeping of one run: cases, disagreements, evidence, verdict."""

    def __init__(self, prop, tier, seed):
        self.prop, self.tier, self.seed = prop, tier, seed
        self.t0 = time.time()
        self.evaluations = 0
        self.nontrivial = set()
        self.samples = []
        self.dist = {}
        self.corr_breaks = []      # impl != model (correspondence)
        self.violations = []       # impl != spec (property fails on the real code)
        self.known_hits = {}       # finding id -> count
        self.known = {e["id"]: e for e in load_known_findings(prop)}
        self.lean = None
        self.extra = {}
        self.rule = ""
        self.assumptions = []
        self.trusted = []
        self.tie_notes = []
        self.traces_validated = 0

    # -- counting -----------------------------------------------------------
    def count(self, key, n=1):
        self.dist[key] = self.dist.get(key, 0) + n

    def case(self, inp, nontrivial=True, kind=None):
        """register one explored case; inp must be a canonical (json-able) description"""
        self.evaluations += 1
        if kind:
            self.count(kind)
        if nontrivial:
            h = hashlib.blake2b(json.dumps(inp, sort_keys=True, default=str).encode(), digest_size=8).digest()
            self.nontrivial.add(h)
        if len(self.samples) < 6 and (self.evaluations in (1, 7, 50, 400, 3000, 20000)):
            self.samples.append(inp)

    def bulk(self, evaluations, distinct, kind=None, sample=None):
        """register a batch explored elsewhere (worker process); `distinct` must be a measured count of
        distinct non-trivial cases of the batch (e.g. an enumeration without repetition)"""
        self.evaluations += evaluations
        self._bulk_distinct = getattr(self, "_bulk_distinct", 0) + distinct
        if kind:
            self.count(kind, evaluations)
        if sample is not None and len(self.samples) < 6:
            self.samples.append(sample)

    def corr_break(self, op, inp, impl, model):
        if len(self.corr_breaks) < 50:
            self.corr_breaks.append({"op": op, "input": inp, "impl": impl, "model": model})
        self.count("corr_break:" + op)

    def violation(self, what, inp, expected, actual, finding=None):
        """impl disagrees with the Lean specification on a concrete input. If `finding` names a listed
        known finding whose guard covers the input it is attributed to that finding."""
        if finding is not None and finding in self.known:
            self.known_hits[finding] = self.known_hits.get(finding, 0) + 1
            return
        if len(self.violations) < 50:
            self.violations.append({"what": what, "input": inp, "expected": expected, "actual": actual})
        self.count("violation:" + what)

    def saturated(self, n=25):
        """enough violations recorded: an exploration loop may stop early (keeps a badly broken tree from taking hours)"""
        return len(self.violations) >= n

    # -- verdict --------------------------------------------------------------
    def write_replay(self, payload, tag=""):
        path = os.path.join(REPLAYS, "%s-%s%s.json" % (self.prop, self.seed, tag))
        with open(path, "w") as f:
            json.dump(payload, f, indent=1, default=str)
        return os.path.relpath(path, VERIF)

    def finish(self, search=None):
        """Apply the verdict rule. `search` is a callable doing the extended failing-input search; it is
        only invoked when a proof obligation or the correspondence broke and no violation is known yet.
        It must register what it finds through self.violation()."""
        lean = self.lean
        broken_thms = dict(lean.failed) if lean else {}
        broken = bool(broken_thms) or bool(self.corr_breaks) or bool(self.tie_breaks())
        if broken and not self.violations and search is not None:
            log("[%s] proof obligation or correspondence broke; searching for a failing input ..." % self.prop)
            search()
        lines, rc = [], 0
        for fid, e in self.known.items():
            lines.append("KNOWN-FINDING: property=%s %s (%s; %d case(s) of this run inside its guard)" % (
                self.prop, e["what_fails"], fid, self.known_hits.get(fid, 0)))
        if self.violations:
            v = self.violations[0]
            path = self.write_replay({"property": self.prop, "seed": self.seed, "tier": self.tier,
                                      "kind": "failing-input", "first": v, "all": self.violations,
                                      "broken_theorems": broken_thms, "correspondence_breaks": self.corr_breaks[:5]})
            lines.append("VIOLATION property=%s replay=%s" % (self.prop, path))
            rc = 1
        elif broken:
            path = self.write_replay({"property": self.prop, "seed": self.seed, "tier": self.tier,
                                      "kind": "no-failing-input-found",
                                      "broken_theorems": broken_thms,
                                      "correspondence_breaks": self.corr_breaks[:10],
                                      "tie_breaks": self.tie_breaks()})
            lines.append("VIOLATION property=%s replay=%s no-failing-input-found" % (self.prop, path))
            rc = 1
        if rc == 0:
            stale = os.path.join(REPLAYS, "%s-%s.json" % (self.prop, self.seed))
            if os.path.exists(stale):
                os.remove(stale)
        self.write_evidence(rc)
        for l in lines:
            print(l, flush=True)
        if rc == 0:
            print("OK property=%s tier=%s seed=%s evaluations=%d obligations=%d/%d wall=%.1fs" % (
                self.prop, self.tier, self.seed, self.evaluations,
                len(lean.discharged) if lean else 0, len(lean.obligations) if lean else 0, time.time() - self.t0), flush=True)
        return rc

    _tie_breaks = None

    def tie_break(self, what):
        if self._tie_breaks is None:
            self._tie_breaks = []
        self._tie_breaks.append(what)

    def tie_breaks(self):
        return self._tie_breaks or []

    def write_evidence(self, rc):
        lean = self.lean
        cov = {
            "obligations": len(lean.obligations) if lean else 0,
            "discharged": len(lean.discharged) if lean else 0,
            "checker_cmd": "cd lean && lake build <Properties modules> && lake env lean <generated '#print axioms' audit>",
            "trusted_base": ["Lean 4.33 kernel", "axioms allowed: propext, Classical.choice, Quot.sound (audited per theorem)"] + self.trusted,
            "theorems": lean.obligations if lean else [],
            "undischarged": lean.failed if lean else {},
            "evaluations": self.evaluations,
            "distinct_nontrivial": len(self.nontrivial) + getattr(self, "_bulk_distinct", 0),
            "rule": self.rule,
            "samples": self.samples[:6],
            "distribution": dict(sorted(self.dist.items())),
            "correspondence_breaks": len(self.corr_breaks),
            "tie_notes": self.tie_notes,
            "known_finding_hits": self.known_hits,
            "traces_validated_against_impl": self.traces_validated,
            "leanchecker": (lean.leanchecker if lean else {}) or "thorough tier only",
        }
        cov.update(self.extra)
        ev = {
            "property_id": self.prop, "tier": self.tier, "seed": self.seed, "level": "proof",
            "coverage": cov, "assumptions": self.assumptions,
            "wall_s": round(time.time() - self.t0, 2), "violations": len(self.violations) if rc else 0,
        }
        with open(os.path.join(EVIDENCE, "%s.json" % self.prop), "w") as f:
            json.dump(ev, f, indent=1, default=str)


# --------------------------------------------------------------------------- parallel exploration

def parallel(fn, jobs, procs=None):
    """run fn(job) for every job in forked worker processes; returns the results in order"""
    import multiprocessing as mp
    procs = procs or min(16, os.cpu_count() or 1, max(1, len(jobs)))
    if procs <= 1 or len(jobs) <= 1:
        return [fn(j) for j in jobs]
    ctx = mp.get_context("fork")
    with ctx.Pool(procs) as pool:
        return pool.map(fn, jobs, chunksize=1)
