# -*- coding: utf-8 -*-
"""Introspection of the live AVP dictionary (every DiameterAVP subclass of the working tree)."""
KIND_OF_TYPE = {
    "OctetStringType": "OctetString", "UTF8StringType": "UTF8String", "DiameterIdentityType": "DiameterIdentity",
    "DiameterURIType": "DiameterURI", "Integer32Type": "Integer32", "Unsigned32Type": "Unsigned32",
    "Unsigned64Type": "Unsigned64", "EnumeratedType": "Enumerated", "GroupedType": "Grouped",
    "AddressType": "Address", "TimeType": "Time",
}


def all_classes():
    import bromelia.avps  # noqa: F401  (imports every dictionary module)
    import bromelia.lib   # noqa: F401
    from bromelia.base import DiameterAVP
    seen, out = set(), []
    for c in DiameterAVP.__subclasses__():
        if c not in seen:
            seen.add(c)
            out.append(c)
    return out


def kind_of(cls):
    for b in cls.__mro__:
        if b.__module__ == "bromelia.types" and b.__name__ in KIND_OF_TYPE:
            return KIND_OF_TYPE[b.__name__]
    return "unmodelled"


def classes_by_kind():
    out = {}
    for c in all_classes():
        out.setdefault(kind_of(c), []).append(c)
    for v in out.values():
        v.sort(key=lambda c: (c.__module__, c.__name__))
    return out
