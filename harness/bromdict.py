# -*- coding: utf-8 -*-
"""Introspection of the live AVP dictionary (every DiameterAVP subclass of the working tree)."""
KIND_OF_TYPE = {
    "OctetStringType": "OctetString", "UTF8StringType": "UTF8String", "DiameterIdentityType": "DiameterIdentity",
    "DiameterURIType": "DiameterURI", "Integer32Type": "Integer32", "Unsigned32Type": "Unsigned32",
    "Unsigned64Type": "Unsigned64", "EnumeratedType": "Enumerated", "GroupedType": "Grouped",
    "AddressType": "Address", "TimeType": "Time",
}


def all_classes():
    import importlib
    import pkgutil
    import bromelia.avps
    import bromelia.lib
    from bromelia.base import DiameterAVP
    # every module under bromelia.avps and bromelia.lib (some dictionary modules are only imported by a
    # lib sub-package, e.g. ts_132_299 by bromelia.lib.etsi_3gpp_gy): the table must not depend on import order
    for pkg in (bromelia.avps, bromelia.lib):
        for mi in pkgutil.walk_packages(pkg.__path__, pkg.__name__ + "."):
            try:
                importlib.import_module(mi.name)
            except Exception:       # optional third-party dependency of a sub-package
                pass
    seen, out = set(), []
    for c in DiameterAVP.__subclasses__():
        if c not in seen:
            seen.add(c)
            out.append(c)
    return out


def kind_of(cls):
    for b in cls.__mro__:
        if b.__module__ == "bromelia.types" and b.__name__ in KIND_OF_TYPE:
            return KIND_OF_TYPE[b.__name__]
    return "unmodelled"


def classes_by_kind():
    out = {}
    for c in all_classes():
        out.setdefault(kind_of(c), []).append(c)
    for v in out.values():
        v.sort(key=lambda c: (c.__module__, c.__name__))
    return out
