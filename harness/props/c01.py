# -*- coding: utf-8 -*-
"""C01 — serialised messages are exactly the RFC 6733 encoding of their content."""
import json
import random

import core
import gen_dict
import bromgen


def guarded(f):
    try:
        return f()
    except bromgen.FailedDump as e:
        return e.args[0]
    except BaseException as e:
        if isinstance(e, (KeyboardInterrupt, SystemExit)):
            raise
        import bromelia.exceptions as X
        return "err:" + ("lib:" + type(e).__name__ if type(e).__module__ == X.__name__ else "std:" + type(e).__name__)


HDR_VALUES = {
    "version": [1, 0, 255, 2],
    "flags": [0x00, 0x80, 0x40, 0xc0, 0x20, 0x10, 0xff, 0x01],
    "cmd": [0, 1, 257, 280, 316, 8388608, 2 ** 24 - 1],
    "u32": [0, 1, 16777251, 4, 2 ** 31, 2 ** 32 - 1],
}


def explore_avps(chk, g, n, tag):
    objs, lines = [], []
    for _ in range(n):
        depth = g.rng.choice([0, 1, 2, 3, 4])
        o, toks = g.tree(depth)
        if toks[0] == "X" and not isinstance(o, bromgen.Failed) and g.rng.random() < 0.3:
            # a generic AVP that came out of the decoder and whose data is then reassigned (another length residue)
            from bromelia.base import DiameterAVP
            try:
                o2 = DiameterAVP.load(o.dump())[0]
                if type(o2) is DiameterAVP:
                    nd = g.rbytes(g.rng.choice([0, 1, 2, 3, 4, 5, 6, 7, 9]))
                    o2.data = nd
                    o, toks = o2, toks[:4] + [nd.hex() or "-"]
            except BaseException as e:
                if isinstance(e, (KeyboardInterrupt, SystemExit)):
                    raise
        objs.append(o)
        lines.append("enc " + " ".join(toks))
    if g.mutate_grouped:
        for o, toks in nested_duplicate_cases(g, max(20, n // 20)):
            objs.append(o)
            lines.append("enc " + " ".join(toks))
    out = core.run_driver(lines)
    for o, line, res in zip(objs, lines, out):
        f = dict(p.split("=", 1) for p in res.split(" "))
        impl = guarded(lambda: o.dump().hex())
        also = guarded(lambda: bytes(o).hex())
        inp = {"op": "avp", "desc": line[4:]}
        chk.case(inp, kind="avp:" + tag)
        if impl != f["model"] or also != impl:
            chk.corr_break("avp-dump", inp, impl, f["model"])
        if f["spec"] != "none" and impl != f["spec"]:
            chk.violation("AVP dump is not the RFC 6733 encoding of its content", inp, f["spec"], impl)


def nested_duplicate_cases(g, n):
    """a Grouped AVP holding [N([x, y]), x', z] with x' equal-valued to the nested x; then x' (or z, or N) is popped /
    re-appended: the data must stay the concatenation of the remaining members' encodings"""
    r = g.rng
    out = []
    free = [c for c in g.grouped_names if not g.classes[c].mandatory]
    for _ in range(n):
        outer, inner = g.classes[r.choice(free)], g.classes[r.choice(free)]
        lname = r.choice(g.leaf_names)
        row = g.rows[lname]
        val, vt = g.value(row)
        mk = lambda: bromgen.construct(lambda: g.classes[lname](val))
        x, x2 = mk(), mk()
        y, yt = g.leaf()
        z, zt = g.leaf()
        if any(isinstance(o, bromgen.Failed) for o in (x, x2, y, z)):
            continue
        xt = ["D", lname, "-"] + vt
        n_obj = bromgen.construct(lambda: inner([x, y]))
        nt = ["G", inner.__name__, "-", "2"] + xt + yt
        members = [(n_obj, nt), (x2, xt), (z, zt)]
        r.shuffle(members) if r.random() < 0.3 else None
        o = bromgen.construct(lambda: outer([m[0] for m in members]))
        if isinstance(o, bromgen.Failed) or isinstance(n_obj, bromgen.Failed):
            continue
        which = r.choice([x2, x2, z, n_obj])
        key = [k for k, v in o.__dict__.items() if v is which and "_avp" in k and k != "_avps"]
        if not key:
            continue
        o.pop(key[0])
        members = [m for m in members if m[0] is not which]
        if r.random() < 0.3:
            e, et = g.leaf()
            if not isinstance(e, bromgen.Failed):
                o.append(e)
                members.append((e, et))
        toks = ["G", outer.__name__, "-", str(len(members))] + [t for m in members for t in m[1]]
        out.append((o, toks))
    # equal-valued members side by side: [a, y, a', z, a''] then the LATER ones are popped by name: the named object must go,
    # the remaining ones keep their order
    for _ in range(n):
        outer = g.classes[r.choice(free)]
        lname = r.choice(g.leaf_names)
        row = g.rows[lname]
        val, vt = g.value(row)
        mk = lambda: bromgen.construct(lambda: g.classes[lname](val))
        copies = [mk() for _i in range(r.choice([2, 3]))]
        others = [g.leaf() for _i in range(r.choice([1, 2]))]
        if any(isinstance(o, bromgen.Failed) for o in copies) or any(isinstance(o[0], bromgen.Failed) for o in others):
            continue
        xt = ["D", lname, "-"] + vt
        members = [(c, xt) for c in copies] + list(others)
        r.shuffle(members)
        o = bromgen.construct(lambda: outer([m[0] for m in members]))
        if isinstance(o, bromgen.Failed):
            continue
        for _k in range(r.choice([1, 2])):
            listed = [m[0] for m in members]
            later = [c for c in copies if any(c is x for x in listed) and any(d is not c and any(d is x for x in listed[:[i for i, x in enumerate(listed) if x is c][0]]) for d in copies)]
            if not later:
                break
            which = r.choice(later)
            key = [k for k, v in o.__dict__.items() if v is which and "_avp" in k and k != "_avps"]
            if not key:
                break
            o.pop(key[0])
            members = [m for m in members if m[0] is not which]
        toks = ["G", outer.__name__, "-", str(len(members))] + [t for m in members for t in m[1]]
        out.append((o, toks))
    return out


def build_message(g, how, hf, kids):
    from bromelia.base import DiameterHeader, DiameterMessage, DiameterRequest, DiameterAnswer
    hdr = DiameterHeader(version=hf[0], flags=hf[1], command_code=hf[2], application_id=hf[3], hop_by_hop=hf[4], end_to_end=hf[5])
    if how == 0:
        m = DiameterMessage(hdr)
        for k in kids:
            m.append(k)
    elif how == 1:
        m = DiameterMessage(hdr, list(kids))
    elif how == 2:
        m = DiameterMessage(hdr)
        m.extend(list(kids))
    elif how == 3:
        m = DiameterMessage(hdr)
        m.avps = list(kids)
    else:
        # a message that came out of the decoder with no AVPs (a bare header), then filled through the public API
        m = DiameterMessage(hdr)
        try:
            m = DiameterMessage.load(m.dump())[0]
        except BaseException as e:
            if isinstance(e, (KeyboardInterrupt, SystemExit)):
                raise
        for k in kids:
            m.append(k)
    return m


def explore_msgs(chk, g, n, tag):
    r = g.rng
    msgs, lines = [], []
    for i in range(n):
        hf = (r.choice(HDR_VALUES["version"]), r.choice(HDR_VALUES["flags"]), r.choice(HDR_VALUES["cmd"] + [r.randrange(2 ** 24)]),
              r.choice(HDR_VALUES["u32"] + [r.randrange(2 ** 32)]), r.choice(HDR_VALUES["u32"] + [r.randrange(2 ** 32)]),
              r.choice(HDR_VALUES["u32"] + [r.randrange(2 ** 32)]))
        k = r.choice([0, 1, 2, 3, 5, 8])
        kids, toks = [], []
        for _ in range(k):
            if kids and r.random() < 0.2:
                j = r.randrange(len(kids))            # a repeated, equal-valued AVP (same-name attribute path)
                o, t = kids[j], ktoks[j]
            else:
                o, t = g.tree(r.choice([0, 1, 3]))
            kids.append(o)
            toks.append(t)
            ktoks = toks
        how = i % 5
        bad = [k for k in kids if isinstance(k, bromgen.Failed)]
        m = bad[0].err if bad else guarded(lambda: build_message(g, how, hf, kids))
        # a fifth way: an AVP of the built message is replaced by item assignment (sizes of old and new differ freely)
        if not isinstance(m, str) and kids and len(set(map(id, kids))) == len(kids) and r.random() < 0.3:
            o, t = g.tree(r.choice([0, 1]))
            if not isinstance(o, bromgen.Failed):
                j = r.randrange(len(kids))

                def assign(m=m, j=j, o=o):
                    m[j] = o
                    return m
                m = guarded(assign)
                kids[j], toks[j] = o, t
        msgs.append(m)
        lines.append("msg %d %d %d %d %d %d %d %s" % (hf + (len(kids), " ".join(" ".join(t) for t in toks))))
    out = core.run_driver(lines)
    for m, line, res in zip(msgs, lines, out):
        f = dict(p.split("=", 1) for p in res.split(" "))
        inp = {"op": "msg", "desc": line[4:]}
        chk.case(inp, kind="msg:" + tag)
        if isinstance(m, str):
            impl, ln = m, 0
        else:
            impl = guarded(lambda: m.dump().hex())
            ln = guarded(lambda: m.header.get_length())
        if impl != f["model"] or str(ln) != f["len"]:
            chk.corr_break("msg-dump", inp, [impl, ln], [f["model"], f["len"]])
        if f["spec"] != "none":
            if impl != f["spec"]:
                chk.violation("message dump is not the RFC 6733 encoding of its content", inp, f["spec"], impl)
            elif ln != len(f["spec"]) // 2 or ln % 4 != 0:
                chk.violation("Message Length differs from the serialised size", inp, len(f["spec"]) // 2, ln)


def raw_desc(m):
    """the message's content as it stands in the objects now: every AVP as a raw (code, flags, vendor, data) token group"""
    h = m.header
    toks = []
    for a in m.avps:
        vid = a.vendor_id
        toks.append(" ".join(["X", str(int.from_bytes(a.code, "big")), str(a.flags[0]),
                              "-" if not vid else str(int.from_bytes(vid, "big")), (a.data or b"").hex() or "-"]))
    return "msg %d %d %d %d %d %d %d %s" % (h.version[0], h.flags[0], int.from_bytes(h.command_code, "big"),
                                           int.from_bytes(h.application_id, "big"), int.from_bytes(h.hop_by_hop, "big"),
                                           int.from_bytes(h.end_to_end, "big"), len(m.avps), " ".join(toks))


def explore_mutations(chk, g, n, tag):
    """a sixth way of arriving at a message: built, then changed through the public mutators (bulk origin re-assignment with
    the Session-Id regenerated in place, single-AVP update, key renaming, pop, list assignment); afterwards the dump must be
    the RFC encoding of the content the objects now hold (read back AVP by AVP) and the Message Length its size"""
    from bromelia.base import DiameterHeader, DiameterMessage
    from bromelia.avps import SessionIdAVP, OriginHostAVP, OriginRealmAVP, VendorIdAVP, UserNameAVP, ResultCodeAVP
    r = g.rng
    msgs, lines, descs = [], [], []
    idents = ["a", "ab", "abc", "host.example", "relay-01.mme.epc.mnc001.mcc001.3gppnetwork.org", "x" * 63, "h" * 5, "h" * 6, "h" * 7, "h" * 8]
    for i in range(n):
        hdr = DiameterHeader(flags=r.choice([0x80, 0x40, 0x00, 0xC0]), command_code=r.choice([257, 272, 316, 8388620]),
                             application_id=r.choice([0, 4, 16777251]))
        kids = []
        if r.random() < 0.85:
            kids.append(SessionIdAVP(r.choice(idents)) if r.random() < 0.7 else SessionIdAVP((r.choice(idents) + ";1;2").encode()))
        kids += [OriginHostAVP(r.choice(idents)), OriginRealmAVP(r.choice(idents))]
        if r.random() < 0.5:
            kids.append(VendorIdAVP(r.choice([0, 10415])))
        if r.random() < 0.5:
            kids.append(UserNameAVP(r.choice(["", "u", "user@realm"])))
        for _ in range(r.choice([0, 1, 2])):
            o, _t = g.tree(r.choice([0, 1]))
            if not isinstance(o, bromgen.Failed):
                kids.append(o)
        r.shuffle(kids)
        steps = []

        def build(kids=kids, steps=steps):
            m = DiameterMessage(hdr)
            for k in kids:
                m.append(k)
            for _ in range(r.choice([1, 1, 2, 3])):
                u = r.random()
                if u < 0.45:
                    upd = {"origin_host": r.choice(idents)}
                    if r.random() < 0.3:
                        upd["origin_realm"] = r.choice(idents)
                    if r.random() < 0.2 and m.has_avp("vendor_id_avp"):
                        upd["vendor_id"] = r.choice([0, 1, 10415])
                    if r.random() < 0.15:
                        upd["session_id"] = (r.choice(idents) + ";9;9").encode()
                    if r.random() < 0.5:
                        upd = dict(reversed(list(upd.items())))
                    steps.append("update_avps(%r)" % upd)
                    m.update_avps(upd)
                elif u < 0.6:
                    v = r.choice(idents)
                    steps.append("update_avp(origin_realm_avp, %r)" % v)
                    m.update_avp("origin_realm_avp", v)
                elif u < 0.7 and m.has_avp("origin_realm_avp"):
                    steps.append("update_key(origin_realm_avp -> realm2_avp)")
                    m.update_key("origin_realm_avp", "realm2_avp")
                elif u < 0.8 and m.has_avp("origin_host_avp"):
                    steps.append("pop(origin_host_avp)")
                    m.pop("origin_host_avp")
                elif u < 0.9:
                    steps.append("avps = avps[::-1]")
                    m.avps = m.avps[::-1]
                else:
                    steps.append("session_id_avp.data reassigned + refresh()")
                    if m.has_avp("session_id_avp"):
                        m.session_id_avp.data = (r.choice(idents) + ";3;4").encode()
                        m.refresh()
            return m
        m = guarded(build)
        if isinstance(m, str):
            chk.count("mutation-rejected:" + m)
            continue
        msgs.append((m, steps))
        lines.append(raw_desc(m))
    out = core.run_driver(lines)
    for (m, steps), line, res in zip(msgs, lines, out):
        f = dict(p.split("=", 1) for p in res.split(" "))
        inp = {"op": "msg-after-mutators", "steps": steps, "content_now": line[4:][:900]}
        chk.case(inp, kind="msg-mut:" + tag)
        impl = guarded(lambda: m.dump().hex())
        ln = guarded(lambda: m.header.get_length())
        if f["spec"] != "none":
            if impl != f["spec"]:
                chk.violation("after public mutators the dump is not the RFC 6733 encoding of the content the message holds", inp, f["spec"][:600], str(impl)[:600])
            elif ln != len(f["spec"]) // 2:
                chk.violation("after public mutators the Message Length differs from the serialised size", inp, len(f["spec"]) // 2, ln)


def run(chk):
    rng = random.Random(chk.seed)
    changed, rows = gen_dict.generate()
    chk.lean = core.lean_build(["BromeliaVerif.Properties.C01"])
    g = bromgen.Gen(rng)
    g.mutate_grouped = True
    chk.rule = ("content trees built through the public API from the repo's own dictionary (every class reachable, values per "
                "data-type kind with boundary values and every length residue, Grouped members from the class's own tables, "
                "nesting depth up to 4, repeated members, container operations pop/append/extend/avps-setter applied to built Grouped AVPs, AVP lengths across 2^16, generic AVPs with/without vendor, M/P flag overrides) and messages "
                "with boundary/random header fields built by append / constructor list / extend / avps setter, optionally followed by an item assignment replacing one AVP; a case is the "
                "descriptor line sent to the Lean driver; distinct = distinct descriptor lines.")
    chk.trusted += ["correspondence harness props/c01.py + generators harness/bromgen.py", "CPython bytes/struct/str.encode('utf-8')",
                    "Gen/Dictionary.lean translator (validated against live instances by C10)"]
    n = 6000 if chk.tier == "quick" else 300000
    explore_avps(chk, g, n, "sweep")
    explore_msgs(chk, g, n // 3, "sweep")
    explore_mutations(chk, g, n // 6, "sweep")
    # the typed message classes (the statement quantifies over them too): built from generated arguments incl. falsy boundary
    # values, dump compared with the RFC encoding of command + arguments (the table clauses themselves are C09's)
    import gen_commands
    from props import c09
    _c, crows = gen_commands.generate()
    g2 = bromgen.Gen(rng)
    g2.override = 0.0
    g2.generic_unknown_only = True
    c09.explore(chk, g2, crows, 1 if chk.tier == "quick" else 12, "typed", clauses=False)
    chk.extra["classes_hit"] = len([k for k in g.hits if not k.startswith("kind:") and k != "generic"])
    chk.extra["kinds_hit"] = {k[5:]: v for k, v in g.hits.items() if k.startswith("kind:")}

    def search():
        explore_avps(chk, g, 4 * n, "search")
        explore_msgs(chk, g, n, "search")
        explore_mutations(chk, g, n, "search")
        c09.explore(chk, g2, crows, 6, "typed-search", clauses=False)

    return chk.finish(search)


def replay(path):
    r = json.load(open(path))
    print(json.dumps(r.get("first") or r.get("broken_theorems"), indent=1)[:3000])
    return 1 if r.get("first") else 0
