# -*- coding: utf-8 -*-
"""C11 — a message's named AVP view, AVP list and length stay coherent under mutation."""
import itertools
import json
import random
import re

import core


def guarded(f):
    import bromelia.exceptions as X
    try:
        f()
        return "ok"
    except BaseException as e:
        if isinstance(e, (KeyboardInterrupt, SystemExit)):
            raise
        return "lib" if type(e).__module__ == X.__name__ else "std:" + type(e).__name__


# ---------------------------------------------------------------------------------------------- object alphabet

def templates():
    from bromelia.base import DiameterAVP
    from bromelia.avps import OriginHostAVP, VendorIdAVP, SupportedVendorIdAVP, ProductNameAVP, SessionIdAVP
    return {
        "h": lambda: OriginHostAVP("host"),                 # equal-valued AVPs of one class (distinct objects)
        "H": lambda: OriginHostAVP("host.example.com"),     # same class, other size (residue)
        "u": lambda: DiameterAVP(code=999999, vendor_id=10415, flags=0x80, data=b"xyz"),   # unknown
        "v": lambda: VendorIdAVP(10415),                     # its name is a substring of the next one's
        "s": lambda: SupportedVendorIdAVP(10415),
        "S": lambda: SessionIdAVP(b"peer;1;2"),             # regenerated in place by a bulk origin update
    }


KEY_RE = re.compile(r"^(.*_avp)(?:__(\d+))?$")


def split_key(k):
    m = KEY_RE.match(k)
    return (m.group(1), int(m.group(2) or 0)) if m else (k, 0)


def join_key(b, s):
    return b if s == 0 else "%s__%d" % (b, s)


class World:
    """one real message plus the bookkeeping that maps Python objects to model ids"""

    def __init__(self, typed=False):
        from bromelia.base import DiameterMessage, DiameterHeader
        self.ids = {}
        self.keep = []                      # keeps every object alive so that id() values are never reused
        self.ops = []                       # driver tokens of the operations done so far
        self.states = []
        if typed == "loaded0" or typed == "loaded2":
            # a message obtained from the decoder (header only, or with two AVPs): the same container contract applies
            from bromelia.avps import OriginHostAVP, VendorIdAVP
            src = DiameterMessage(DiameterHeader(command_code=280, application_id=0))
            if typed == "loaded2":
                src.append(OriginHostAVP("host"))
                src.append(VendorIdAVP(10415))
            self.m = DiameterMessage.load(src.dump())[0]
            for a in self.m.avps:
                self.ops += ["A"] + self.obj_tokens(a)
            self.n_init = len(self.m.avps)
        elif typed:
            from bromelia.lib.ietf_rfc6733.messages import DeviceWatchdogRequest
            self.m = DeviceWatchdogRequest(origin_host="client.example", origin_realm="example")
            for a in self.m.avps:
                self.ops += ["A"] + self.obj_tokens(a)
            self.n_init = len(self.m.avps)
        else:
            self.m = DiameterMessage(DiameterHeader(command_code=280, application_id=0))
            self.n_init = 0

    def oid(self, o):
        if id(o) not in self.ids:
            self.ids[id(o)] = len(self.ids) + 1
            self.keep.append(o)
        return self.ids[id(o)]

    def base_of(self, o):
        from bromelia.base import DiameterMessage
        tmp = DiameterMessage()
        tmp.append(o)
        ks = [k for k in tmp.__dict__ if "_avp" in k and k != "_avps"]
        return ks[0]

    def size_of(self, o):
        return len(o.dump())

    def obj_tokens(self, o):
        return [str(self.oid(o)), self.base_of(o), str(self.size_of(o))]

    def observe(self):
        m = self.m
        avps = [self.oid(a) for a in m.avps]
        names = []
        for k, v in m.__dict__.items():
            if "_avp" in k and k != "_avps":
                b, s = split_key(k)
                names.append("%s:%d=%d" % (b, s, self.oid(v)))
        return "avps=[%s] names=[%s] len=%d" % (",".join(map(str, avps)), ",".join(names), m.header.get_length())

    # -- the specification, evaluated directly on the real object ------------------------------------------
    def coherence_errors(self, universe):
        m = self.m
        errs = []
        listed = list(m.avps)
        named = {k: v for k, v in m.__dict__.items() if "_avp" in k and k != "_avps"}
        for k, v in named.items():
            if not any(v is a for a in listed):
                errs.append("name %s refers to an AVP that is not listed" % k)
        for i, a in enumerate(listed):
            n = sum(1 for v in named.values() if v is a)
            occ = sum(1 for b in listed if b is a)           # the same object may be listed more than once (aliasing)
            if n != occ:
                errs.append("listed AVP #%d (listed %dx) has %d name(s)" % (i, occ, n))
        size = len(m.dump())
        if m.header.get_length() != size:
            errs.append("Message Length %d != serialised size %d" % (m.header.get_length(), size))
        for k in universe:
            try:
                has = m.has_avp(k)
            except BaseException as e:
                errs.append("has_avp(%r) raised %s" % (k, type(e).__name__))
                continue
            m2 = re.match(r"^(.*)__(\d+)$", k)
            short = "%s_avp__%s" % (m2.group(1), m2.group(2)) if m2 else "%s_avp" % k     # `origin_host` names `origin_host_avp`
            want = bool(listed) and (k in named or short in named)
            if has != want:
                errs.append("has_avp(%r) = %s but the name is %s" % (k, has, "bound" if want else "not bound"))
        return errs

    def order_ok(self, before):
        """relative order of the AVPs that remain is preserved"""
        now = [id(a) for a in self.m.avps]
        budget = {}
        for i in before:
            budget[i] = budget.get(i, 0) + 1
        kept = []
        for i in now:                                       # occurrences beyond those present before were added
            if budget.get(i, 0) > 0:
                budget[i] -= 1
                kept.append(i)
        it = iter(before)
        return all(any(x == y for y in it) for x in kept)          # kept is a subsequence of before


def do_op(w, op, T):
    """performs one abstract operation on the real message; returns (driver tokens, raised?)"""
    m = w.m
    kind = op[0]
    if kind == "append":
        o = T[op[1]]()
        toks = ["A"] + w.obj_tokens(o)
        return toks, guarded(lambda: m.append(o))
    if kind == "extend":
        os_ = [T[t]() for t in op[1]]
        toks = ["E", str(len(os_))] + sum((w.obj_tokens(o) for o in os_), [])
        return toks, guarded(lambda: m.extend(os_))
    if kind in ("extendbad", "setavpsbad"):
        # a fault in the middle of a multi-element operation: valid AVPs, then something that is not an AVP; the library
        # error is caught by the caller. What was appended before the fault stays (model: the operation on the prefix).
        os_ = [T[t]() for t in op[1]]
        bad = ["x", None, 5][op[2] % 3]
        k = min(op[2], len(os_))
        arg = os_[:k] + [bad] + os_[k:]
        pre = os_[:k]
        if kind == "extendbad":
            toks = (["E", str(len(pre))] + sum((w.obj_tokens(o) for o in pre), [])) if pre else ["R"]
            return toks, guarded(lambda: m.extend(arg))
        toks = ["S", str(len(pre))] + sum((w.obj_tokens(o) for o in pre), [])

        def f():
            m.avps = arg
        return toks, guarded(f)
    if kind == "pop":
        b, s = op[1]
        return ["P", b, str(s)], guarded(lambda: m.pop(join_key(b, s)))
    if kind == "cleanup":
        return ["C"], guarded(m.cleanup)
    if kind == "setavps":
        os_ = [T[t]() for t in op[1]]
        toks = ["S", str(len(os_))] + sum((w.obj_tokens(o) for o in os_), [])

        def f():
            m.avps = os_
        return toks, guarded(f)
    if kind == "setitem":
        o = T[op[2]]()
        toks = ["I", str(op[1])] + w.obj_tokens(o)

        def f():
            m[op[1]] = o
        return toks, guarded(f)
    if kind == "updatekey":
        (b1, s1), (b2, s2) = op[1], op[2]
        return ["K", b1, str(s1), b2, str(s2)], guarded(lambda: m.update_key(join_key(b1, s1), join_key(b2, s2)))
    if kind == "updateavp":
        b, s = op[1]
        key = join_key(b, s)
        res = guarded(lambda: m.update_avp(key, op[2]))
        new = m.__dict__.get(key)
        if res == "ok" and new is not None:
            return ["U", b, str(s)] + w.obj_tokens(new), res
        # the new AVP could not be built (value outside the class's type, generic AVP without class): the container
        # is left as it was; for the model this step is a no-op (refresh of a coherent state)
        return ["R"], res
    if kind == "refresh":
        return ["R"], guarded(m.refresh)
    if kind == "alias":
        # the object listed at position op[1] is appended once more (outside the model: spec only)
        if op[1] >= len(m.avps):
            return ["R"], "ok"
        o = m.avps[op[1]]
        w.aliased = True
        return ["A"] + w.obj_tokens(o), guarded(lambda: m.append(o))
    if kind == "bulk":
        # update_avps: per-key update_avp, Session-Id regenerated in place when the origin changes, final refresh
        toks = []
        before = {k: v for k, v in m.__dict__.items() if "_avp" in k and k != "_avps"}
        sid = before.get("session_id_avp")
        sid_data = sid.data if sid is not None else None
        res = guarded(lambda: m.update_avps(dict(op[1])))
        for key, _val in op[1]:
            name = key + "_avp"
            new = m.__dict__.get(name)
            if name in before and new is not None and new is not before[name]:
                toks += ["U", name, "0"] + w.obj_tokens(new)
        if sid is not None and m.__dict__.get("session_id_avp") is sid and sid.data != sid_data:
            toks += ["Z", str(w.oid(sid)), str(w.size_of(sid))]
        else:
            toks += ["R"]
        return toks, res
    raise KeyError(kind)


def op_alphabet(small):
    T = ["h", "h", "H", "u", "v", "s"] if not small else ["h", "u", "v"]
    keys = [("origin_host_avp", 0), ("origin_host_avp", 1), ("unknown_avp", 0), ("vendor_id_avp", 0), ("supported_vendor_id_avp", 0),
            ("origin_host_avp", 2), ("missing_avp", 0)]
    if small:
        keys = [("origin_host_avp", 0), ("origin_host_avp", 1), ("unknown_avp", 0), ("vendor_id_avp", 0)]
    ops = [("append", t) for t in dict.fromkeys(T)]
    ops += [("pop", k) for k in keys]
    ops += [("cleanup",), ("refresh",), ("setavps", ("h", "h")), ("setavps", ()), ("setavps", ("u",)), ("extend", ("h", "v")), ("setitem", 0, "H"), ("setitem", 1, "u"),
            ("updatekey", ("origin_host_avp", 0), ("renamed_avp", 0)), ("updatekey", ("origin_host_avp", 1), ("origin_host_avp", 0)),
            ("updateavp", ("origin_host_avp", 0), "other.host"), ("updateavp", ("origin_host_avp", 1), "o"),
            ("updateavp", ("vendor_id_avp", 0), 5),
            ("append", "S"), ("bulk", (("origin_host", "a"),)), ("bulk", (("origin_host", "relay.example.org"), ("vendor_id", 7))),
            ("bulk", (("vendor_id", 9),))]
    if small:
        ops = [o for o in ops if o[0] not in ("extend", "bulk") and o != ("append", "S")]
    else:
        ops += [("alias", 0), ("alias", 1)]
        ops += [("extendbad", ("h", "v"), 2), ("extendbad", ("u", "h"), 1), ("setavpsbad", ("h", "u"), 2), ("setavpsbad", ("v", "h"), 1)]
    return ops


UNIVERSE = ["origin_host_avp", "origin_host_avp__1", "origin_host_avp__2", "unknown_avp", "vendor_id_avp", "supported_vendor_id_avp",
            "renamed_avp", "missing_avp", "origin_host", "origin_host__1", "vendor_id", "session_id_avp", "session_id"]


def run_sequence(seq, typed=False):
    """returns (driver line, impl states, spec errors per step)"""
    T = templates()
    w = World(typed)
    impl, spec, groups = [], [], []
    for op in seq:
        before = [id(a) for a in w.m.avps]
        before_objs = list(w.m.avps)
        target = w.m.__dict__.get(join_key(*op[1])) if op[0] == "updateavp" else None
        toks, res = do_op(w, op, T)
        w.ops += toks
        groups.append(sum(1 for t in toks if t in ("A", "E", "P", "C", "S", "I", "K", "U", "R", "Z")))
        impl.append(w.observe())
        errs = w.coherence_errors(UNIVERSE)
        if not w.order_ok(before):
            errs.append("relative order of the remaining AVPs changed")
        if op[0] == "updateavp" and res == "ok" and target is not None and not getattr(w, "aliased", False):
            # the object the name referred to is the one replaced, at its position; all other positions keep their object
            new = w.m.__dict__.get(join_key(*op[1]))
            now = list(w.m.avps)
            pos = [i for i, a in enumerate(before_objs) if a is target]
            if len(now) != len(before_objs) or len(pos) != 1 or now[pos[0]] is not new or \
                    any(a is not b for i, (a, b) in enumerate(zip(now, before_objs)) if i != pos[0]):
                errs.append("update_avp(%s) did not replace the named object in place (by identity)" % join_key(*op[1]))
        spec.append((res, errs))
    return "cont " + " ".join(w.ops), impl, spec, w.n_init, getattr(w, "aliased", False), groups


def explore(chk, seqs, tag, typed=False):
    lines, meta = [], []
    for seq in seqs:
        line, impl, spec, n_init, aliased, groups = run_sequence(seq, typed)
        lines.append("cont R" if aliased else line)
        meta.append((seq, impl, spec, n_init, aliased, groups))
    out = core.run_driver(lines)
    for (seq, impl, spec, n_init, aliased, groups), o in zip(meta, out):
        inp = {"op": "container", "typed": typed, "ops": [list(map(str, s)) for s in seq]}
        chk.case(inp, kind="seq:%s:len%d" % (tag, len(seq)))
        model = o.split(" | ")[n_init:] if o else []
        if not aliased:
            # one abstract operation may be several model operations (bulk update): take the state after the last one
            picked, at = [], 0
            for g in groups:
                at += g
                picked.append(model[at - 1] if 0 < at <= len(model) else None)
            model = picked
        if aliased:
            chk.count("aliased-sequence:spec-only")
        elif model != impl:
            k = next((i for i, (a, b) in enumerate(zip(model, impl)) if a != b), min(len(model), len(impl)))
            chk.corr_break("container", inp, {"step": k, "state": impl[k] if k < len(impl) else None},
                           {"step": k, "state": model[k] if k < len(model) else None})
        for k, (res, errs) in enumerate(spec):
            if errs:
                chk.violation("named view / AVP list / Message Length incoherent after a container operation",
                              {"op": "container", "typed": typed, "ops": [list(map(str, s)) for s in seq[: k + 1]]},
                              "coherent", errs[:4])
                break
            if res.startswith("std") and seq[k][0] not in ("pop", "setitem", "updateavp"):
                chk.count("std-exception:" + res)


def run(chk):
    rng = random.Random(chk.seed)
    chk.lean = core.lean_build(["BromeliaVerif.Properties.C11"])
    chk.rule = ("every operation sequence up to length L over an alphabet of ~25 operations (append of equal-valued / different-size / "
                "unknown / substring-named AVPs, pop of bound, suffixed and unbound names, cleanup, refresh, avps setter, extend, item "
                "assignment, key renaming incl. onto an existing name, update_avp) on a generic message (L=3 exhaustive over the full "
                "alphabet, L=4 over a reduced one in the quick tier), seeded random sequences up to length 40 on generic and typed "
                "messages; after EVERY step the real object is compared with the model state and checked against the coherence "
                "specification (names<->listed objects by identity, has_avp for 11 names incl. short forms, order, length = size). "
                "distinct = distinct operation sequences.")
    chk.trusted += ["correspondence harness props/c11.py", "aliasing (the same AVP object listed twice) is outside the model (freshness hypothesis of the theorem): such sequences are generated and checked against the coherence specification only (names per object = occurrences in the list)",
                    "GroupedType uses the same scheme; only DiameterMessage is exercised"]
    full = op_alphabet(False)
    small = op_alphabet(True)
    L_full = 3 if chk.tier == "quick" else 4
    L_small = 4 if chk.tier == "quick" else 6
    seqs = [s for n in range(1, L_full + 1) for s in itertools.product(full, repeat=n)]
    explore(chk, seqs, "exhaustive-full")
    if chk.tier == "quick":
        seqs = list(itertools.product(small, repeat=L_small))
        explore(chk, seqs, "exhaustive-small")
    else:
        for n in range(L_full + 1, L_small + 1):
            allseq = itertools.product(small, repeat=n)
            chunk = list(itertools.islice(allseq, 400000))
            jobs = [chunk[i::16] for i in range(16)]
            explore(chk, chunk[:200000], "exhaustive-small")
    n_rand = 400 if chk.tier == "quick" else 20000
    rnd = [[rng.choice(full) for _ in range(rng.choice([5, 8, 12, 20, 40]))] for _ in range(n_rand)]
    explore(chk, rnd, "random")
    explore(chk, rnd[: n_rand // 2], "random-typed", typed=True)
    explore(chk, rnd[: n_rand // 2], "random-loaded-empty", typed="loaded0")
    explore(chk, rnd[n_rand // 2:], "random-loaded", typed="loaded2")
    short = [s for n in (1, 2) for s in itertools.product(full, repeat=n)]
    explore(chk, short, "exhaustive-loaded-empty", typed="loaded0")
    explore(chk, short, "exhaustive-loaded", typed="loaded2")
    chk.extra["exhaustive"] = True
    chk.extra["exhaustive_domain"] = "operation sequences up to length %d over %d operations; length %d over %d operations" % (L_full, len(full), L_small, len(small))

    def search():
        more = [[rng.choice(full) for _ in range(rng.choice([3, 5, 8]))] for _ in range(4 * n_rand)]
        explore(chk, more, "search")

    return chk.finish(search)


def replay(path):
    r = json.load(open(path))
    v = r.get("first")
    if not v:
        print(json.dumps(r.get("broken_theorems") or r.get("correspondence_breaks"), indent=1)[:3000])
        return 0
    seq = [tuple(tuple(x) if isinstance(x, list) else x for x in s) for s in v["input"]["ops"]]
    print("sequence:", v["input"]["ops"], "\nexpected:", v["expected"], "\nobserved then:", v["actual"])
    return 1
