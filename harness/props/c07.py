# -*- coding: utf-8 -*-
"""C07 — base-protocol answers echo the identifiers of the request they answer.
Same machinery as C06 (real state classes ticked with a substituted transport, Lean model of the state machine);
the monitor looks at every CEA/DWA/DPA written to the transport."""
import json
import random

import core
import psmdrv
from props import c06

ANSWER_OF = {"cer": "cea", "dwr": "dwa", "dpr": "dpa"}
CODES = {"cea": 257, "dwa": 280, "dpa": 282}


def monitor(role, steps):
    for i, s in enumerate(steps):
        answers = [(t, m) for t, m in zip(s.emitted, s.emitted_msgs or [None] * len(s.emitted)) if t.split(":")[0] in CODES]
        if s.exc:
            return ("the state machine raised %s during a tick" % s.exc, i, s.obs)
        if not answers:
            continue
        if s.ev[0] != "t":
            return ("a base answer was written outside a tick", i, s.emitted)
        if len(answers) > 1:
            return ("more than one base answer was written in one tick", i, s.emitted)
        tok, m = answers[0]
        kind, hbh, e2e = tok.split(":")
        c = s.consumed
        if c is None:
            return ("a base answer was written in a tick that consumed no request", i, {"answer": tok, "queue head": s.head[:3] if s.head else None})
        req_kind = c[0].split(".")[0]
        if ANSWER_OF.get(req_kind) != kind:
            return ("the answer written does not answer the request just consumed", i, {"answer": tok, "request": c[:3]})
        if (int(hbh), int(e2e)) != (c[1], c[2]):
            return ("the answer does not carry the Hop-by-Hop / End-to-End identifiers of the request it answers", i,
                    {"answer": tok, "request": c[:3]})
        if m is not None:
            h = m.header
            if int.from_bytes(h.command_code, "big") != CODES[kind] or (h.flags[0] & 0x80):
                return ("the answer has the wrong command code or the R flag set", i, {"answer": tok, "flags": h.flags[0]})
            by = {}
            for a in m.avps:
                by.setdefault(int.from_bytes(a.code, "big"), []).append(a.data)
            if by.get(264) != [psmdrv.LHOST.encode()] or by.get(296) != [psmdrv.LREALM.encode()]:
                return ("the answer does not carry the local Origin-Host / Origin-Realm", i,
                        {"answer": tok, "origin_host": str(by.get(264)), "origin_realm": str(by.get(296))})
            if len(by.get(268, [])) != 1 or len(by[268][0]) != 4:
                return ("the answer does not carry a Result-Code", i, {"answer": tok})
            if h.get_length() != len(m.dump()):
                return ("the answer's Message Length differs from its size", i, {"answer": tok})
    return None


def history(rng, role, names, length):
    """bursts of base requests with different (and boundary, and repeated) identifiers, other traffic in between,
    reconnects on the same node object"""
    ids = [0, 1, 2 ** 32 - 1, 2 ** 31, 0xDEADBEEF, 0x01020304]
    pick = lambda: rng.choice(ids) if rng.random() < 0.4 else rng.randrange(2 ** 32)
    evs = []
    def connect():
        if role == "client":
            evs.extend([("t",), ("a",), ("t",), ("i", "cea.ok", pick(), pick()), ("t",)])
        else:
            evs.extend([("i", rng.choice(["cer.ok", "cer.ok", "cer.twoips", "cer.wronghost"]), pick(), pick()), ("t",)])
    connect()
    while len(evs) < length:
        r = rng.random()
        if r < 0.45:
            for _ in range(rng.choice([1, 2, 3, 5])):
                evs.append(("i", rng.choice(["dwr.ok", "dwr.ok", "cer.ok", "dwr.wronghost", "dwr.twostate", "cer.twoips", "cer.exploit"]), pick(), pick()))
            evs.extend([("t",)] * rng.choice([1, 2, 3, 6]))
        elif r < 0.6:
            evs.append(("i", rng.choice(["app.req-host-local", "app.ans", "dwa.ok", "dpa.ok", "cea.ok"]), pick(), pick()))
            evs.append(("t",))
        elif r < 0.7:
            # a local request is pending with an identifier the peer's next base request may also carry
            evs.extend([("u", pick() or 1), ("t",)])
        elif r < 0.8:
            evs.extend([("w",), ("t",)])
        elif r < 0.92:
            # end the connection one way or another, then start again on the same node object
            how = rng.choice(["dpr", "dpr-bad", "stop", "disc"])
            if how == "dpr":
                evs.extend([("i", "dpr.ok", pick(), pick()), ("t",), ("t",)])
            elif how == "dpr-bad":
                evs.extend([("i", rng.choice(["dpr.busy", "dpr.wronghost"]), pick(), pick()), ("t",), ("t",)])
            elif how == "stop":
                evs.extend([("s",), ("t",), ("i", "dpa.ok", pick(), pick()), ("t",), ("t",)])
            else:
                evs.extend([("d",), ("t",), ("t",)])
            evs.append(("r",))
            connect()
        else:
            evs.append(("t",))
    return evs


def multi_node(chk):
    """several node objects with different local identities in one process, used in turn: every answer carries the
    identity of the node that wrote it"""
    from bromelia.base import DiameterMessage
    idents = [("local.example", "local.realm"), ("second.example", "second.realm"), ("third.example", "local.realm")]
    nodes = [psmdrv.Node("server", 1, local=i) for i in idents]
    facs = []
    for i in idents:
        f = c06.Factory("server", 1)
        facs.append(f)
    order = [0, 1, 0, 2, 1, 2, 0]
    hbh = 100
    for k in order:
        node, (host, realm) = nodes[k], idents[k]
        node.reset()
        # the peer's messages address this node: rebuild them with the peer's view of the local identity unchanged
        for name in ("cer.ok", "dwr.ok", "dpr.ok"):
            hbh += 1
            m, _tok, _sid = facs[k].loaded(name, hbh, hbh + 7)
            node.inject(m)
            exc = node.tick()
            out = node.take_emitted()
            inp = {"op": "multi-node", "node": host, "request": name, "order": order}
            chk.case(inp, kind="multi-node:%s" % name)
            if exc not in (None, "stopped") or len(out) != 1:
                chk.violation("a node among several in one process did not answer a base request", inp, "one answer", {"exc": exc, "answers": len(out)})
                continue
            a = out[0]
            oh = [x.data for x in a.avps if int.from_bytes(x.code, "big") == 264]
            orr = [x.data for x in a.avps if int.from_bytes(x.code, "big") == 296]
            ids = (int.from_bytes(a.header.hop_by_hop, "big"), int.from_bytes(a.header.end_to_end, "big"))
            if oh != [host.encode()] or orr != [realm.encode()] or ids != (hbh, hbh + 7):
                chk.violation("an answer does not carry the identity of the node that wrote it (several nodes in one process)", inp,
                              {"origin_host": host, "origin_realm": realm, "ids": [hbh, hbh + 7]},
                              {"origin_host": str(oh), "origin_realm": str(orr), "ids": list(ids)})


def concurrent_nodes(chk, rng, n):
    """two or three nodes with the SAME local identity in one process (several connections of one host), their state-machine
    threads ticking at the same time - every interleaving at source-line granularity of statemachine.py / process.py / setup.py:
    each node's answer must carry the identifiers of the request that node consumed"""
    import threadsafe
    k = 3
    nodes = [psmdrv.Node("server", 1) for _ in range(k)]
    fac = c06.Factory("server", 1)

    def fresh():
        for nd in nodes:
            nd.reset()
            m, _t, _s = fac.loaded("cer.ok", 1, 2)
            nd.inject(m)
            nd.tick()
            nd.take_emitted()

    def make_threads(r):
        use = r.sample(range(k), r.choice([2, 2, 3]))
        threads, desc = [], []
        for j, i in enumerate(use):
            name = r.choice(["dwr.ok", "dwr.ok", "cer.ok", "dpr.ok"])
            hbh, e2e = 1000 + 17 * j + r.randrange(5), 2000 + 31 * j + r.randrange(5)
            desc.append([i, name, hbh, e2e])

            def one(i=i, name=name, hbh=hbh, e2e=e2e):
                m, _t, _s = fac.loaded(name, hbh, e2e)
                nodes[i].inject(m)
                exc = nodes[i].tick()
                out = nodes[i].take_emitted()
                return (exc, [(int.from_bytes(a.header.command_code, "big"), a.header.is_request(), int.from_bytes(a.header.hop_by_hop, "big"),
                               int.from_bytes(a.header.end_to_end, "big")) for a in out])
            threads.append([one])
        return threads, {"node, request, hop-by-hop, end-to-end": desc}

    threadsafe.explore(chk, "base answers of several nodes", make_threads, fresh,
                       ("bromelia/statemachine.py", "bromelia/process.py", "bromelia/setup.py"), rng, n)


def run(chk):
    rng = random.Random(chk.seed)
    import gen_psm
    chk.tie_notes += gen_psm.generate()[1]       # tie (a): statemachine.py translated to Gen/PsmGen.lean on every run
    chk.lean = core.lean_build(["BromeliaVerif.Properties.C07", "BromeliaVerif.Properties.C06Gen"])
    chk.rule = ("the histories of C06 (breadth-first over all event sequences on the implementation's state + random histories) and "
                "request-burst histories: 1..5 back-to-back CER/DWR (valid and invalid) with boundary, repeated and random 32-bit "
                "identifiers, interleaved with other traffic, watchdog timeouts and submits; connections ended by DPR / stop / "
                "disconnect and restarted on the same node object. Every CEA/DWA/DPA written to the substituted transport is decoded "
                "and matched against the request consumed in the same tick. distinct = distinct histories.")
    chk.trusted += ["correspondence harness props/c06.py + props/c07.py + psmdrv.py (substituted transport and lock, one run()+"
                    "get_next_state() per tick); the abstraction of decoded messages to the model's tokens",
                    "the answer's AVP content (Origin-Host/Realm, Result-Code, length) is checked on the implementation only; the model "
                    "carries command and identifiers"]
    quick = chk.tier == "quick"
    c06.SEEN_CLAUSES.clear()
    multi_node(chk)
    concurrent_nodes(chk, rng, 40 if quick else 2500)
    c06.explore(chk, rng, monitor, "sweep", quick, prop="C07", gen=history)
    c06.explore(chk, rng, monitor, "sweep-c06", quick, prop="C07", do_bfs=False)

    def search():
        c06.explore(chk, rng, monitor, "search", True, prop="C07", gen=history, do_bfs=False)

    return chk.finish(search)


def replay(path):
    return c06.replay(path, monitor)
