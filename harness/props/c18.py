# -*- coding: utf-8 -*-
"""C18 — TBCD digit encoding round-trips for every digit string."""
import itertools
import json
import random

import core


def canon(r):
    if r is None:
        return "none"
    if isinstance(r, str):
        return "s:" + r
    if isinstance(r, (bytes, bytearray)):
        return bytes(r).hex() or "-"
    return "other:%r" % (r,)


def call(f, *a):
    try:
        return canon(f(*a))
    except BaseException as e:
        if isinstance(e, (KeyboardInterrupt, SystemExit)):
            raise
        return "exc:" + type(e).__name__


def digit_strings(lo, hi):
    for n in range(lo, hi + 1):
        for t in itertools.product("0123456789", repeat=n):
            yield "".join(t)


def explore_strings(strings):
    """returns (n, corr_breaks, violations) for a list of digit strings"""
    import bromelia.utils as U
    lines = ["tbcd %s" % (s or "-") for s in strings]
    out = core.run_driver(lines)
    cb, vio = [], []
    for s, o in zip(strings, out):
        f = dict(p.split("=", 1) for p in o.split(" "))
        e = call(U.encode_to_tbcd, s)
        if e != f["enc"]:
            cb.append(("encode_to_tbcd", s, e, f["enc"]))
        # oracle (specification): the octets are the 3GPP TBCD octets, and decoding gives the string back
        spec_hex = f["spec"]
        octets = None
        if e.startswith("s:"):
            try:
                octets = bytes.fromhex(e[2:]).hex() or "-"
            except ValueError:
                octets = "not-hex"
        if octets != spec_hex:
            vio.append(("encoding is not the nibble-swapped TBCD form", s, spec_hex, e))
            continue
        d = call(U.decode_from_tbcd, e[2:])
        if d != f["rt"]:
            cb.append(("decode_from_tbcd", e[2:], d, f["rt"]))
        if d != "s:" + s:
            vio.append(("decode(encode(s)) != s", s, "s:" + s, d))
    return len(strings), cb, vio


def explore_numbers(nums):
    from bromelia.avps import MsisdnAVP, StnSrAVP
    lines = ["tbcd_avp %d" % n for n in nums]
    out = core.run_driver(lines)
    cb, vio = [], []
    for n, o in zip(nums, out):
        f = dict(p.split("=", 1) for p in o.split(" "))
        for cls in (MsisdnAVP, StnSrAVP):
            for arg in (n, str(n)):
                def data(c=cls, a=arg):
                    return c(a).data
                r = call(data)
                inp = {"class": cls.__name__, "arg": repr(arg)}
                if r != f["model"]:
                    cb.append(("avp-data", inp, r, f["model"]))
                if r != f["spec"]:
                    vio.append(("AVP built from a number does not carry its TBCD octets", inp, f["spec"], r))
    return 4 * len(nums), cb, vio


def chunks(it, n):
    it = iter(it)
    while True:
        c = list(itertools.islice(it, n))
        if not c:
            return
        yield c


def merge(chk, res, kind):
    for n, cb, vio in res:
        chk.bulk(n, n, kind)
        for op, inp, impl, model in cb[:20]:
            chk.corr_break(op, inp, impl, model)
        for what, inp, exp, act in vio[:20]:
            chk.violation(what, {"op": kind, "input": inp}, exp, act)


def threads_part(chk, rng, n):
    """encoding is a function of the digit string: several threads encoding / decoding / building MSISDN AVPs at once, from
    a freshly imported module (first use included), must each get what they get alone"""
    import importlib
    import threadsafe
    import bromelia.utils as U

    def make_threads(r):
        nums = [r.choice([5521993082672, 123, "0123", "1", "01", 10 ** 15, "987654321", r.randrange(10 ** 14)]) for _ in range(r.choice([2, 2, 3]))]
        threads = []
        for x in nums:
            def one(x=x):
                from bromelia.avps import MsisdnAVP
                e = U.encode_to_tbcd(x)
                return (e, U.decode_from_tbcd(e), MsisdnAVP(int(x)).data.hex() if str(x)[0] != "0" else None)
            threads.append([one] * r.choice([1, 2]))
        return threads, {"numbers": [str(x) for x in nums]}

    threadsafe.explore(chk, "TBCD", make_threads, lambda: importlib.reload(U), ("bromelia/utils.py",), rng, n)


def run(chk):
    rng = random.Random(chk.seed)
    import gen_tbcd
    chk.tie_notes += gen_tbcd.generate()[1]       # tie (a): the two TBCD loops translated to Gen/TbcdGen.lean on every run
    chk.lean = core.lean_build(["BromeliaVerif.Properties.C18", "BromeliaVerif.Properties.C18Gen"])
    maxlen = 5 if chk.tier == "quick" else 7
    chk.rule = ("every digit string of length 0..%d enumerated without repetition (exhaustive), plus seeded random digit"
                " strings of length 6..20 (deduplicated), each through encode_to_tbcd, bytes.fromhex and decode_from_tbcd;"
                " MSISDN/STN-SR AVPs from numbers (int and numeric str) of 1..20 digits incl. boundaries. Non-trivial:"
                " all (every string exercises the pair loop or the filler branch)." % maxlen)
    chk.trusted += ["correspondence harness props/c18.py; CPython str/int/bytes.fromhex",
                    "special characters (* # a b c) of encode_to_tbcd are outside the property and not modelled"]
    jobs = list(chunks(digit_strings(0, maxlen), 50000))
    merge(chk, core.parallel(explore_strings, jobs), "exhaustive-strings")
    chk.samples += ["", "7", "12", "123", "00120"]
    n_rand = 5000 if chk.tier == "quick" else 500000
    rnd = sorted({"".join(rng.choice("0123456789") for _ in range(rng.randint(6, 20))) for _ in range(n_rand)})
    merge(chk, core.parallel(explore_strings, list(chunks(rnd, 50000))), "random-strings")
    nums = {0, 1, 9, 10, 11, 99, 100, 101, 5521993082672, 55219930826, 10 ** 15, 10 ** 15 - 1, 10 ** 19, 10 ** 20 - 1}
    for d in range(1, 21):
        for _ in range(40 if chk.tier == "quick" else 2000):
            nums.add(rng.randrange(10 ** (d - 1), 10 ** d))
    merge(chk, core.parallel(explore_numbers, list(chunks(sorted(nums), 2000))), "avp-from-number")
    chk.samples.append({"MsisdnAVP": 5521993082672})
    chk.extra["exhaustive"] = True
    chk.extra["exhaustive_domain"] = "digit strings of length 0..%d" % maxlen
    threads_part(chk, rng, 40 if chk.tier == "quick" else 3000)

    def search():
        more = sorted({"".join(rng.choice("0123456789") for _ in range(rng.randint(0, 40))) for _ in range(4 * n_rand)})
        merge(chk, core.parallel(explore_strings, list(chunks(more, 50000))), "search-strings")

    return chk.finish(search)


def replay(path):
    import bromelia.utils as U
    r = json.load(open(path))
    v = r.get("first")
    if not v:
        print("replay names broken obligations only:", json.dumps(r.get("broken_theorems"), indent=1)[:2000])
        return 0
    inp = v["input"]["input"]
    if v["input"]["op"] == "avp-from-number":
        import bromelia.avps as A
        got = call(lambda: getattr(A, inp["class"])(eval(inp["arg"])).data)
    else:
        e = call(U.encode_to_tbcd, inp)
        got = e if "TBCD form" in v["what"] else call(U.decode_from_tbcd, e[2:]) if e.startswith("s:") else e
    print("input=%r expected=%s implementation=%s" % (inp, v["expected"], got))
    return 0 if got == v["expected"] else 1
