# -*- coding: utf-8 -*-
"""C20 — typed AVP value accessors agree with the wire data for every value."""
import datetime
import ipaddress
import json
import random

import core
import gen_pyfuns
import bromdict


def is_lib_error(e):
    import bromelia.exceptions as X
    return type(e).__module__ == X.__name__


def guarded(f):
    """-> ('ok', value) | ('lib', name) | ('std', name)"""
    try:
        return ("ok", f())
    except BaseException as e:
        if isinstance(e, (KeyboardInterrupt, SystemExit)):
            raise
        return ("lib" if is_lib_error(e) else "std", type(e).__name__)


BOUNDARY_WORDS = sorted(set(
    [0, 1, 2, 3, 0x7f, 0x80, 0xff, 0x100, 0x101, 0x7fff, 0x8000, 0xffff, 0x10000, 0x7fffff, 0x800000, 0xffffff,
     0x1000000, 0x7fffffff, 0x80000000, 0xfffffffe, 0xffffffff, 0x55555555, 0xaaaaaaaa, 0x0f0f0f0f, 0xf0f0f0f0,
     0x00ff00ff, 0xff00ff00, 0x01020408, 0x80402010, 0x12345678, 0xdeadbeef] +
    [1 << i for i in range(32)] + [0xffffffff ^ (1 << i) for i in range(0, 32, 5)]))
INDICES = list(range(32)) + [-1, -8, 32, 33, 39, 40, 64, 255]


def explore_bits(chk, pairs, classes, rng, tag):
    lines, meta = [], []
    for w, b in pairs:
        for op in ("test", "set", "unset"):
            lines.append("bit %s %d %d" % (op, w, b))
            meta.append((op, w, b))
    out = core.run_driver(lines)
    for (op, w, b), o in zip(meta, out):
        f = dict(p.split("=", 1) for p in o.split(" "))
        cls = classes[(w + b) % len(classes)]

        def do():
            obj = cls(w)
            if op == "test":
                r = obj.is_bit_set(b)
                return "1" if r is True else "0" if r is False else "other:%r" % (r,)
            r = obj.set_bit(b) if op == "set" else obj.unset_bit(b)
            d = obj.data
            if r != d or len(d) != 4 or obj.dump()[-4:] != d:
                return "inconsistent:%r/%r" % (r, d)
            return str(int.from_bytes(d, "big"))
        kind, val = guarded(do)
        impl = val if kind == "ok" else ("none" if kind == "lib" else "exc:" + val)
        inp = {"op": "bit-" + op, "class": cls.__name__, "word": w, "bit": b}
        chk.case(inp, kind="bit-%s:%s" % (op, tag))
        if impl != f["model"]:
            chk.corr_break("bit-" + op, inp, impl, f["model"])
        if "gen" in f and f["gen"] != f["model"]:
            chk.corr_break("gen-vs-model", inp, f["gen"], f["model"])
        if impl != f["spec"]:
            chk.violation("bit %s disagrees with the big-endian word" % op, inp, f["spec"], impl)


V4_OCTETS = [0, 1, 9, 10, 99, 100, 127, 128, 199, 200, 249, 250, 254, 255]
V6_FORMS = ["::", "::1", "1::", "2001:db8::1", "fe80::1:2:3:4", "2001:db8:0:0:1:0:0:1", "::ffff:10.1.2.3",
            "1:2:3:4:5:6:7:8", "ffff:ffff:ffff:ffff:ffff:ffff:ffff:ffff", "0:0:0:0:0:0:0:0", "2001:0db8:0000:0000:0000:ff00:0042:8329",
            "1:0:0:2:0:0:0:3", "a:b:c:d:e:f:0:1", "::2:3:4:5:6:7:8", "1:2:3:4:5:6:7::"]
BAD_V4 = ["1.2.3", "1.2.3.4.5", "256.1.1.1", "01.2.3.4", "1.2.3.04", "1..2.3", "a.b.c.d", "1.2.3.-4", "1.2.3.4 ", "", "1.2.3.1000"]


def explore_addr(chk, rng, n_rand, classes, tag):
    lits4 = set()
    for a in V4_OCTETS:
        for b in (0, 255, 17):
            lits4.add("%d.%d.%d.%d" % (a, b, 255 - a, a))
            lits4.add("%d.%d.%d.%d" % (b, a, a, 255 - b))
    for _ in range(n_rand):
        lits4.add(".".join(str(rng.choice(V4_OCTETS + [rng.randrange(256)])) for _ in range(4)))
    lits4 = sorted(lits4)
    lits6 = list(V6_FORMS)
    for _ in range(n_rand):
        groups = [rng.choice([0, 0, 1, 0xffff, rng.randrange(65536)]) for _ in range(8)]
        lits6.append(":".join("%x" % g for g in groups))
        lits6.append(str(ipaddress.IPv6Address(":".join("%x" % g for g in groups))))
    lits6 = sorted(set(lits6))
    out4 = core.run_driver(["addr4 %s" % (l.encode().hex() or "-") for l in lits4 + BAD_V4])
    jobs = []
    for lit, o in zip(lits4 + BAD_V4, out4):
        packed = o.split("=", 1)[1]
        jobs.append((lit, 4, None if packed == "none" else packed))
    for lit in lits6:
        jobs.append((lit, 6, ipaddress.IPv6Address(lit).packed.hex()))
    good = [j for j in jobs if j[2] is not None]
    outs = core.run_driver(["addr %d %s" % (fam, packed) for _, fam, packed in good])
    expect = {j[0]: dict(p.split("=", 1) for p in o.split(" ")) for j, o in zip(good, outs)}
    for i, (lit, fam, packed) in enumerate(jobs):
        cls = classes[i % len(classes)]
        inp = {"op": "address", "class": cls.__name__, "literal": lit}

        def do():
            a = cls(lit)
            return {"data": a.data.hex(), "v4": a.is_ipv4(), "v6": a.is_ipv6(), "text": a.get_ip_address(),
                    "wire": a.dump()[-len(a.data) - ((4 - len(a.data) % 4) % 4):][:len(a.data)].hex()}
        kind, val = guarded(do)
        chk.case(inp, kind="addr-v%d:%s" % (fam, tag))
        if packed is None:
            # not an IPv4 literal by the Lean recogniser: construction must not silently succeed
            ref_ok = True
            try:
                ipaddress.ip_address(lit)
            except ValueError:
                ref_ok = False
            if ref_ok:
                chk.corr_break("ipv4-recogniser-vs-ipaddress", inp, "accepted by ipaddress", "rejected by Ipv4.parse")
            elif kind == "ok":
                chk.violation("malformed address literal silently accepted", inp, "exception", val)
            continue
        e = expect[lit]
        text = e["text"] if fam == 4 else str(ipaddress.IPv6Address(bytes.fromhex(packed)))
        want = {"data": e["data"], "v4": fam == 4, "v6": fam == 6, "text": text, "wire": e["data"]}
        model_fam = e["fam"]
        if kind != "ok":
            chk.corr_break("address", inp, "%s:%s" % (kind, val), want)
            chk.violation("valid address literal rejected", inp, want, "%s:%s" % (kind, val))
            continue
        if model_fam != str(fam):
            chk.corr_break("address-model-family", inp, fam, model_fam)
        if val != want:
            chk.corr_break("address", inp, val, want)
            chk.violation("Address AVP data/accessors disagree with family ++ packed", inp, want, val)

def explore_time(chk, rng, n_rand, classes, tag):
    insts = [(1900, 1, 1, 0, 0, 0), (1900, 1, 1, 0, 0, 1), (1900, 2, 28, 23, 59, 59), (1900, 3, 1, 0, 0, 0),
             (1904, 2, 29, 12, 0, 0), (1970, 1, 1, 0, 0, 0), (1999, 12, 31, 23, 59, 59), (2000, 1, 1, 0, 0, 0),
             (2000, 2, 29, 0, 0, 0), (2000, 3, 1, 0, 0, 0), (2001, 2, 28, 23, 59, 59), (2004, 2, 29, 23, 59, 59),
             (2021, 3, 4, 5, 6, 7), (2036, 2, 7, 6, 28, 15), (2036, 2, 7, 6, 28, 16), (2036, 2, 7, 6, 28, 14),
             (2036, 2, 8, 0, 0, 0), (2037, 1, 1, 0, 0, 0), (2100, 2, 28, 0, 0, 0), (2100, 3, 1, 0, 0, 0)]
    for _ in range(n_rand):
        y = rng.randrange(1900, 2038)
        m = rng.randrange(1, 13)
        d = rng.randrange(1, 29) if rng.random() < 0.8 else rng.choice([28, 29, 30, 31])
        try:
            datetime.datetime(y, m, d)
        except ValueError:
            continue
        insts.append((y, m, d, rng.choice([0, 23, rng.randrange(24)]), rng.choice([0, 59, rng.randrange(60)]),
                      rng.choice([0, 59, rng.randrange(60)])))
    for y in range(1900, 2037):            # every year boundary and every month start of the range
        insts.append((y, 12, 31, 23, 59, 59))
        for m in range(1, 13):
            insts.append((y, m, 1, 0, 0, 0))
    insts = sorted(set(insts))
    out = core.run_driver(["time %d %d %d %d %d %d" % t for t in insts])
    for i, (t, o) in enumerate(zip(insts, out)):
        e = dict(p.split("=", 1) for p in o.split(" "))
        cls = classes[i % len(classes)]
        us = rng.choice([0, 0, 1, 999999, rng.randrange(1000000)])
        inp = {"op": "time", "class": cls.__name__, "instant": list(t), "microsecond": us}
        kind, val = guarded(lambda: cls(datetime.datetime(*t, microsecond=us)).data.hex())
        impl = val if kind == "ok" else "range-error"
        chk.case(inp, kind="time:" + tag)
        if e["valid"] != "1":
            chk.corr_break("time-date-validity", inp, "valid for datetime", "invalid for Spec.Ntp")
        if impl != e["model"]:
            chk.corr_break("time", inp, "%s:%s" % (kind, val), e["model"])
        if impl != e["spec"]:
            chk.violation("Time AVP data are not the whole seconds since 1900-01-01", inp, e["spec"], "%s:%s" % (kind, val))


def explore_bit_sequences(chk, rng, n, classes, tag):
    """several operations on ONE object, the flag word re-assigned in between (`avp.data = ...`): every accessor must speak of
    the data the AVP holds at that moment. Oracle: the statement itself on a Python integer (testBit / set / clear)."""
    for _ in range(n):
        cls = rng.choice(classes)
        w = rng.choice(BOUNDARY_WORDS + [rng.randrange(2 ** 32)])
        steps, trace, want = [], [], []
        kind0, obj = guarded(lambda: cls(w))
        if kind0 != "ok":
            continue
        cur = w
        for _k in range(rng.choice([3, 4, 6, 8])):
            op = rng.choice(["test", "test", "set", "unset", "assign", "assign-bytes"])
            b = rng.choice([0, 1, 7, 8, 15, 16, 23, 24, 30, 31, rng.randrange(32)])
            if op.startswith("assign"):
                w2 = rng.choice(BOUNDARY_WORDS + [rng.randrange(2 ** 32), cur ^ (1 << b)])
                steps.append("data = %08x" % w2)

                def f(w2=w2):
                    obj.data = w2.to_bytes(4, "big")
                    return obj.data.hex()
                kind, val = guarded(f)
                cur = w2
                want.append("%08x" % cur)
            elif op == "test":
                steps.append("is_bit_set(%d)" % b)
                kind, val = guarded(lambda: obj.is_bit_set(b))
                want.append(bool(cur >> b & 1))
            else:
                steps.append("%s_bit(%d)" % (op, b))
                kind, val = guarded(lambda: (obj.set_bit(b) if op == "set" else obj.unset_bit(b)).hex())
                isset = bool(cur >> b & 1)
                if (op == "set") == isset:
                    want.append("library error")
                else:
                    cur = cur ^ (1 << b)
                    want.append("%08x" % cur)
            trace.append(val if kind == "ok" else ("library error" if kind == "lib" else "exc:%s" % val))
        final = obj.data.hex()
        inp = {"op": "bit-sequence", "class": cls.__name__, "word": "%08x" % w, "steps": steps}
        chk.case(inp, kind="bit-sequence:" + tag)
        if trace != want or final != "%08x" % cur:
            k = next((i for i, (a, c) in enumerate(zip(trace, want)) if a != c), len(steps) - 1)
            chk.violation("after re-assigning the data of one AVP object a bit accessor does not speak of the data it now holds (step %d: %s)"
                          % (k, steps[k]), inp, {"results": want, "final": "%08x" % cur}, {"results": trace, "final": final})


def run(chk):
    rng = random.Random(chk.seed)
    changed, notes, funs = gen_pyfuns.generate()
    chk.tie_notes += notes
    chk.lean = core.lean_build(["BromeliaVerif.Properties.C20"])
    kinds = bromdict.classes_by_kind()
    u32 = kinds.get("Unsigned32", [])
    addr = [c for c in kinds.get("Address", []) if c.__name__ != "FramedIpAddressAVP"]
    tim = kinds.get("Time", [])
    if not u32 or not addr or not tim:
        raise core.HarnessError("dictionary lost all classes of a kind needed by C20")
    chk.rule = ("bits: every (word, index) over %d boundary words x %d indices (0..31 and out-of-range) exhaustively, plus "
                "seeded random 32-bit words x all indices, each through is_bit_set/set_bit/unset_bit on instances of all "
                "Unsigned32 dictionary classes in turn; addresses: IPv4 literals from boundary octets + random, malformed "
                "IPv4 literals, IPv6 literals in full/compressed/mapped forms + random, through every Address class; "
                "time: boundary instants (epoch, leap days, every month "
                "start and year end 1900..2036, last representable second and beyond) + random instants with microseconds. "
                "A case is the tuple shown in samples; duplicates are removed before counting." % (len(BOUNDARY_WORDS), len(INDICES)))
    chk.trusted += ["py2lean translation of Unsigned32Type.is_bit_set (re-proved equal to the hand model each run)",
                    "CPython ipaddress (text <-> packed for IPv6; IPv4 cross-checked by Model/Ipv4.lean), datetime subtraction",
                    "correspondence harness props/c20.py"]
    pairs = [(w, b) for w in BOUNDARY_WORDS for b in INDICES]
    n_rand = 600 if chk.tier == "quick" else 60000
    pairs += [(rng.randrange(2 ** 32), b) for _ in range(n_rand) for b in INDICES]
    explore_bits(chk, pairs, u32, rng, "sweep")
    explore_addr(chk, rng, 700 if chk.tier == "quick" else 70000, addr, "sweep")
    explore_time(chk, rng, 2000 if chk.tier == "quick" else 200000, tim, "sweep")
    explore_bit_sequences(chk, rng, 1500 if chk.tier == "quick" else 100000, u32, "sweep")
    # the encoding of a (naive) datetime must not depend on the time zone the process happens to run in
    import os
    import time as _time
    saved_tz = os.environ.get("TZ")
    try:
        for tz in ("EST5EDT,M3.2.0,M11.1.0", "XXX-5:30", "NZST-12NZDT,M9.5.0,M4.1.0/3"):
            os.environ["TZ"] = tz
            _time.tzset()
            explore_time(chk, rng, 100 if chk.tier == "quick" else 5000, tim, "tz=" + tz.split(",")[0])
    finally:
        if saved_tz is None:
            os.environ.pop("TZ", None)
        else:
            os.environ["TZ"] = saved_tz
        _time.tzset()
    chk.extra["exhaustive_domain"] = "boundary words x indices (bits); month starts / year ends 1900..2036 (time)"

    def search():
        more = [(rng.randrange(2 ** 32), b) for _ in range(4 * n_rand) for b in INDICES]
        explore_bits(chk, more, u32, rng, "search")
        explore_addr(chk, rng, 3000, addr, "search")
        explore_time(chk, rng, 8000, tim, "search")
        explore_bit_sequences(chk, rng, 20000, u32, "search")

    return chk.finish(search)


def replay(path):
    r = json.load(open(path))
    v = r.get("first")
    if not v:
        print("replay names broken obligations only:", json.dumps(r.get("broken_theorems"), indent=1)[:2000])
        return 0
    print("failing input:", json.dumps(v, indent=1))
    import bromelia.avps as A
    i = v["input"]
    cls = getattr(A, i["class"])
    if i["op"].startswith("bit-"):
        o = cls(i["word"])
        print("implementation now:", guarded(lambda: getattr(o, {"bit-test": "is_bit_set", "bit-set": "set_bit", "bit-unset": "unset_bit"}[i["op"]])(i["bit"])))
    elif i["op"] == "address":
        print("implementation now:", guarded(lambda: (cls(i["literal"]).data.hex(), cls(i["literal"]).get_ip_address())))
    elif i["op"] == "time":
        print("implementation now:", guarded(lambda: cls(datetime.datetime(*i["instant"], microsecond=i["microsecond"])).data.hex()))
    return 1
