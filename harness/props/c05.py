# -*- coding: utf-8 -*-
"""C05 — submitted messages are written to the socket exactly once, whole and in order.

The real Diameter node (client role) runs under the simulation scheduler: state-machine thread, transport thread and
receive worker are the library's own threads; 1..k application threads submit messages through Diameter.send_message;
the socket is a scripted FakeSock whose send() accepts plan-driven partial lengths and whose inbound side delivers
the CEA and further traffic (watchdog requests, application messages) while submissions are in flight. What reaches
the socket is compared with what was accepted by put_message_into_send_queue; the log of pipeline operations is
replayed on the Lean model (Model/Outbound.lean)."""
import json
import random
import types

import core
import sim as simlib

CFG = {"MODE": "CLIENT", "APPLICATIONS": [], "TRANSPORT_TYPE": "TCP", "LOCAL_NODE_HOSTNAME": "local.h", "LOCAL_NODE_REALM": "local.r",
       "LOCAL_NODE_IP_ADDRESS": "127.0.0.1", "LOCAL_NODE_PORT": 3868, "PEER_NODE_HOSTNAME": "peer.h", "PEER_NODE_REALM": "peer.r",
       "PEER_NODE_IP_ADDRESS": "127.0.0.2", "PEER_NODE_PORT": 3870, "WATCHDOG_TIMEOUT": 30}


def split_messages(stream):
    """cuts a byte string at Diameter message boundaries; returns (messages, rest)"""
    out, i = [], 0
    while len(stream) - i >= 20:
        ln = int.from_bytes(stream[i + 1:i + 4], "big")
        if ln < 20 or len(stream) - i < ln:
            break
        out.append(stream[i:i + ln])
        i += ln
    return out, stream[i:]


def scenario(seed, n_threads, per_thread, partial, inbound, lines, limit, sizes, close_end=False, sctp=False):
    import bromelia.transport as TR
    import bromelia.setup as ST
    import bromelia.statemachine as SM
    from bromelia.setup import Diameter
    from bromelia.base import DiameterMessage, DiameterRequest
    from bromelia.messages import CEA, DWR, DPA
    from bromelia.avps import UserNameAVP
    s = simlib.Sim(seed=seed, trace_files=("bromelia/transport.py", "bromelia/setup.py") if lines else (), max_steps=120000)
    s.keep_log = False
    rng = random.Random(seed * 7 + 1)
    log = []
    sock = (simlib.FakeSctpSock if sctp else simlib.FakeSock)(s, partial=(lambda n: rng.choice([1, 2, 3, 7, 19, 20, 21, n // 2 or 1, n, n, n])) if partial else None)
    sctp_mods = simlib.FakeSctpModules(lambda: sock)
    sctp_mods.__enter__()
    real_send = sock.send

    def logged_send(data):
        n = real_send(data)
        log.append(("w", n))
        return n
    sock.send = logged_send
    mods, undo = simlib.install(s, [TR, ST, SM], socket_factory=lambda *a: sock)
    saved_limit = ST.SEND_BUFFER_MAXIMUM_SIZE
    if limit:
        ST.SEND_BUFFER_MAXIMUM_SIZE = limit
    RealQueue = mods.queue.Queue
    queues = []

    class LQueue(RealQueue):
        def __init__(self, maxsize=0):
            RealQueue.__init__(self, maxsize)
            queues.append(self)

        def put(self, x, block=True, timeout=None):
            RealQueue.put(self, x, block, timeout)
            log.append(("put", id(self), x, x.dump() if hasattr(x, "dump") else None))
    mods.queue.Queue = LQueue
    # logging wrappers that delegate to the library's own methods
    orig_mask, orig_write, orig_read = TR.TcpConnection._set_selector_events_mask, TR.TcpConnection.write, TR.TcpConnection.read

    def mask(self, mode, msg=None):
        return orig_mask(self, mode, msg)

    def write(self):
        return orig_write(self)

    def read(self):
        log.append(("r",))
        return orig_read(self)

    # the hand-over buffer is watched at the moment it is written (under the transport lock): growth = a flushed batch
    # arriving, emptying = the transfer to the send buffer
    def _get_pending(self):
        return self.__dict__.get("_out_pending_value", b"")

    def _set_pending(self, v):
        old = self.__dict__.get("_out_pending_value", b"")
        if len(v) > len(old) and v[:len(old)] == old:
            log.append(("f", bytes(v[len(old):])))
        elif not v and old:
            log.append(("t",))
        elif v != old:
            log.append(("?", len(old), len(v)))
        self.__dict__["_out_pending_value"] = v
    TR.TcpConnection._out_pending = property(_get_pending, _set_pending)
    TR.TcpConnection._set_selector_events_mask, TR.TcpConnection.write, TR.TcpConnection.read = mask, write, read
    d = Diameter(config=dict(CFG, TRANSPORT_TYPE="SCTP" if sctp else "TCP"))
    submitted = {}
    last_e2e = {}
    done = []
    state = {"cea": False, "pending_in": [], "after": None}
    try:
        def starter():
            d.start()

        def submitter(t):
            def f():
                while not d.is_open():
                    mods.time.sleep(0.01)
                for j in range(per_thread):
                    r = DiameterRequest(command_code=316, application_id=16777251)
                    if j and rng.random() < 0.25:
                        # a retransmission-like request: the End-to-End identifier of this thread's previous request, new Hop-by-Hop
                        r.header.end_to_end = last_e2e[t]
                    last_e2e[t] = r.header.end_to_end
                    r.append(UserNameAVP("t%d-m%d-" % (t, j) + "x" * rng.choice(sizes)))
                    submitted.setdefault(t, []).append(r.dump())
                    d.send_message(r)
                done.append(t)
            return f
        s.spawn(starter, "starter")
        for t in range(n_threads):
            s.spawn(submitter(t), "A%d" % t)

        def pipeline_idle():
            a = d._association
            tr = a.transport if a is not None else None
            if a is None or tr is None:
                return False
            return (a._send_messages.empty() and not getattr(tr, "_out_pending", b"") and not tr._send_buffer and not tr.data_stream
                    and not any(k.data for k in tr.selector.map.values()))

        def until():
            if not state["cea"]:
                msgs, _rest = split_messages(sock.out)
                if msgs:
                    try:
                        cer = DiameterMessage.load(msgs[0])[0]
                    except BaseException as e:
                        if isinstance(e, (KeyboardInterrupt, SystemExit)):
                            raise
                        state["garbled"] = msgs[0][:60].hex()      # what the node wrote first is not a decodable message
                        return True
                    cea = CEA(origin_host="peer.h", origin_realm="peer.r", host_ip_address="127.0.0.2")
                    cea.header.hop_by_hop, cea.header.end_to_end = cer.header.hop_by_hop, cer.header.end_to_end
                    sock.inbox.append(cea.dump())
                    state["cea"] = True
                    for i in range(inbound):
                        if rng.random() < 0.5:
                            m = DWR(origin_host="peer.h", origin_realm="peer.r")
                        else:
                            m = DiameterRequest(command_code=316, application_id=16777251)
                            m.append(UserNameAVP("in%d" % i))
                        state["pending_in"].append(m.dump())
                    # watchdog requests first (they are answered, which hands a new batch over); the application requests, which
                    # cause no outbound traffic, last - so that a run can END with inbound data arriving in the middle of a write
                    state["pending_in"].sort(key=lambda b: b[5:8] != (280).to_bytes(3, "big"))
                return False
            _tr = d._association.transport if d._association is not None else None
            mid_write = _tr is not None and bool(_tr._send_buffer)          # a partial write has left a remainder
            # invariant of the hand-over (holds outside the transport lock): while bytes wait in the hand-over buffer or in the
            # send buffer, the socket is registered for write events - otherwise they sit there until some later submission
            # happens to re-arm it. Checked each time the transport thread is about to block in select().
            tt = next((t for t in s.tasks if t.name == "transport_layer_thread" and not t.done), None)
            if _tr is not None and tt is not None and isinstance(tt.label, tuple) and tt.label[:1] == ("select",) and not _tr._stop_threads:
                if tt.steps != state.get("sel_seen"):
                    state["sel_seen"] = tt.steps
                    pend = bool(_tr._send_buffer) or bool(getattr(_tr, "_out_pending", b""))
                    armed = any(k.events & 2 for k in _tr.selector.map.values())
                    state["unarmed"] = state.get("unarmed", 0) + 1 if (pend and not armed) else 0
                    if state["unarmed"] >= 3:
                        state["lost_interest"] = len(_tr._send_buffer) + len(getattr(_tr, "_out_pending", b""))
                        return True
            if state["pending_in"] and not sock.inbox and (rng.random() < 0.03 or (mid_write and rng.random() < 0.5)):
                sock.inbox.append(state["pending_in"].pop(0))
            if close_end and len(done) == n_threads:
                # every send_message() has returned: the application closes the node at once (whatever is still queued or in
                # flight); the peer answers the DPR once it has received it; the run ends when the node is Closed
                if not state.get("closing"):
                    state["closing"] = True
                    s.spawn(lambda: d.close(), "closer")
                if not state.get("dpa"):
                    for m in split_messages(sock.out)[0]:
                        if m[5:8] == (282).to_bytes(3, "big") and m[4] & 0x80:
                            dpa = DPA(origin_host="peer.h", origin_realm="peer.r")
                            dpa.header.hop_by_hop, dpa.header.end_to_end = m[12:16], m[16:20]
                            sock.inbox.append(dpa.dump())
                            state["dpa"] = True
                            break
                if d._association is None or d._association.transport is None or d.get_current_state() == "Closed":
                    state["closed_end"] = True
                    return True
                return False
            if len(done) == n_threads and not state["pending_in"] and not sock.inbox and not pipeline_idle():
                # liveness: everything has been submitted, nothing inbound is left, the (simulated) socket accepts any amount of
                # data - bytes held in a pipeline stage must keep moving
                if state.get("stall_from") is None or state.get("stall_out") != len(sock.out):
                    state["stall_from"], state["stall_out"] = s.steps, len(sock.out)
                elif s.steps - state["stall_from"] > 25000:
                    state["stalled"] = True
                    return True
            else:
                state["stall_from"] = None
            if len(done) == n_threads and not state["pending_in"] and not sock.inbox and pipeline_idle():
                # every stage empty for 600 consecutive scheduler steps (a batch may be in a local variable of the
                # state-machine thread between leaving the queue and reaching the hand-over buffer)
                if state["after"] is None:
                    state["after"] = s.steps
                if s.steps - state["after"] > 600:
                    return True
            else:
                state["after"] = None
            return False
        status = s.run(until=until)
        a = d._association
        accepted = [e[3] for e in log if e[0] == "put" and a is not None and e[1] == id(a._send_messages)]
        idle = pipeline_idle() or bool(state.get("closed_end"))
        excs = [(t.name, type(t.exc).__name__, str(t.exc)[:80]) for t in s.tasks if t.exc is not None]
        debug = {"queue_left": len(a._send_messages.queue) if a is not None else None, "state": d.get_current_state(),
                 "blocked": s.blocked()[:6], "tasks": [(t.name, t.done, t.label[:2] if isinstance(t.label, tuple) else t.label) for t in s.tasks]}
    finally:
        s.kill()
        undo()
        sctp_mods.__exit__()
        ST.SEND_BUFFER_MAXIMUM_SIZE = saved_limit
        TR.TcpConnection._set_selector_events_mask, TR.TcpConnection.write, TR.TcpConnection.read = orig_mask, orig_write, orig_read
        del TR.TcpConnection._out_pending
    return {"status": status, "out": sock.out, "accepted": accepted, "submitted": submitted, "log": log, "done": sorted(done), "idle": idle,
            "excs": excs, "debug": debug, "garbled": state.get("garbled"), "stalled": bool(state.get("stalled")), "closed_end": bool(state.get("closed_end")), "close_requested": bool(state.get("closing")), "lost_interest": state.get("lost_interest"), "schedule_len": len(s.choices), "steps": s.steps, "send_queue_id": id(a._send_messages) if a is not None else None}


def verdict(res, n_threads):
    """the statement on one run: the bytes on the socket are the accepted messages, each once, whole, per-submitter order"""
    if res.get("garbled"):
        return ("the first bytes the node wrote (its CER) are not a decodable message (torn or duplicated)", {"prefix": res["garbled"]})
    acc = list(res["accepted"])
    msgs, rest = split_messages(res["out"])
    if res.get("lost_interest"):
        return ("%d byte(s) wait in the transport's buffers while the socket is not registered for write events (select() entered three times "
                "in that state): they are not written until some later submission re-arms the socket" % res["lost_interest"],
                {"accepted": len(acc), "written_whole": len([m for m in acc if m in set(msgs)])})
    if res.get("stalled"):
        have0 = set(msgs)
        return ("submitted bytes stay in a pipeline stage for good although every sender has returned, nothing inbound is pending and the "
                "socket accepts data (never written)", {"accepted": len(acc), "written_whole": len([m for m in acc if m in have0]), "partial_tail": rest[:24].hex()})
    if res.get("close_requested") and not res.get("closed_end") and len(res["done"]) == n_threads:
        have0 = set(msgs)
        lost = [m for m in acc if m not in have0]
        if lost:
            return ("the node was closed right after the last send_message() returned: %d accepted message(s) were never written and the node "
                    "never reached Closed (stranded in the send queue)" % len(lost),
                    {"first_missing_prefix": lost[0][:40].hex(), "state": res["debug"].get("state"), "queue_left": res["debug"].get("queue_left")})
    if len(res["done"]) != n_threads:
        if res["excs"]:
            return ("a submitting thread raised", res["excs"][:3])
        return None                                     # inconclusive run (scheduler budget); counted, not a violation
    want = {}
    for m in acc:
        want[m] = want.get(m, 0) + 1
    have = {}
    for m in msgs:
        have[m] = have.get(m, 0) + 1
    for m, n in have.items():
        if m not in want:
            return ("bytes on the socket are not the encoding of any submitted message (torn or interleaved)", {"message_prefix": m[:40].hex()})
        if n > want[m]:
            return ("a submitted message was written %d times" % n, {"message_prefix": m[:40].hex(), "times": n})
    if rest and res["idle"]:
        return ("the socket holds a partial message although the pipeline is idle (torn)", {"tail": rest[:40].hex()})
    # per-submitter order
    for t, subs in res["submitted"].items():
        pos = [msgs.index(m) for m in subs if m in msgs]
        if pos != sorted(pos):
            return ("a submitter's messages were written out of its submission order", {"thread": t, "positions": pos})
    if res["idle"]:
        for t, subs in res["submitted"].items():
            lost = [m for m in subs if m not in have]
            if lost:
                return ("%d message(s) submitted by a thread (send_message returned normally) never reached the socket although every stage of the "
                        "pipeline is empty (lost)" % len(lost), {"thread": t, "first_missing_prefix": lost[0][:40].hex(), "accepted_by_queue": lost[0] in want})
        missing = [m for m in want if have.get(m, 0) < want[m]]
        if missing:
            return ("%d accepted message(s) never reached the socket although every stage of the pipeline is empty (lost)" % len(missing),
                    {"first_missing_prefix": missing[0][:40].hex(), "written": len(msgs), "accepted": len(acc)})
        if res["out"] != b"".join(acc) and all(len(v) <= 1 for v in [res["submitted"]]):
            pass
    return None


def to_model(res, limit):
    ids = {}
    acts = []
    sq = res["send_queue_id"]
    for ev in res["log"]:
        if ev[0] == "put" and ev[1] == sq:
            acts.append("s0.%d.%d" % ((len(ids) + 1) % 251, len(ev[3])))
            ids[len(ids)] = 1
        elif ev[0] == "f":
            acts.append("f%d" % limit)
        elif ev[0] == "t":
            acts.append("t")
        elif ev[0] == "w":
            acts.append("w%d" % ev[1])
        elif ev[0] == "r":
            acts.append("r")
    return acts


def explore(chk, rng, n, tag):
    import logging
    logging.disable(logging.CRITICAL)
    lines, meta = [], []
    for _ in range(n):
        if chk.saturated():
            break
        seed = rng.randrange(2 ** 30)
        n_threads = rng.choice([1, 2, 3])
        per_thread = rng.choice([1, 3, 6])
        partial = rng.random() < 0.6
        inbound = rng.choice([0, 0, 2, 5])
        lines_mode = rng.random() < 0.3
        small_limit = rng.random() < 0.4
        limit = rng.choice([150, 300, 700]) if small_limit else 0
        sizes = [0, 5, 40] if not small_limit else [0, 5, 40, 120, 260]
        close_end = rng.random() < 0.3
        sctp = rng.random() < 0.25            # the SCTP classes (SctpClient: sctp_send / sctp_recv) over a scripted pysctp socket
        res = scenario(seed, n_threads, per_thread, partial, inbound, lines_mode, limit, sizes, close_end, sctp)
        inp = {"op": "outbound", "seed": seed, "threads": n_threads, "per_thread": per_thread, "partial_writes": partial, "inbound_messages": inbound,
               "line_level": lines_mode, "batch_limit": limit or 262144, "sizes": sizes, "closed_right_after_submitting": close_end, "sctp": sctp}
        kind = "%s:%s%s%s%s" % (tag, "partial" if partial else "whole", ":inbound" if inbound else "", ":small-limit" if small_limit else "", ":sctp" if sctp else "")
        chk.case(inp, kind=kind)
        if len(res["done"]) != n_threads and not res["excs"]:
            chk.count("inconclusive:" + res["status"])
        v = verdict(res, n_threads)
        if v:
            chk.violation(v[0], inp, "socket bytes = accepted messages, each once, whole, per-submitter order", v[1])
        lines.append("outb " + " ".join(to_model(res, limit or 262144)))
        meta.append((inp, res))
    out = core.run_driver(lines)
    for (inp, res), o in zip(meta, out):
        # compare what the socket received: run-length form of the abstract bytes
        ids, parts = {}, []
        acc = res["accepted"]
        stream_model = o.split(" ")[0][len("written="):]
        pos, want = 0, []
        chk.traces_validated += 1
        total = sum(int(p.split("*")[1]) for p in stream_model.split(",")) if stream_model != "-" else 0
        if total != len(res["out"]):
            chk.corr_break("outbound-written-length", inp, len(res["out"]), total)
            continue
        # the model's written bytes are a prefix of the accepted concatenation by theorem; the implementation's must be the same prefix
        flat = b"".join(acc)
        if res["out"] != flat[:len(res["out"])]:
            chk.corr_break("outbound-written-bytes", inp, "differs from the accepted concatenation at byte %d" % next(
                (i for i, (x, y) in enumerate(zip(res["out"], flat)) if x != y), min(len(flat), len(res["out"]))), "prefix of accepted concatenation")


def run(chk):
    rng = random.Random(chk.seed)
    chk.lean = core.lean_build(["BromeliaVerif.Properties.C05"])
    chk.rule = ("the real client node under the simulation scheduler: 1..3 application threads submitting 1..6 messages each through "
                "Diameter.send_message while the library's state-machine, transport and receive threads run; socket send() accepting "
                "partial lengths {1,2,3,7,19,20,21,half,all}; inbound CEA plus 0..5 watchdog requests / application messages arriving "
                "during the submissions; batch limit as shipped or lowered to 150..700 bytes so that batching is exercised; seeded random "
                "schedules at synchronisation-operation granularity, 30% with hand-over before every source line of transport.py and "
                "setup.py. Socket bytes are cut at message boundaries and matched with the accepted messages (once, whole, order per "
                "submitter, none missing when every stage is empty); the log of queue/flush/transfer/write/read operations is "
                "replayed on the Lean model. distinct = distinct (seed, parameters).")
    chk.trusted += ["correspondence harness props/c05.py: scripted FakeSock and substituted selector, logging wrappers around "
                    "TcpConnection._set_selector_events_mask / write / read that delegate to the library's methods",
                    "simulation scheduler harness/sim.py (one thread at a time; timed waits fire by scheduler choice)",
                    "message bytes are abstracted to (number, length) in the model", "SCTP transport variants are not exercised"]
    quick = chk.tier == "quick"
    explore(chk, rng, 150 if quick else 2500, "sweep")

    def search():
        explore(chk, rng, 150, "search")

    return chk.finish(search)


def replay(path):
    """re-runs the stored scenario (same seed and parameters) on the current tree"""
    import logging
    logging.disable(logging.CRITICAL)
    r = json.load(open(path))
    v = r.get("first")
    if not v:
        print(json.dumps(r.get("broken_theorems") or r.get("correspondence_breaks"), indent=1, default=str)[:3000])
        return 0
    i = v["input"]
    limit = 0 if i["batch_limit"] == 262144 else i["batch_limit"]
    res = scenario(i["seed"], i["threads"], i["per_thread"], i["partial_writes"], i["inbound_messages"], i["line_level"], limit, i["sizes"], i.get("closed_right_after_submitting", False), i.get("sctp", False))
    now = verdict(res, i["threads"])
    print("scenario: %s" % json.dumps(i))
    print("recorded: %s" % v["what"])
    print("now     : %s" % (("VIOLATED: %s %s" % (now[0], json.dumps(now[1], default=str)[:300])) if now else "the statement holds on this run"))
    return 1 if now else 0
