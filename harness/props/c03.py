# -*- coding: utf-8 -*-
"""C03 — malformed input is rejected cleanly and never wedges the decoder or the node."""
import inspect
import json
import random
import signal
import sys

import core
import gen_dict
import bromgen
from props import c02


class Hang(BaseException):
    pass


def _alarm(signum, frame):
    raise Hang()


class LoopCounter:
    """counts iterations of the `while` loops of DiameterAVP.load / DiameterMessage.load via line events"""

    def __init__(self):
        from bromelia.base import DiameterAVP, DiameterMessage
        self.codes = {}
        for fn in (DiameterAVP.load, DiameterMessage.load):
            try:
                src, first = inspect.getsourcelines(fn)
            except (OSError, TypeError):
                continue
            lines = {first + i for i, l in enumerate(src) if l.strip().startswith("while ")}
            self.codes[fn.__code__] = lines
        self.n = 0
        self.limit = 0

    def local(self, frame, event, arg):
        if event == "line" and frame.f_lineno in self.codes[frame.f_code]:
            self.n += 1
            if self.n > self.limit:
                raise Hang()
        return self.local

    def glob(self, frame, event, arg):
        if frame.f_code in self.codes:
            return self.local
        return None


def run_load(fn, data, counter, canon):
    """returns (canonical result, loop iterations)"""
    import bromelia.exceptions as X
    counter.n = 0
    counter.limit = len(data) + 64
    signal.setitimer(signal.ITIMER_REAL, 2.0)
    sys.settrace(counter.glob)
    try:
        try:
            res = fn(data)
        finally:
            sys.settrace(None)
            signal.setitimer(signal.ITIMER_REAL, 0)
        return canon(res), counter.n
    except Hang:
        return "hang", counter.n
    except BaseException as e:
        sys.settrace(None)
        signal.setitimer(signal.ITIMER_REAL, 0)
        if isinstance(e, (KeyboardInterrupt, SystemExit)):
            raise
        if type(e).__module__ == X.__name__:
            return "err:lib", counter.n
        return "err:std:" + type(e).__name__, counter.n


def canon_model(s):
    if s.startswith("err:parsing") or s.startswith("err:lib"):
        return "err:lib"
    return s


def walk(wire):
    """offsets of (message start, [avp starts...]) of a well-formed wire image, for targeted corruption"""
    out, i = [], 0
    while i + 20 <= len(wire):
        ln = int.from_bytes(wire[i + 1:i + 4], "big")
        if ln < 20:
            break
        avps, j = [], i + 20
        while j + 8 <= i + ln:
            al = int.from_bytes(wire[j + 5:j + 8], "big")
            if al < 8:
                break
            avps.append(j)
            j += al + ((4 - al % 4) % 4)
        out.append((i, avps))
        i += ln
    return out


def mutations(rng, wire, budget):
    """systematic single-field corruptions + truncations + garbage of one well-formed stream"""
    out = []
    L = len(wire)
    for cut in (range(L) if L <= 120 else sorted(set(rng.randrange(L) for _ in range(60)) | set(range(0, 26)) | {L - 1, L - 2, L - 3, L - 4})):
        out.append(("trunc", wire[:cut]))
    for (mi, avps) in walk(wire):
        ml = int.from_bytes(wire[mi + 1:mi + 4], "big")
        for v in list(range(0, 25)) + [ml - 1, ml + 1, ml - 4, ml + 4, 2 ** 24 - 1, 2 ** 16, L, L + 1]:
            if 0 <= v < 2 ** 24:
                out.append(("msglen=%d" % v, wire[:mi + 1] + v.to_bytes(3, "big") + wire[mi + 4:]))
        for aj in avps[:6]:
            al = int.from_bytes(wire[aj + 5:aj + 8], "big")
            for v in [0, 1, 7, 8, 9, 11, 12, 13, al - 1, al + 1, al - 4, al + 4, al + 8, 2 ** 24 - 1, 2 ** 23]:
                if 0 <= v < 2 ** 24:
                    out.append(("avplen=%d" % v, wire[:aj + 5] + v.to_bytes(3, "big") + wire[aj + 8:]))
            for bit in (0x80, 0x40, 0x20, 0x01):
                out.append(("flagflip", wire[:aj + 4] + bytes([wire[aj + 4] ^ bit]) + wire[aj + 5:]))
            out.append(("codeflip", wire[:aj + 3] + bytes([wire[aj + 3] ^ 1]) + wire[aj + 4:]))
    for _ in range(6):
        if L:
            k = rng.randrange(L)
            out.append(("byteflip", wire[:k] + bytes([wire[k] ^ (1 << rng.randrange(8))]) + wire[k + 1:]))
    out.append(("append-zeros", wire + bytes(rng.choice([1, 4, 19, 20, 21]))))
    out.append(("append-garbage", wire + bytes(rng.randrange(256) for _ in range(rng.choice([1, 5, 20, 33])))))
    if len(out) > budget:
        keep = [m for m in out if m[0].startswith(("msglen", "avplen"))]
        rest = [m for m in out if not m[0].startswith(("msglen", "avplen"))]
        rng.shuffle(rest)
        rng.shuffle(keep)
        out = keep[: budget // 2] + rest[: budget - min(len(keep), budget // 2)]
    return out


def wrong_typed(g):
    """streams whose AVPs carry a known code with data outside the type's domain (generic descriptors)"""
    r = g.rng
    name = r.choice(g.names)
    row = g.rows[name]
    k = row["kind"]
    n = {"Unsigned32": [0, 1, 3, 5, 8], "Integer32": [0, 3, 5], "Enumerated": [0, 3, 4, 5, 8], "Unsigned64": [0, 4, 7, 9],
         "Time": [0, 3, 5, 8], "Address": [0, 1, 2, 3, 5, 6, 7, 17, 18, 19], "Grouped": [1, 3, 7, 8, 9, 12, 13],
         "DiameterURI": [0, 1, 5, 9, 30]}.get(k, [0, 1, 5])
    data = bytes(r.randrange(256) for _ in range(r.choice(n)))
    if k == "Address" and r.random() < 0.6:
        data = r.choice([b"\x00\x01", b"\x00\x02", b"\x00\x03", b"\x00\x00"]) + data
    if k == "DiameterURI":
        data = r.choice([b"aaa://", b"aaa://\xff\xfe", b"aaas://ab", b"\xc3\x28", b"aaa://host.example.com:0", b"http://x.y"]) + data
    if k == "Enumerated" and r.random() < 0.5:
        data = r.choice([0, 1, 2, 3, 255, 65536, 2 ** 32 - 1] + row["values"]).to_bytes(4, "big")
    return ["X", str(row["code"]), str(row["flags"]), "-" if row["vendor"] is None else str(row["vendor"]), data.hex() or "-"]


def typed_sweep(g):
    """every dictionary class x data variants inside and outside its type's domain (systematic)"""
    r = g.rng
    lines = []
    for name in g.names:
        row = g.rows[name]
        k = row["kind"]
        variants = [bytes(n) for n in (0, 1, 3, 4, 5, 7, 8, 9, 12)] + [bytes(r.randrange(256) for _ in range(n)) for n in (4, 8, 6, 18, 16)]
        if k == "Address":
            for fam in (b"\x00\x01", b"\x00\x02", b"\x00\x03", b"\x00\x00", b"\x01\x00"):
                for n in (0, 3, 4, 5, 15, 16, 17):
                    variants.append(fam + bytes(r.randrange(256) for _ in range(n)))
        if k == "DiameterURI":
            variants += [b"aaa://", b"aaa://\xff\xfe", b"aaas://ab", b"\xc3\x28", b"aaa://host.example.com:0", b"http://x.y",
                         b"aaa://host.example.com", b"aaa://host.example.com:3868;transport=tcp", b"aaa://h\nx.y", b"aaa://9.b.c",
                         b"aaa://host:49152", b"aaa://host:49151;protocol=radius", "aaa://épc.org".encode(), b"aaa://ab",
                         # long, nearly valid names that end in a character no pattern accepts: a pattern with nested
                         # repetition needs exponential time to give up on them
                         b"aaa://relay-node-01-frankfurt-de-prod-cluster-a-zone-b!", b"aaa://" + b"a-" * 24 + b"!",
                         b"aaa://" + b"a." * 28 + b"!", b"aaa://" + b"a" * 60 + b"!", b"aaas://" + b"ab-cd." * 10 + b"example!;transport=tcp",
                         b"aaa://host.example.com;transport=tcp ", b"aaa://host.example.com:70000", b"aaa://host.example.com\r\n",
                         b"aaa://host.example.com\x00", b"aaa://host.example.com;transport=tcp;protocol=diameter;x"]
        if k == "Enumerated":
            variants += [v.to_bytes(4, "big") for v in row["values"][:6]] + [b"\x00\x00\x00\x63", b"\xff\xff\xff\xff"]
        if k == "Grouped":
            variants += [bytes.fromhex("0000010a4000000c000028af"), bytes.fromhex("0000010a4000000c0000"), bytes.fromhex("0000010a40000007")]
        for d in variants:
            hdr = ["c02", "1", "1", "128", "316", "16777251", "1", "2", "1"]
            lines.append(" ".join(hdr + ["X", str(row["code"]), str(row["flags"]), "-" if row["vendor"] is None else str(row["vendor"]), d.hex() or "-"]))
    return lines


def explore(chk, g, n_seeds, per_seed, tag, sweep=False):
    from bromelia.base import DiameterAVP, DiameterMessage
    r = g.rng
    # 1. well-formed seeds from the Lean reference encoder (incl. wrong-typed known AVPs)
    lines = []
    for i in range(n_seeds):
        if i % 3 == 2:
            toks = ["c02", "1", "1", str(r.choice([0, 0x80, 0x40])), "316", "16777251", str(r.randrange(2 ** 32)), str(r.randrange(2 ** 32))]
            k = r.choice([1, 2, 3])
            body = []
            for _ in range(k):
                body += wrong_typed(g) if r.random() < 0.7 else g.tree(1)[1]
            lines.append(" ".join(toks + [str(k)] + body))
        else:
            lines.append(c02.gen_stream(g))
    seeds = []
    for res in core.run_driver(lines):
        if " ;; " in res:
            w = dict(p.split("=", 1) for p in res.split(" ;; ")[0].split(" "))["wire"]
            seeds.append(bytes.fromhex(w) if w != "-" else b"")
    # 2. mutations
    cases = []
    if sweep:
        for res in core.run_driver(typed_sweep(g)):
            if " ;; " in res:
                w = dict(p.split("=", 1) for p in res.split(" ;; ")[0].split(" "))["wire"]
                cases.append(("typed-data", bytes.fromhex(w)))
    for w in seeds:
        cases.append(("seed", w))
        cases += mutations(r, w, per_seed)
    for _ in range(n_seeds):
        cases.append(("garbage", bytes(r.randrange(256) for _ in range(r.choice([0, 1, 2, 3, 4, 5, 8, 19, 20, 21, 40, 100])))))
        cases.append(("zeros", bytes(r.choice([1, 4, 5, 19, 20, 24, 40, 64]))))
    if sweep:
        # deeply nested Grouped AVPs (Failed-AVP, code 279): the decoder recurses once per nesting level
        for depth in (10, 60, 150, 250, 320, 340, 400, 700, 1500, 4000):
            for code, flags in ((279, 0x40), (260, 0x40), (999999, 0x00)):
                inner = b""
                for _ in range(depth):
                    inner = code.to_bytes(4, "big") + bytes([flags]) + (8 + len(inner)).to_bytes(3, "big") + inner
                hdr = b"\x01" + (20 + len(inner)).to_bytes(3, "big") + b"\x80\x00\x01\x3c" + bytes(12)
                cases.append(("deep-nesting=%d" % depth, hdr + inner))
    seen, uniq = set(), []
    for kind, w in cases:
        if w not in seen:
            seen.add(w)
            uniq.append((kind, w))
    counter = LoopCounter()
    old = signal.signal(signal.SIGALRM, _alarm)
    try:
        # canonical text of nested Grouped AVPs is quadratic in the depth: very deep inputs go to the implementation
        # only (oracle: terminates, library error or messages); the model is compared up to depth 400
        def too_deep(kind):
            return kind.startswith("deep-nesting") and int(kind.split("=")[1]) > 400
        out_m = core.run_driver(["loadmsg %s" % ("-" if too_deep(k) else (w.hex() or "-")) for k, w in uniq])
        out_a = core.run_driver(["load %s" % ("-" if too_deep(k) else (w[20:].hex() or "-")) for k, w in uniq])
        for (kind, w), om, oa in zip(uniq, out_m, out_a):
            if chk.saturated(40):
                break                # a badly broken decoder: every further hang costs the full watchdog time
            for api, fn, data, model, can in (("DiameterMessage.load", DiameterMessage.load, w, om, c02.canon_msgs),
                                             ("DiameterAVP.load", DiameterAVP.load, w[20:], oa,
                                              lambda avps: c02.canon_msgs([]) [:0] + "ok " + " ".join(c02.canon_avp(a) for a in avps[:20000]))):
                impl, iters = run_load(fn, data, counter, can)
                if api == "DiameterAVP.load" and impl == "ok ":
                    impl = "ok "
                inp = {"op": api, "mutation": kind.split("=")[0], "hex": data.hex()}
                chk.case(inp, kind="%s:%s:%s" % (api.split(".")[0][8:], kind.split("=")[0], tag))
                m = canon_model(model.rstrip())
                i2 = impl.rstrip() if impl.startswith("ok") else impl
                if too_deep(kind):
                    chk.count("impl-only:deep-nesting")
                elif m == "unmodelled":
                    chk.count("unmodelled")
                elif kind.startswith("deep-nesting") and int(kind.split("=")[1]) > 100 and i2 == "err:lib" and m.startswith("ok"):
                    chk.count("depth-limit-reached")      # an implementation-defined nesting limit, reported as a library error
                elif i2 != m:
                    chk.corr_break(api, inp, i2[:300], m[:300])
                # oracle (specification): terminates within the bound, returns or raises a library error
                if impl == "hang":
                    chk.violation("decoder does not terminate within the step bound", inp, "terminates in <= len+64 loop iterations", "hang after %d iterations" % iters)
                elif impl.startswith("err:std"):
                    chk.violation("decoder leaks a non-library exception", inp, "library error or messages", impl)
                elif iters > 2 * (len(data) // 8) + 2 * (len(data) // 20) + 4:
                    # `while` tests executed: one per iteration plus the final failing test of each loop; loops = 1 per
                    # message and per Grouped node, iterations = objects <= len/8 AVPs + len/20 messages (theorem output_bounded)
                    chk.violation("decoder exceeds the step bound", inp, 2 * (len(data) // 8) + 2 * (len(data) // 20) + 4, iters)
                chk.count("outcome:" + (impl.split(" ")[0] if impl.startswith("ok") else impl.split(":")[0] + ":" + impl.split(":")[1] if ":" in impl else impl))
    finally:
        signal.signal(signal.SIGALRM, old)
    return uniq


class OneShotEvent:
    """stands for transport._recv_data_available: lets exactly one worker iteration run in the caller's thread"""

    def __init__(self, assoc):
        self.assoc = assoc

    def wait(self, timeout=None):
        return True

    def clear(self):
        self.assoc._stop_threads = True      # the `while` condition fails after this iteration

    def set(self):
        pass

    def is_set(self):
        return True


class FakeTransport:
    def __init__(self, assoc, data):
        import threading
        self._recv_data_stream = data
        self._recv_data_available = OneShotEvent(assoc)
        self.lock = threading.Lock()
        self.is_connected = True

    def __bool__(self):
        return True


def worker_iteration(data, carry=b""):
    """runs one iteration of DiameterAssociation.recv_message_from_queue on `data` with `carry` left over from the previous
    iteration; returns (alive, lock_held, carried afterwards, enqueued canon)"""
    from bromelia.setup import DiameterAssociation, Diameter
    from bromelia.config import Config
    assoc = worker_iteration.assoc
    if assoc is None:
        cfg = {"MODE": "CLIENT", "APPLICATIONS": [], "TRANSPORT_TYPE": "TCP", "LOCAL_NODE_HOSTNAME": "client.example",
               "LOCAL_NODE_REALM": "example", "LOCAL_NODE_IP_ADDRESS": "127.0.0.1", "LOCAL_NODE_PORT": 3868,
               "PEER_NODE_HOSTNAME": "server.example", "PEER_NODE_REALM": "example", "PEER_NODE_IP_ADDRESS": "127.0.0.1",
               "PEER_NODE_PORT": 3869, "WATCHDOG_TIMEOUT": 30}
        d = Diameter(config=cfg)
        worker_iteration.diam = d
    d = worker_iteration.diam
    assoc = DiameterAssociation(d._connection, d._base)
    assoc.transport = FakeTransport(assoc, data)
    assoc._stop_threads = False
    if carry:
        assoc._recv_partial_stream = carry
    alive = True
    signal.setitimer(signal.ITIMER_REAL, 2.0)
    try:
        try:
            assoc.recv_message_from_queue()
        finally:
            signal.setitimer(signal.ITIMER_REAL, 0)
    except Hang:
        return "hang", assoc.lock.locked(), b"", "-"
    except BaseException as e:
        if isinstance(e, (KeyboardInterrupt, SystemExit)):
            raise
        alive = "died:" + type(e).__name__
    msgs = []
    while not assoc._recv_messages.empty():
        msgs.append(assoc._recv_messages.get())
    return alive, assoc.lock.locked(), getattr(assoc, "_recv_partial_stream", b""), c02.canon_msgs(msgs) if msgs else "none"


worker_iteration.assoc = None


def explore_worker(chk, cases, tag):
    import logging
    logging.disable(logging.CRITICAL)
    # every byte string is handed over whole, and again cut in two at a position derived from its content (the first
    # part leaves a carry, the second iteration continues from it)
    jobs = []
    for kind, w in cases:
        jobs.append((kind, b"", w))
        if len(w) > 1:
            cut = (sum(w[:8]) % (len(w) - 1)) + 1
            jobs.append((kind + "+cut", None, (w[:cut], w[cut:])))
    old = signal.signal(signal.SIGALRM, _alarm)
    try:
        lines, runs = [], []
        hangs = 0
        for kind, carry, w in jobs:
            if hangs >= 10:
                break
            if carry is None:
                first, second = w
                a1, l1, c1, e1 = worker_iteration(first)
                lines.append("wstep - %s" % (first.hex() or "-"))
                runs.append((kind, first, b"", (a1, l1, c1, e1)))
                if a1 is True and not l1:
                    a2, l2, c2, e2 = worker_iteration(second, c1)
                    lines.append("wstep %s %s" % (c1.hex() or "-", second.hex() or "-"))
                    runs.append((kind, second, c1, (a2, l2, c2, e2)))
            else:
                lines.append("wstep - %s" % (w.hex() or "-"))
                runs.append((kind, w, b"", worker_iteration(w)))
            if runs and runs[-1][3][0] == "hang":
                hangs += 1
        out = core.run_driver(lines)
        for (kind, w, carry, (alive, locked, carry2, enq)), om in zip(runs, out):
            inp = {"op": "worker-iteration", "mutation": kind.split("=")[0], "carried": carry.hex(), "hex": w.hex()}
            chk.case(inp, kind="worker:%s:%s" % (kind.split("=")[0], tag))
            f = om.split(" ", 3)
            model = (f[0] == "1", f[1] == "1", f[2], f[3].rstrip() if len(f) > 3 else "none")
            impl = (alive is True, bool(locked), carry2.hex() or "-", enq.rstrip())
            deep = kind.startswith("deep-nesting") and int(kind.split("=")[1].split("+")[0]) > 100
            if deep and impl[:3] == model[:3] and impl[3] == "none" and model[3].startswith("ok"):
                chk.count("worker:depth-limit-reached")   # implementation-defined nesting limit: the stream is discarded as a library error
            elif impl != model:
                chk.corr_break("worker-iteration", inp, [str(x)[:200] for x in (alive, locked, carry2.hex(), enq)], [str(x)[:200] for x in model])
            if alive is not True or locked:
                chk.violation("receive worker does not survive malformed input / leaves the association lock held", inp,
                              "alive, lock released", "alive=%s lock_held=%s" % (alive, locked))
    finally:
        signal.signal(signal.SIGALRM, old)
        logging.disable(logging.NOTSET)


def explore_node(chk, cases, rng, tag):
    """live node: every byte string of the corpus that decodes is handed, message by message, to the real state machine in
    Open (one tick each): no input may make the tick raise. Plus the wedge test of the receive worker: garbage that cannot
    be framed (length field below 20) followed by a well-formed message in a later read - the message must still arrive."""
    import logging
    logging.disable(logging.CRITICAL)
    import psmdrv
    from props import c06
    from bromelia.base import DiameterMessage, DiameterAVP, DiameterHeader
    import bromelia.exceptions as X
    node = psmdrv.Node("server", 1)
    fac = c06.Factory("server", 1)
    cer, _tok, _sid = fac.loaded("cer.ok", 1, 2)

    def open_node():
        node.reset()
        node.inject(cer)
        node.tick()
        return type(node.psm.current_state).__name__ == "Open"

    # vendor-flagged twins of base AVPs (same code, V bit and a Vendor-ID): decode as generic AVPs under another name
    twins = []
    for code in (293, 283, 264, 296, 263, 268, 258):
        for with_dest in (False, True):
            hdr = DiameterHeader(flags=b"\xc0", command_code=(316).to_bytes(3, "big"), application_id=(16777251).to_bytes(4, "big"))
            m = DiameterMessage(hdr)
            if with_dest:
                from bromelia.avps import DestinationRealmAVP
                m.append(DestinationRealmAVP(psmdrv.LREALM))
            m.append(DiameterAVP(code=code, flags=0xC0, vendor_id=10415, data=b"local.example"))
            twins.append(("vendor-twin=%d" % code, m.dump()))
    # every base-protocol message with each of its AVPs replaced, one at a time, by a generic AVP of the same code that the
    # dictionary does not own (V bit + Vendor-ID) or by the dictionary's AVP with another legal value; data in and out of the
    # domain the validators expect. Each is ticked in Open and in the state that waits for that kind of message.
    from bromelia.avps import DisconnectCauseAVP, ResultCodeAVP, OriginStateIdAVP
    datas = [None, b"", b"\x00\x00\x00\x07", b"\xff\xff\xff\xff", b"\xff\xfe", b"x" * 300]
    for bkind in ("cer", "cea", "dwr", "dwa", "dpr", "dpa"):
        try:
            base_msgs = DiameterMessage.load(fac.build("%s.ok" % bkind, 5, 6))
        except BaseException:
            continue
        base = base_msgs[0]
        for i, a in enumerate(base.avps):
            for dv in datas:
                for fl, vid in ((0xC0, 10415), (0x80, 0), (0x40, None)):
                    if vid is None and dv is None:
                        continue
                    hdr = DiameterHeader(flags=base.header.flags, command_code=base.header.command_code,
                                         application_id=base.header.application_id)
                    m = DiameterMessage(hdr)
                    try:
                        for j, b in enumerate(base.avps):
                            if j != i:
                                m.append(b)
                            else:
                                kw = dict(code=int.from_bytes(a.code, "big"), flags=fl, data=a.data if dv is None else dv)
                                if vid is not None:
                                    kw["vendor_id"] = vid
                                m.append(DiameterAVP(**kw))
                        twins.append(("base-avp-twin=%s" % bkind, m.dump()))
                    except BaseException as e:
                        if isinstance(e, (KeyboardInterrupt, SystemExit)):
                            raise
        for extra in (DisconnectCauseAVP(b"\x00\x00\x00\x01"), DisconnectCauseAVP(b"\x00\x00\x00\x02"), ResultCodeAVP((5012).to_bytes(4, "big")),
                      ResultCodeAVP((3004).to_bytes(4, "big")), OriginStateIdAVP(0)):
            hdr = DiameterHeader(flags=base.header.flags, command_code=base.header.command_code, application_id=base.header.application_id)
            m = DiameterMessage(hdr)
            for b in base.avps:
                m.append(b)
            m.append(extra)
            twins.append(("base-extra-avp=%s" % bkind, m.dump()))

    cnode = psmdrv.Node("client", 1)

    def other_states(kind_name):
        """bring a node to the state that waits for this kind of message; returns the node or None"""
        if kind_name == "cer":
            node.reset()
            return node                                   # server, Closed
        if kind_name == "cea":
            cnode.reset()
            cnode.tick(); cnode.connect_ack(); cnode.tick()
            return cnode if type(cnode.psm.current_state).__name__ == "WaitInitiatorCEA" else None
        if kind_name == "dpa":
            if not open_node():
                return None
            node.local_stop(); node.tick()
            return node if type(node.psm.current_state).__name__ == "Closing" else None
        return None

    n_ticked = 0
    old_handler = signal.signal(signal.SIGALRM, _alarm)
    for kind, w in twins:
        bk = kind.split("=")[1] if kind.startswith("base-") else None
        if bk not in ("cer", "cea", "dpa") or chk.saturated(40):
            continue
        try:
            msgs = DiameterMessage.load(w)
        except BaseException as e:
            if isinstance(e, (KeyboardInterrupt, SystemExit)):
                raise
            continue
        nd = other_states(bk)
        if nd is None:
            raise core.HarnessError("could not bring a node to the state awaiting a %s" % bk)
        nd.inject(msgs[0])
        signal.setitimer(signal.ITIMER_REAL, 2.0)
        try:
            try:
                exc = nd.tick()
            finally:
                signal.setitimer(signal.ITIMER_REAL, 0)
        except Hang:
            exc = "Hang (no return within 2 s)"
        n_ticked += 1
        inp = {"op": "node-tick-awaiting", "awaiting": bk, "mutation": kind.split("=")[0], "hex": w.hex()[:600]}
        chk.case(inp, kind="node:%s-awaited:%s" % (kind.split("=")[0], tag))
        if exc not in (None, "stopped"):
            chk.violation("a decodable %s made the state machine raise %s in the state awaiting it (its thread would die)" % (bk.upper(), exc),
                          inp, "no exception", exc)
        if not nd.lock_free():
            chk.violation("a decodable message left the association lock held", inp, "lock released", "held")
    for kind, w in list(cases) + twins:
        if chk.saturated(40):
            break
        signal.setitimer(signal.ITIMER_REAL, 2.0)
        try:
            try:
                msgs = DiameterMessage.load(w)
            finally:
                signal.setitimer(signal.ITIMER_REAL, 0)
        except BaseException as e:
            if isinstance(e, (KeyboardInterrupt, SystemExit)):
                raise
            continue                     # rejected (or timed out: that is the decoder sweep's finding, not this one's)
        for m in msgs[:3]:
            if not open_node():
                raise core.HarnessError("could not bring the node to Open")
            node.inject(m)
            signal.setitimer(signal.ITIMER_REAL, 2.0)
            try:
                try:
                    exc = node.tick()
                finally:
                    signal.setitimer(signal.ITIMER_REAL, 0)
            except Hang:
                exc = "Hang (no return within 2 s)"
            n_ticked += 1
            inp = {"op": "node-tick-in-open", "mutation": kind.split("=")[0], "hex": w.hex()[:600]}
            chk.case(inp, kind="node:%s:%s" % (kind.split("=")[0], tag))
            if exc not in (None, "stopped"):
                chk.violation("a decodable message made the state machine raise %s (its thread would die, the node is wedged)" % exc,
                              inp, "no exception", exc)
            if not node.lock_free():
                chk.violation("a decodable message left the association lock held", inp, "lock released", "held")
    signal.signal(signal.SIGALRM, old_handler)
    chk.extra["node_ticks"] = chk.extra.get("node_ticks", 0) + n_ticked
    # answers to a local request, delivered once, twice, and with foreign identifiers: the node goes on answering watchdogs
    from bromelia.base import DiameterRequest
    from bromelia.avps import SessionIdAVP, OriginHostAVP
    for copies in (1, 2, 3):
        for variant in ("same-ids", "other-e2e", "other-hbh"):
            if not open_node():
                raise core.HarnessError("could not bring the node to Open")
            req = DiameterRequest(command_code=316, application_id=(16777251).to_bytes(4, "big"))
            req.header.hop_by_hop, req.header.end_to_end = (77).to_bytes(4, "big"), (88).to_bytes(4, "big")
            req.append(SessionIdAVP(b"s;3;4"))
            req.append(OriginHostAVP(psmdrv.LHOST))
            node.submit(req)
            node.tick()
            hbh, e2e = (77, 88) if variant == "same-ids" else ((77, 89) if variant == "other-e2e" else (78, 88))
            excs = []
            for _ in range(copies):
                ans, _t, _s = fac.loaded("app.ans", hbh, e2e)
                node.inject(ans)
                excs.append(node.tick())
            dwr, _t, _s = fac.loaded("dwr.ok", 5, 6)
            node.inject(dwr)
            excs.append(node.tick())
            out = [psmdrv.out_token(m) for m in node.take_emitted()]
            inp = {"op": "node-answers-to-local-request", "copies": copies, "variant": variant}
            chk.case(inp, kind="node:own-answers:%s" % tag)
            if any(e not in (None, "stopped") for e in excs) or "dwa:5:6" not in out:
                chk.violation("answers to a local request (repeated / with foreign identifiers) stopped the state machine", inp,
                              "no exception, the following watchdog request is answered", {"exceptions": excs, "written": out})
    # wedge test
    good = fac.wire("app.req-none", 5, 6)
    for ln in (0, 1, 19):
        for extra in (0, 7, 40):
            garbage = bytes([1]) + ln.to_bytes(3, "big") + bytes(rng.randrange(256) for _ in range(16 + extra))
            a1, l1, c1, e1 = worker_iteration(garbage)
            a2, l2, c2, e2 = worker_iteration(good, c1) if a1 is True else (a1, l1, c1, e1)
            a3, l3, c3, e3 = worker_iteration(good, c2) if (a2 is True and e2 == "none") else (a2, l2, c2, e2)
            inp = {"op": "worker-after-garbage", "garbage": garbage.hex(), "then": "a well-formed request, twice"}
            chk.case(inp, kind="worker:wedge:%s" % tag)
            if a3 is not True or l3 or (e2 == "none" and e3 == "none"):
                chk.violation("after unframeable garbage the receive worker never delivers well-formed messages again", inp,
                              "the request is enqueued by the next iterations", {"alive": a3, "lock": l3, "carried_bytes": len(c3), "enqueued": e3[:60]})


def run(chk):
    rng = random.Random(chk.seed)
    gen_dict.generate()
    import gen_split
    chk.tie_notes += gen_split.generate()[1]      # tie (a): split_data_stream translated to Gen/Split.lean on every run
    chk.lean = core.lean_build(["BromeliaVerif.Properties.C03", "BromeliaVerif.Properties.C04Gen"])
    g = bromgen.Gen(rng)
    g.build, g.flag_mode, g.override = False, "all", 0.3
    chk.rule = ("malformed corpus: well-formed streams from the Lean reference encoder (incl. known codes with wrong-width / "
                "out-of-domain data), each with every truncation point (all for <=120 bytes), the Message Length and each AVP "
                "Length set to 0..24, L+-1, L+-4, 2^24-1, flag/code bit flips, random byte flips, appended zeros/garbage; plus "
                "pure garbage and all-zero strings. Each distinct byte string goes through DiameterMessage.load and (without "
                "its first 20 bytes) DiameterAVP.load under a loop-iteration counter and a 2 s alarm. distinct = distinct "
                "(API, bytes).")
    chk.trusted += ["correspondence harness props/c03.py (watchdog: SIGALRM + line-event loop counter)",
                    "live part: one real receive-worker iteration per byte string (whole and cut in two), every decodable string "
                    "ticked message by message through the real state machine in Open (psmdrv), and the wedge test (garbage, then "
                    "well-formed data); threads and sockets themselves are C04/C08"]
    chk.assumptions += ["heap growth is bounded through the proven object-count bound (len/8 AVPs, len/20 messages); actual memory is not measured"]
    n_seeds = 60 if chk.tier == "quick" else 500
    uniq = explore(chk, g, n_seeds, 150, "sweep", sweep=True)
    # live part, receive worker: one real iteration of recv_message_from_queue per byte string (typed-data sweep,
    # seeds and a sample of the mutations), observing thread survival, lock state and what was enqueued
    sample = [c for c in uniq if c[0] in ("typed-data", "seed", "garbage", "zeros")]
    rest = [c for c in uniq if c[0] not in ("typed-data", "seed", "garbage", "zeros")]
    rng.shuffle(rest)
    explore_worker(chk, sample + rest[: (1500 if chk.tier == "quick" else 25000)], "sweep")
    explore_node(chk, sample + rest[: (600 if chk.tier == "quick" else 10000)], rng, "sweep")

    def search():
        explore(chk, g, 3 * n_seeds, 200, "search")

    return chk.finish(search)


def replay(path):
    from bromelia.base import DiameterAVP, DiameterMessage
    r = json.load(open(path))
    v = r.get("first")
    if not v:
        print(json.dumps(r.get("broken_theorems"), indent=1)[:3000])
        return 0
    data = bytes.fromhex(v["input"]["hex"])
    counter = LoopCounter()
    old = signal.signal(signal.SIGALRM, _alarm)
    fn = DiameterMessage.load if v["input"]["op"] == "DiameterMessage.load" else DiameterAVP.load
    impl, iters = run_load(fn, data, counter, lambda x: "ok")
    signal.signal(signal.SIGALRM, old)
    print("input=%s %s\nexpected=%s\nimplementation=%s (loop iterations %d)" % (v["input"]["op"], data.hex(), v["expected"], impl, iters))
    return 1 if (impl == "hang" or impl.startswith("err:std")) else 0
