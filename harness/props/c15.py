# -*- coding: utf-8 -*-
"""C15 — request identifiers are never reused within a process.

Sequential histories: requests of generic and typed classes, answers and explicit-header requests mixed, with
`os.urandom` (as seen by bromelia.base) replaced by scripted streams - low-entropy, adversarially repeating, boundary
values - compared with the Lean model (Model/Ident.lean) and checked for pairwise distinctness.
Concurrent histories: 2..3 threads create requests under the simulation scheduler (harness/sim.py) with a baton hand-over
before every source line of the two identifier methods; the registries are wrapped so that every membership test and
append is logged, the log is mapped to model actions (read / commit), replayed on the model and compared."""
import json
import random

import core
import sim as simlib


class Source:
    """scripted os.urandom(4)"""

    def __init__(self, values):
        self.values = list(values)
        self.used = 0
        self.log = None
        self.who = lambda: 0

    def urandom(self, n):
        if self.used >= len(self.values):
            raise core.HarnessError("scripted random source exhausted")
        v = self.values[self.used]
        self.used += 1
        if self.log is not None:
            self.log.append(("read", self.who(), v))
        return v.to_bytes(n, "big")


class LoggedList(list):
    """registry whose membership tests and appends are logged (thread, value)"""

    def __init__(self, log, who, tag):
        list.__init__(self)
        self.log, self.who, self.tag = log, who, tag

    def __contains__(self, x):
        r = list.__contains__(self, x)
        self.log.append(("test", self.who(), int.from_bytes(x, "big"), r, self.tag))
        return r

    def append(self, x):
        self.log.append(("append", self.who(), int.from_bytes(x, "big"), None, self.tag))
        list.append(self, x)


class Patch:
    """bromelia.base.os -> scripted source; fresh registries; restores everything on exit"""

    def __init__(self, src, log=None, who=None):
        self.src, self.log, self.who = src, log, who

    def __enter__(self):
        import types
        import os as real_os
        import bromelia.base as B
        self.B = B
        self.saved = (B.os, B.DiameterRequest.hop_by_hop_identifiers, B.DiameterRequest.end_to_end_identifiers)
        ns = types.SimpleNamespace(**{k: getattr(real_os, k) for k in dir(real_os) if not k.startswith("__")})
        ns.urandom = self.src.urandom
        B.os = ns
        if self.log is not None:
            self.src.log, self.src.who = self.log, self.who
            B.DiameterRequest.hop_by_hop_identifiers = LoggedList(self.log, self.who, "h")
            B.DiameterRequest.end_to_end_identifiers = LoggedList(self.log, self.who, "e")
        else:
            # empty registries of the library's own container type (whatever it is)
            import copy
            h, e = copy.copy(self.saved[1]), copy.copy(self.saved[2])
            h.clear()
            e.clear()
            B.DiameterRequest.hop_by_hop_identifiers, B.DiameterRequest.end_to_end_identifiers = h, e
        return self

    def __exit__(self, *a):
        B = self.B
        B.os, B.DiameterRequest.hop_by_hop_identifiers, B.DiameterRequest.end_to_end_identifiers = self.saved


def request_classes():
    from bromelia.base import DiameterRequest
    from bromelia.lib.ietf_rfc6733.messages import CapabilitiesExchangeRequest, DeviceWatchdogRequest, DisconnectPeerRequest
    from bromelia.lib.etsi_3gpp_s6a.messages import CancelLocationRequest
    return [("generic", lambda: DiameterRequest(command_code=316, application_id=16777251)),
            ("generic0", lambda: DiameterRequest()),
            ("cer", lambda: CapabilitiesExchangeRequest(origin_host="h", origin_realm="r", host_ip_address="127.0.0.1", vendor_id=0, product_name="p")),
            ("dwr", lambda: DeviceWatchdogRequest(origin_host="h", origin_realm="r")),
            ("dpr", lambda: DisconnectPeerRequest(origin_host="h", origin_realm="r")),
            ("clr", lambda: CancelLocationRequest(session_id=b"s;1;2", origin_host="h", origin_realm="r", destination_host="dh",
                                                  destination_realm="d", user_name="u"))]


def other_constructions():
    """constructions that must not consume or alter identifiers"""
    from bromelia.base import DiameterRequest, DiameterAnswer, DiameterHeader, DiameterMessage
    from bromelia.lib.ietf_rfc6733.messages import DeviceWatchdogAnswer
    hdr = lambda: DiameterHeader(command_code=316, application_id=16777251, hop_by_hop=(0x0A0B0C0D).to_bytes(4, "big"),
                                 end_to_end=(0x01020304).to_bytes(4, "big"))
    def hdr2(h, e):
        return lambda: DiameterRequest(header=DiameterHeader(command_code=316, application_id=16777251, hop_by_hop=h.to_bytes(4, "big"),
                                                              end_to_end=e.to_bytes(4, "big")))
    return [("explicit-header", lambda: DiameterRequest(header=hdr()), (0x0A0B0C0D, 0x01020304)),
            ("explicit-header-zero", hdr2(0, 0), (0, 0)), ("explicit-header-zero-hbh", hdr2(0, 5), (0, 5)),
            ("explicit-header-zero-e2e", hdr2(6, 0), (6, 0)), ("explicit-header-max", hdr2(2 ** 32 - 1, 2 ** 32 - 1), (2 ** 32 - 1, 2 ** 32 - 1)),
            ("answer", lambda: DiameterAnswer(command_code=316, application_id=16777251), None),
            ("typed-answer", lambda: DeviceWatchdogAnswer(origin_host="h", origin_realm="r", result_code=2001), None),
            ("message", lambda: DiameterMessage(DiameterHeader()), None)]


def make_source(rng, n):
    """n values from a chosen adversarial family, guaranteed to contain enough fresh values at the end"""
    fam = rng.choice(["const", "two", "small", "ramp", "boundary", "random", "replay"])
    if fam == "const":
        vals = [7] * n
    elif fam == "two":
        vals = [rng.choice([0, 2 ** 32 - 1]) for _ in range(n)]
    elif fam == "small":
        vals = [rng.randrange(4) for _ in range(n)]
    elif fam == "ramp":
        vals = [i // 3 for i in range(n)]
    elif fam == "boundary":
        vals = [rng.choice([0, 1, 255, 256, 2 ** 31, 2 ** 32 - 1, 2 ** 32 - 2]) for _ in range(n)]
    elif fam == "replay":
        base = [rng.randrange(2 ** 32) for _ in range(max(1, n // 4))]
        vals = [rng.choice(base) for _ in range(n)]
    else:
        vals = [rng.randrange(2 ** 32) for _ in range(n)]
    return fam, vals


def derived_history(chk, rng, n, tag):
    """what a node does with a request after creating it - answer it (an answer built on the request's own header), copy it,
    decode its wire form, serialise it - must not make its identifiers available again: after each such step the random source
    replays the identifiers of that request, and the next requests must still get different ones"""
    import copy
    from bromelia.base import DiameterRequest, DiameterAnswer, DiameterMessage, DiameterHeader
    from bromelia.avps import ResultCodeAVP
    classes = request_classes()
    steps = [("answer(header=request.header)", lambda r: DiameterAnswer(header=r.header)),
             ("answer(header=copy of request.header)", lambda r: DiameterAnswer(header=copy.deepcopy(r.header))),
             ("answer built field by field", lambda r: DiameterAnswer(command_code=r.header.command_code, application_id=r.header.application_id,
                                                                      hop_by_hop=r.header.hop_by_hop, end_to_end=r.header.end_to_end)),
             ("message(request.header)", lambda r: DiameterMessage(r.header)),
             ("request(header=request.header)", lambda r: DiameterRequest(header=r.header)),
             ("decode(request.dump())", lambda r: DiameterMessage.load(r.dump())),
             ("deepcopy(request)", lambda r: copy.deepcopy(r)),
             ("answer + append + dump", lambda r: (lambda a: (a.append(ResultCodeAVP((2001).to_bytes(4, "big"))), a.dump()))(DiameterAnswer(header=r.header)))]
    for _ in range(n):
        n_req = rng.choice([2, 3, 5, 8])
        vals = [rng.randrange(1, 2 ** 32) for _ in range(2 * n_req)] + [10 ** 6 + i for i in range(64)]
        src = Source(vals)
        made, ops, issued = [], [], []
        with Patch(src):
            for _i in range(n_req):
                name, f = rng.choice(classes)
                m = f()
                made.append(m)
                ops.append(name)
                issued.append((int.from_bytes(m.header.hop_by_hop, "big"), int.from_bytes(m.header.end_to_end, "big")))
            for _j in range(rng.choice([1, 2, 3])):
                k = rng.randrange(len(made))
                sname, sf = rng.choice(steps)
                try:
                    sf(made[k])
                except BaseException as e:
                    if isinstance(e, (KeyboardInterrupt, SystemExit)):
                        raise
                    sname += " (raised %s)" % type(e).__name__
                ops.append("%s on request #%d" % (sname, k))
                h, e2 = issued[k]
                src.values[src.used:src.used] = [h, e2, e2, h]          # the source repeats that request's identifiers
                name, f = rng.choice(classes)
                m = f()
                made.append(m)
                ops.append(name)
                issued.append((int.from_bytes(m.header.hop_by_hop, "big"), int.from_bytes(m.header.end_to_end, "big")))
        inp = {"op": "derived-history", "ops": ops, "issued": issued[:12]}
        chk.case(inp, kind="derived:%s" % tag)
        hs, es = [p[0] for p in issued], [p[1] for p in issued]
        if len(set(hs)) != len(hs):
            chk.violation("a Hop-by-Hop identifier was issued twice after its first holder had been answered / copied / decoded", inp, "pairwise distinct", hs)
        if len(set(es)) != len(es):
            chk.violation("an End-to-End identifier was issued twice after its first holder had been answered / copied / decoded", inp, "pairwise distinct", es)


def long_history(chk, n_between, tag):
    """an identifier issued long ago is still refused: n_between creations with fresh values, then the early values again"""
    from bromelia.base import DiameterRequest
    early = [11, 12, 13, 14]
    vals = early + list(range(1000, 1000 + 2 * n_between)) + early + [5 * 10 ** 6 + i for i in range(8)]
    src = Source(vals)
    issued = []
    with Patch(src):
        for _ in range(2 + n_between + 2):
            m = DiameterRequest(command_code=316, application_id=16777251)
            issued.append((int.from_bytes(m.header.hop_by_hop, "big"), int.from_bytes(m.header.end_to_end, "big")))
    inp = {"op": "long-history", "creations": len(issued), "source": "4 early values, %d fresh values, the 4 early values again, fresh values" % (2 * n_between)}
    chk.case(inp, kind="long:%s" % tag)
    hs, es = [p[0] for p in issued], [p[1] for p in issued]
    if len(set(hs)) != len(hs) or len(set(es)) != len(es):
        dup = next(x for x in hs + es if (hs + es).count(x) > 1 and (hs.count(x) > 1 or es.count(x) > 1))
        chk.violation("an identifier issued earlier in the process was issued again after many other requests", inp, "pairwise distinct",
                      {"identifier": dup, "first_at": (hs.index(dup) if dup in hs else es.index(dup)), "again_at": len(issued) - 1})
    out = core.run_driver(["ident %s %s" % (",".join(map(str, vals)), " ".join(["c"] * len(issued)))])[0]
    want = " ".join("done:%d:%d" % p for p in issued)
    if ("thr=" + want + " left=") not in out:
        chk.corr_break("long-identifier-history", inp, want[-200:], out[-300:])


def sequential(chk, rng, n_hist, tag):
    classes = request_classes()
    others = other_constructions()
    lines, meta = [], []
    for _ in range(n_hist):
        n_ops = rng.choice([3, 8, 20, 60])
        fam, vals = make_source(rng, 6 * n_ops)
        vals += [10 ** 6 + i for i in range(4 * n_ops)]          # fresh tail: every creation can finish
        src = Source(vals)
        ops, issued, acts, bad = [], [], [], []
        with Patch(src):
            for _i in range(n_ops):
                if rng.random() < 0.25:
                    name, f, expect = rng.choice(others)
                    before = src.used
                    m = f()
                    ops.append(name)
                    acts.append("x")
                    if src.used != before:
                        bad.append((name, "consumed %d value(s) of the random source" % (src.used - before)))
                    if expect is not None and (int.from_bytes(m.header.hop_by_hop, "big"), int.from_bytes(m.header.end_to_end, "big")) != expect:
                        bad.append((name, "explicit identifiers altered"))
                else:
                    name, f = rng.choice(classes)
                    m = f()
                    ops.append(name)
                    acts.append("c")
                    issued.append((int.from_bytes(m.header.hop_by_hop, "big"), int.from_bytes(m.header.end_to_end, "big")))
            import bromelia.base as B
            regs = ([int.from_bytes(x, "big") for x in B.DiameterRequest.hop_by_hop_identifiers],
                    [int.from_bytes(x, "big") for x in B.DiameterRequest.end_to_end_identifiers])
        lines.append("ident %s %s" % (",".join(map(str, vals)), " ".join(acts)))
        meta.append((fam, ops, issued, regs, src.used, len(vals), bad, vals))
    out = core.run_driver(lines)
    for (fam, ops, issued, regs, used, total, bad, vals), o in zip(meta, out):
        inp = {"op": "sequential", "source_family": fam, "source_prefix": vals[:24], "ops": ops[:40], "n_ops": len(ops)}
        chk.case(inp, kind="seq:%s:%s" % (fam, tag))
        csv = lambda l: ",".join(map(str, l)) or "-"
        impl = "hbh=%s e2e=%s thr=%s left=%d" % (csv(regs[0]), csv(regs[1]), " ".join("done:%d:%d" % p for p in issued), total - used)
        if impl != o:
            chk.corr_break("identifier-history", inp, impl[:400], o[:400])
        hs, es = [p[0] for p in issued], [p[1] for p in issued]
        if len(set(hs)) != len(hs):
            chk.violation("two requests of one process received the same Hop-by-Hop identifier", inp, "pairwise distinct", hs[:30])
        if len(set(es)) != len(es):
            chk.violation("two requests of one process received the same End-to-End identifier", inp, "pairwise distinct", es[:30])
        for name, what in bad:
            chk.violation("a construction without identifier assignment touched the identifiers: %s" % name, inp, "no effect", what)


# ------------------------------------------------------------------------------------------------ concurrent
TRACE_FUNCS = ("__set_hop_by_hop_identifier", "__set_end_to_end_identifier")


def concurrent_run(vals, n_threads, per_thread, chooser, seed=0, lines=True):
    """runs one schedule; returns dict(issued per thread, log, registries, schedule, status)"""
    import bromelia.base as B
    s = simlib.Sim(seed=seed, trace_files=("bromelia/base.py",) if lines else (), trace_funcs=TRACE_FUNCS, max_steps=20000, timeout_prob=0)
    s.keep_log = False
    s.spin_timeout = 8.0
    ns, _q, _t, _s = simlib.make_modules(s)
    log = []
    who = lambda: int(s.cur.name[1:]) if s.cur is not None else -1
    src = Source(vals)
    issued = {}
    lock_attr = [k for k, v in vars(B.DiameterRequest).items() if hasattr(v, "acquire") and hasattr(v, "release")]
    saved_locks = {k: getattr(B.DiameterRequest, k) for k in lock_attr}
    with Patch(src, log, who):
        for k in lock_attr:
            setattr(B.DiameterRequest, k, ns.Lock())
        try:
            def worker(i):
                def f():
                    for j in range(per_thread):
                        m = B.DiameterRequest(command_code=316, application_id=16777251)
                        issued.setdefault(i, []).append((int.from_bytes(m.header.hop_by_hop, "big"), int.from_bytes(m.header.end_to_end, "big")))
                return f
            for i in range(n_threads):
                s.spawn(worker(i), "T%d" % i)
            status = s.run(chooser=chooser)
            excs = [(t.name, type(t.exc).__name__) for t in s.tasks if t.exc is not None]
            regs = ([int.from_bytes(x, "big") for x in B.DiameterRequest.hop_by_hop_identifiers],
                    [int.from_bytes(x, "big") for x in B.DiameterRequest.end_to_end_identifiers])
        finally:
            s.kill()
            for k, v in saved_locks.items():
                setattr(B.DiameterRequest, k, v)
    return {"issued": issued, "log": log, "regs": regs, "schedule": list(s.choices), "fanout": list(s.fanout), "status": status,
            "excs": excs, "used": src.used}


def model_acts(log, n_threads, per_thread):
    """the logged registry operations as model actions: each creation is a model thread"""
    acts, cur, made = [], {}, {}
    nthr = 0
    for ev in log:
        kind, t = ev[0], ev[1]
        if t not in cur:
            cur[t] = nthr
            nthr += 1
            acts.append("n")
        if kind == "read":
            acts.append("s%d" % cur[t])
        elif kind == "test":
            if ev[3]:
                acts.append("s%d" % cur[t])            # commit finds the value registered: back to reading
        elif kind == "append":
            acts.append("s%d" % cur[t])
            if ev[4] == "e":
                made[t] = made.get(t, 0) + 1
                del cur[t]                              # this creation is complete; the thread's next one is a new model thread
    return acts


def check_concurrent(chk, res, vals, n_threads, per_thread, inp):
    hs = [p[0] for l in res["issued"].values() for p in l]
    es = [p[1] for l in res["issued"].values() for p in l]
    bad = None
    if res["status"] != "finished":
        bad = ("creating threads did not all finish (%s)" % res["status"], res["status"])
    elif res["excs"]:
        bad = ("a creating thread raised", res["excs"])
    elif len(set(hs)) != len(hs):
        bad = ("two concurrently created requests received the same Hop-by-Hop identifier", sorted(hs))
    elif len(set(es)) != len(es):
        bad = ("two concurrently created requests received the same End-to-End identifier", sorted(es))
    elif len(set(res["regs"][0])) != len(res["regs"][0]) or len(set(res["regs"][1])) != len(res["regs"][1]):
        bad = ("an identifier registry holds a value twice", res["regs"])
    if bad:
        chk.violation(bad[0], dict(inp, schedule=res["schedule"]), "pairwise distinct identifiers", bad[1])
    return bad


def concurrent(chk, rng, n_random, n_dfs, tag):
    lines, meta = [], []

    def record(res, vals, n_threads, per_thread, how):
        inp = {"op": "concurrent", "threads": n_threads, "requests_per_thread": per_thread, "source": vals[:64], "how": how,
               "schedule_len": len(res["schedule"])}
        chk.case(dict(inp, schedule=res["schedule"]), kind="conc:%s:%s" % (how, tag))
        bad = check_concurrent(chk, res, vals, n_threads, per_thread, inp)
        acts = model_acts(res["log"], n_threads, per_thread)
        lines.append("ident %s %s" % (",".join(map(str, vals)), " ".join(acts)))
        meta.append((inp, res))

    # systematic: two threads, one request each, colliding source; depth-first over all schedules (bounded)
    for vals in ([5, 5, 5, 5, 6, 6, 7, 7, 8, 9, 10, 11, 12, 13, 14, 15], [1, 2, 1, 2, 3, 3, 4, 4, 5, 6, 7, 8, 9, 10, 11, 12]):
        def run_one(prefix, vals=vals):
            res = concurrent_run(vals, 2, 1, simlib.replay_chooser(prefix))
            return res["fanout"], res
        count = 0
        for prefix, fanout, res in simlib.dfs(run_one, n_dfs):
            record(res, vals, 2, 1, "dfs")
            count += 1
            if chk.saturated():
                break
        chk.extra.setdefault("dfs", []).append({"source": vals[:8], "schedules": count, "complete": bool(getattr(simlib.dfs, "complete", False))})
    for _ in range(n_random):
        if chk.saturated():
            break
        n_threads = rng.choice([2, 2, 3])
        per_thread = rng.choice([1, 2])
        fam, vals = make_source(rng, 8)
        vals += [10 ** 6 + i for i in range(8 * n_threads * per_thread)]
        seed = rng.randrange(2 ** 30)
        how = rng.choice(["random", "pct"])
        r2 = random.Random(seed)
        chooser = simlib.pct_chooser(r2, 3, 120) if how == "pct" else None
        res = concurrent_run(vals, n_threads, per_thread, chooser, seed=seed)
        record(res, vals, n_threads, per_thread, how)
    out = core.run_driver(lines)
    for (inp, res), o in zip(meta, out):
        csv = lambda l: ",".join(map(str, l)) or "-"
        # the model numbers threads by first registry access; compare registries (order of registration) and the set of issued pairs
        want_h, want_e = "hbh=%s" % csv(res["regs"][0]), "e2e=%s" % csv(res["regs"][1])
        parts = o.split(" thr=")
        model_regs = parts[0]
        model_done = sorted(p for p in parts[1].split(" left=")[0].split() if p.startswith("done:")) if len(parts) > 1 else []
        impl_done = sorted("done:%d:%d" % p for l in res["issued"].values() for p in l)
        chk.traces_validated += 1
        if model_regs != "%s %s" % (want_h, want_e) or model_done != impl_done:
            chk.corr_break("concurrent-identifier-history", dict(inp, schedule=res["schedule"]),
                           "%s %s %s" % (want_h, want_e, impl_done), o[:300])


def run(chk):
    rng = random.Random(chk.seed)
    chk.lean = core.lean_build(["BromeliaVerif.Properties.C15"])
    chk.rule = ("sequential creation histories of 3..60 constructions (generic and typed request classes; answers, messages and "
                "explicit-header requests in between) over scripted random sources (constant, two-valued, tiny range, slow ramp, "
                "boundary values, replayed values, random) compared with the model and checked for distinctness; concurrent "
                "creation by 2..3 threads under the simulation scheduler with a hand-over before every source line of the two "
                "identifier methods: depth-first enumeration of schedules for two colliding sources (bounded) + seeded random and "
                "priority-based schedules; every membership test / append on the registries is logged, mapped to model actions "
                "and replayed on the model. distinct = distinct (history | schedule).")
    chk.trusted += ["correspondence harness props/c15.py: os.urandom rebound inside bromelia.base, registries replaced by logging lists, "
                    "the class-level lock replaced by the simulation's lock", "simulation scheduler harness/sim.py (one thread runs at a "
                    "time; hand-over at line granularity inside the two identifier methods only)",
                    "CPython's GIL semantics below line granularity are not modelled"]
    quick = chk.tier == "quick"
    sequential(chk, rng, 300 if quick else 6000, "sweep")
    long_history(chk, 4500 if quick else 70000, "sweep")
    derived_history(chk, rng, 300 if quick else 20000, "sweep")
    concurrent(chk, rng, 150 if quick else 4000, 400 if quick else 20000, "sweep")

    def search():
        sequential(chk, rng, 300, "search")
        concurrent(chk, rng, 600, 1500, "search")

    return chk.finish(search)


def replay(path):
    """re-runs a stored concurrent schedule on the current tree (sequential findings are printed: their input is the description)"""
    r = json.load(open(path))
    v = r.get("first")
    if not v:
        print(json.dumps(r.get("broken_theorems") or r.get("correspondence_breaks"), indent=1, default=str)[:3000])
        return 0
    i = v["input"]
    print("recorded: %s\n%s" % (v["what"], json.dumps(i, default=str)[:600]))
    if i.get("op") != "concurrent":
        return 1
    vals = list(i["source"]) + [10 ** 6 + k for k in range(64)]
    res = concurrent_run(vals, i["threads"], i["requests_per_thread"], simlib.replay_chooser(i["schedule"]))
    hs = [p[0] for l in res["issued"].values() for p in l]
    es = [p[1] for l in res["issued"].values() for p in l]
    bad = res["status"] != "finished" or len(set(hs)) != len(hs) or len(set(es)) != len(es)
    print("now     : status=%s hop-by-hop=%s end-to-end=%s" % (res["status"], hs, es))
    return 1 if bad else 0
