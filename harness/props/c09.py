# -*- coding: utf-8 -*-
"""C09 — typed command classes build exactly the command they name."""
import importlib
import copy
import json
import random

import core
import gen_dict
import gen_commands
import bromgen
from props import c02

FINDING_NOAPP = "C09-base-asa-raa-no-application-id"
FINDING_AAA = "C09-s6b-aaa-destination-realm"
APP_IDS = [16777251, 16777238, 16777236, 16777264, 16777265, 16777272, 4, 16777252, 1]


def guarded(f):
    import bromelia.exceptions as X
    try:
        return ("ok", f())
    except bromgen.FailedDump as e:
        return ("gen", e.args[0])
    except BaseException as e:
        if isinstance(e, (KeyboardInterrupt, SystemExit)):
            raise
        return ("lib" if type(e).__module__ == X.__name__ else "std", type(e).__name__)


def describe_obj(a):
    """descriptor of an existing AVP object by its fields (used for class defaults that are AVP objects)"""
    v = "-" if a.vendor_id is None else str(int.from_bytes(a.vendor_id, "big"))
    return ["X", str(a.get_code()), str(a.get_flags()), v, (a.data or b"").hex() or "-"]


def default_tokens(v, key2cls=None, g=None, key=None):
    from bromelia.base import DiameterAVP
    if v is None:
        return ["N"]
    if isinstance(v, list) and all(isinstance(x, DiameterAVP) for x in v):
        toks = ["L", str(len(v))]
        for x in v:
            toks += describe_obj(x)
        return toks
    if isinstance(v, DiameterAVP):
        return ["A"] + describe_obj(v)
    if isinstance(v, bytes):
        return ["P", "B", v.hex() or "-"]
    if isinstance(v, str):
        return ["P", "S", ",".join(str(ord(c)) for c in v) or "-"]
    if isinstance(v, bool):
        return ["P", "BOOL", "1" if v else "0"]
    if isinstance(v, int):
        return ["P", "I", str(v)]
    return ["P", "O"]


def gen_case(g, row, cls, mode):
    """-> (kwargs for the real constructor, [(key, tokens)] in the order _load sees them, expectation tag)"""
    r = g.rng
    key2cls = dict(row["optionals"])
    key2cls.update(dict(row["mandatory"]))
    mand = [k for k, _ in row["mandatory"]]
    kwargs, order = {}, []
    drop = None
    if mode == "missing":
        cands = [k for k in mand if k in row["params"]]
        if not cands:
            return None
        drop = r.choice(cands)
    failed = None
    scalars = []
    for p in row["params"]:
        default = row["defaults"][p]
        if p == drop:
            kwargs[p] = None
            order.append((p, ["N"]))
            continue
        cname = key2cls.get(p)
        if cname is None:
            # a declared parameter that is in neither table: None, or (sometimes) a ready-made AVP object
            if mode == "full" and r.random() < 0.15:
                o, t = g.generic(unknown_only=True)
                kwargs[p] = o
                order.append((p, ["A"] + t))
            else:
                order.append((p, default_tokens(default)))
            continue
        is_mand = p in mand
        present = is_mand or (mode in ("full",) and r.random() < 0.5) or (mode == "some" and r.random() < 0.15)
        if p == "session_id":
            present = True
        if not present:
            if default is not None and r.random() < 0.5:
                kwargs[p] = None                      # explicit None switches an optional default off
                order.append((p, ["N"]))
            else:
                order.append((p, default_tokens(default)))
            continue
        if p == row["app_param"]:
            a = r.choice(APP_IDS).to_bytes(4, "big")
            kwargs[p] = a
            order.append((p, ["P", "B", a.hex()]))
            continue
        crow = g.rows[cname]
        if is_mand and default is not None and p != "session_id" and r.random() < 0.3 and not isinstance(default, str):
            order.append((p, default_tokens(default)))   # keep the class's own default
            continue
        if crow["kind"] == "Grouped":
            gcls = g.classes[cname]
            members = list(gcls.mandatory.values())
            opts = list(gcls.optionals.values())
            r.shuffle(opts)
            members += opts[: r.choice([0, 0, 1, 2])]
            kids, ktoks = [], []
            for m in members:
                o, t = g.tree(1, m.__name__)
                kids.append(o)
                ktoks += t
            bad = [k for k in kids if isinstance(k, bromgen.Failed)]
            if bad:
                failed = bad[0]
            kwargs[p] = kids
            order.append((p, ["L", str(len(kids))] + ktoks))
        elif crow["kind"] == "sessionId":
            b = (g.rstr() + ";1;2;x").encode()
            kwargs[p] = b
            order.append((p, ["P", "B", b.hex() or "-"]))
        else:
            v, t = g.value(crow)
            kwargs[p] = v
            order.append((p, ["P"] + t))
            if not is_mand:
                scalars.append((cname, v, t))     # (a second AVP of a mandatory kind would be the caller breaking the statement)
    if mode == "full" and r.random() < 0.4:
        extras = []
        for i in range(r.choice([1, 2, 2, 3, 4])):
            tabled = {c for _, c in row["mandatory"]} | {c for _, c in row["optionals"]}
            free = [n for n in g.leaf_names if n not in tabled]
            u = r.random()
            if extras and u < 0.3:
                # a separate object EQUAL IN CONTENT to an earlier extra (a repeated Route-Record, Class, Proxy-Info ...)
                o0, t = r.choice(extras)
                o = copy.deepcopy(o0)
            elif scalars and u < 0.45:
                # ... or to the AVP built from a declared argument
                cname, v, vt = r.choice(scalars)
                o = bromgen.construct(lambda: g.classes[cname](v))
                t = ["D", cname, "-"] + vt
            else:
                o, t = g.generic(unknown_only=True) if r.random() < 0.5 else g.leaf(r.choice(free))
            if isinstance(o, bromgen.Failed):
                failed = o
            else:
                extras.append((o, t))
            k = "extra_%d" % i
            kwargs[k] = o
            order.append((k, ["A"] + t))
    return kwargs, order, drop, failed


def reference_by_name():
    return {r["name"]: r for r in gen_commands.reference()}


def clause_checks(chk, row, ref, m, order, inp, dictrows):
    """the statement's clauses read directly off the built object (specification = reference tables)"""
    from bromelia.base import DiameterAVP
    h = m.header
    app = None if h.application_id is None else h.get_application_id()
    finding = FINDING_NOAPP if (row["app"] is None and row["app_param"] is None) else None
    want_cmd = (ref or row)["cmd"]
    if h.get_command_code() != want_cmd:
        chk.violation("wrong command code", inp, want_cmd, h.get_command_code())
    if h.is_request() != row["is_request"]:
        chk.violation("R flag does not match the class kind", inp, row["is_request"], h.is_request())
    fixed = (ref or row)["app"]
    if fixed is not None and app != fixed:
        chk.violation("wrong Application-ID", inp, fixed, app)
    if app is None:
        chk.violation("Application-ID missing from the header (16-byte header, Message Length 4 too big)", inp, "an Application-ID", None, finding=finding)
    elif h.is_proxiable() != (app != 0):
        chk.violation("P flag does not follow the Application-ID", inp, app != 0, h.is_proxiable())
    # order + class of every AVP
    key2cls = dict(row["optionals"])
    key2cls.update(dict(row["mandatory"]))
    expect = []
    for k, toks in order:
        if toks[0] == "N":
            continue
        expect.append(key2cls.get(k, None))
    got = ["generic" if type(a) is DiameterAVP else type(a).__name__ for a in m.avps]
    exp = []
    for (k, toks), c in zip([(k, t) for k, t in order if t[0] != "N"], expect):
        if c is not None:
            exp.append(c)
        else:
            exp.append("generic" if toks[1] == "X" else toks[2])
    if got != exp:
        chk.violation("AVPs are not the arguments' classes in declaration order (extras last)", inp, exp, got)
    # every argument is carried by the AVP (Vendor-ID, code) the reviewed snapshot lists for its key
    refmap = {k: (v or 0, c) for k, v, c in (ref or {}).get("key_avps", [])}
    supplied = [(k, t) for k, t in order if t[0] != "N"]
    if len(supplied) == len(m.avps):
        for (k, _t), a in zip(supplied, m.avps):
            if k in refmap:
                have = (int.from_bytes(a.vendor_id, "big") if a.vendor_id else 0, int.from_bytes(a.code, "big"))
                if have != refmap[k]:
                    chk.violation("argument %r is not carried by the AVP published for it" % k, inp,
                                  {"vendor": refmap[k][0], "code": refmap[k][1]}, {"vendor": have[0], "code": have[1], "class": type(a).__name__})
    mk = (ref or {"mandatory_keys": [k for k, _ in row["mandatory"]]})["mandatory_keys"]
    for k in mk:
        c = key2cls.get(k)
        n = got.count(c)
        if n != 1:
            chk.violation("mandatory AVP not present exactly once", inp, {k: 1}, {k: n},
                          finding=FINDING_AAA if (row["name"] == "etsi_3gpp_s6b.AAAnswer" and k == "destination_realm") else None)
    ln = h.get_length()
    size = len(m.dump())
    if ln != size and app is not None:
        chk.violation("Message Length differs from the serialised size", inp, size, ln)


def explore(chk, g, rows, per_class, tag, clauses=True):
    from bromelia.base import DiameterMessage
    refs = reference_by_name()
    dictrows = g.rows
    lines, meta = [], []
    for row in rows:
        if not row["modelled"]:
            chk.tie_break("typed command class %s has a constructor shape the translator does not model" % row["name"])
            continue
        mod = importlib.import_module("bromelia.lib.%s.messages" % row["module"])
        cls = getattr(mod, row["cls"])
        modes = ["minimal", "missing"] + ["some", "full"] * per_class
        for mode in modes:
            case = gen_case(g, row, cls, mode)
            if case is None:
                continue
            kwargs, order, drop, failed = case
            res = ("gen", failed.err) if failed is not None else guarded(lambda: cls(**kwargs))
            if res[0] == "ok":
                m = res[1]
                app = "-" if m.header.application_id is None else str(m.header.get_application_id())
                hbh, e2e = m.header.get_hop_by_hop(), m.header.get_end_to_end()
            else:
                m = None
                app = str(row["app"]) if row["app"] is not None else "-"
                if row["app_param"] and isinstance(kwargs.get(row["app_param"]), bytes):
                    app = str(int.from_bytes(kwargs[row["app_param"]], "big"))
                hbh = e2e = 0
            line = "cmd %s %s %d %d %d %s" % (row["name"], app, hbh, e2e, len(order), " ".join(k + " " + " ".join(t) for k, t in order))
            lines.append(line)
            meta.append((row, mode, drop, res, m, order))
    out = core.run_driver(lines)
    for (row, mode, drop, res, m, order), line, o in zip(meta, lines, out):
        inp = {"op": "typed-command", "class": row["name"], "mode": mode, "args": line.split(" ", 6)[6] if line.count(" ") >= 6 else ""}
        chk.case(inp, kind="cmd:%s:%s" % (mode, tag))
        if o == "bad-desc":
            raise core.HarnessError("driver rejected descriptor: " + line[:300])
        model_part, spec = o.rsplit(" spec=", 1)
        model = model_part[len("model="):]
        if res[0] == "ok":
            impl = "%s len=%d n=%d" % (m.dump().hex(), m.header.get_length(), len(m.avps))
        elif res[0] == "gen":
            impl = res[1].replace("err:lib:", "err:lib:").split(":")[0] + ":" + res[1].split(":")[1] + " len=0 n=0" if res[1].startswith("err:lib") else "err:std len=0 n=0"
            impl = ("err:lib" if res[1].startswith("err:lib") else "err:std") + " len=0 n=0"
        else:
            impl = "err:%s len=0 n=0" % res[0]
        if model.startswith("unmodelled"):
            chk.count("unmodelled")
        elif impl != model:
            chk.corr_break("typed-command", inp, impl[:300], model[:300])
        if mode == "missing" and not clauses:
            continue
        if mode == "missing":
            if res[0] != "lib":
                chk.violation("omitting mandatory argument %r is not rejected with a library error" % drop, inp, "library error",
                              "%s" % (res[0] if res[0] != "ok" else "accepted"))
            continue
        if res[0] != "ok":
            if spec != "none":
                chk.violation("valid assignment of constructor arguments rejected", inp, spec[:120], "%s:%s" % res)
            continue
        if spec != "none" and m.dump().hex() != spec:
            chk.violation("built message is not the RFC 6733 encoding of its command and arguments", inp, spec[:400], m.dump().hex()[:400])
        if not clauses:
            continue
        clause_checks(chk, row, refs.get(row["name"]), m, order, inp, dictrows)
        if m.header.application_id is not None:
            # serialise / decode round trip
            wire = m.dump()
            back = c02.load_impl(wire)
            mine = c02.canon_msgs([m])
            if back != mine:
                chk.violation("built message does not survive a serialise/decode round trip", inp, mine[:300], back[:300])
    if not clauses:
        return
    # request/answer partner agreement (specification side, from the live classes)
    for row in rows:
        if row["partner"] is not None:
            p = rows[row["partner"]]
            inp = {"op": "partner", "class": row["name"], "partner": p["name"]}
            chk.case(inp, kind="partner")
            if p["cmd"] != row["cmd"] or (row["app"] is not None and p["app"] is not None and row["app"] != p["app"]):
                chk.violation("request and answer class disagree on command code / Application-ID", inp,
                              {"cmd": row["cmd"], "app": row["app"]}, {"cmd": p["cmd"], "app": p["app"]})
        ref = refs.get(row["name"])
        if ref is not None:
            same = (ref["cmd"], ref["app"], ref["app_param"], ref["is_request"], sorted(ref["mandatory_keys"])) == \
                   (row["cmd"], row["app"], row["app_param"], row["is_request"], sorted(k for k, _ in row["mandatory"]))
            if not same:
                chk.violation("typed command class differs from the published command (reference snapshot)",
                              {"op": "reference", "class": row["name"]}, ref,
                              {"cmd": row["cmd"], "app": row["app"], "app_param": row["app_param"], "mandatory_keys": sorted(k for k, _ in row["mandatory"])})
    for name in refs:
        if name not in {r["name"] for r in rows}:
            chk.violation("published typed command class disappeared", {"op": "reference", "class": name}, "present", "missing")


def run(chk):
    rng = random.Random(chk.seed)
    gen_dict.generate()
    changed, rows = gen_commands.generate()
    chk.lean = core.lean_build(["BromeliaVerif.Properties.C09"])
    g = bromgen.Gen(rng)
    g.override = 0.0
    g.generic_unknown_only = True     # known codes with foreign flags would only re-test the C02 known finding
    chk.rule = ("every typed command class x {minimal arguments, one mandatory argument omitted, random subsets of optional "
                "arguments with in-domain values from the class's own AVP tables (Grouped arguments as member lists), class "
                "defaults, explicit None, AVP objects in untabled parameters, extra keyword AVPs}; each built message compared "
                "with the model, with the reference encoding of (command header, arguments in declaration order), with the "
                "statement's clauses read off the object, and sent through a serialise/decode round trip. distinct = distinct "
                "(class, argument descriptor).")
    chk.trusted += ["gen_commands.py translator (constructor ast + inspect.signature) and reference/commands.json (reviewed snapshot)",
                    "correspondence harness props/c09.py + generators harness/bromgen.py; Session-Id arguments are passed as bytes (generation is C16)"]
    explore(chk, g, rows, 6 if chk.tier == "quick" else 150, "sweep")
    chk.extra["classes"] = len(rows)

    def search():
        explore(chk, g, rows, 12, "search")

    return chk.finish(search)


def replay(path):
    r = json.load(open(path))
    print(json.dumps(r.get("first") or r.get("broken_theorems"), indent=1)[:3000])
    return 1 if r.get("first") else 0
