# -*- coding: utf-8 -*-
"""C06 — the peer state machine follows RFC 6733 and opens only for the configured peer.
(C07 reuses the exploration of this module with its own monitor: props/c07.py.)

The real state classes of bromelia/statemachine.py are ticked one `run()` + `get_next_state()` at a time with a
substituted transport (harness/psmdrv.py); inbound messages go through the wire codec (dump -> DiameterMessage.load)
before they are put on the receive queue, exactly what the receive worker does. Every history is run on the
implementation and on the Lean model (Model/Psm.lean + Model/Process.lean, driver op `psm`); the per-step
observations must coincide (correspondence) and the implementation's trace must satisfy the clauses of the statement
(monitor below, written from the statement, not from the model)."""
import collections
import copy
import json
import random

import core
import psmdrv

STATE_NAMES = {"Closed": "closed", "WaitConnAck": "wait-conn-ack", "WaitInitiatorCEA": "wait-i-cea", "Open": "open",
               "WaitReturns": "wait-returns", "WaitConnAckElect": "wait-conn-ack-elect", "Closing": "closing"}


# ------------------------------------------------------------------------------------------------ message factory
class Factory:
    """inbound messages as the configured peer (and as impostors) would send them, passed through the wire codec"""

    def __init__(self, role, n_apps):
        from bromelia.setup import Diameter
        cfg = dict(psmdrv.CFG)
        cfg["MODE"] = "SERVER" if role == "client" else "CLIENT"
        cfg["LOCAL_NODE_HOSTNAME"], cfg["PEER_NODE_HOSTNAME"] = psmdrv.HOST, psmdrv.LHOST
        cfg["LOCAL_NODE_REALM"], cfg["PEER_NODE_REALM"] = psmdrv.REALM, psmdrv.LREALM
        cfg["LOCAL_NODE_IP_ADDRESS"], cfg["PEER_NODE_IP_ADDRESS"] = "127.0.0.2", "127.0.0.1"
        apps = [{"vendor_id": b"\x00\x00\x28\xaf", "app_id": b"\x01\x00\x00\x23"}, {"vendor_id": b"\x00\x00\x28\xaf", "app_id": b"\x01\x00\x00\x16"}]
        cfg["APPLICATIONS"] = apps[:n_apps]
        self.base = Diameter(config=cfg)._base
        self.cache = {}
        self.lcache = {}

    NAMES = ["cer", "cea", "dwr", "dwa", "dpr", "dpa"]
    BASE_VARIANTS = ["ok", "wronghost", "wrongrealm", "nohost", "pflag"]
    EXTRA = {"cer": ["exploit", "twoips", "novendor", "nonutf8", "v257", "twostate", "wronghost-state", "wrongrealm-state", "nohost-state",
                     "wronghost-extra"],
             "cea": ["norc", "rcflags", "exploit", "nonutf8", "wronghost-state", "wrongrealm-state", "wronghost-extra"],
             "dwr": ["twostate", "nonutf8"], "dwa": ["norc", "twostate"],
             "dpr": ["busy", "nonutf8"], "dpa": ["norc"]}
    APP = ["req-host-local", "req-host-other", "req-realm-local", "req-realm-other", "req-none", "req-both-other-realm-local", "ans",
           "req-nosid", "ans-nosid", "req-sid-nonutf8", "req-bare"]

    def all_names(self):
        out = []
        for n in self.NAMES:
            out += ["%s.%s" % (n, v) for v in self.BASE_VARIANTS + self.EXTRA[n]]
        return out + ["app.%s" % a for a in self.APP]

    def build(self, name, hbh, e2e):
        from bromelia.base import DiameterMessage, DiameterHeader, DiameterAVP
        from bromelia.avps import (OriginHostAVP, OriginRealmAVP, HostIpAddressAVP, ResultCodeAVP, OriginStateIdAVP, DisconnectCauseAVP,
                                   DestinationHostAVP, DestinationRealmAVP, SessionIdAVP, UserNameAVP)
        kind, var = name.split(".")
        if kind == "app":
            is_req = var.startswith("req")
            hdr = DiameterHeader(flags=bytes([0xC0 if is_req else 0x40]), command_code=(316).to_bytes(3, "big"),
                                 application_id=(16777251).to_bytes(4, "big"))
            avps = [SessionIdAVP(b"s;1;2"), OriginHostAVP(psmdrv.HOST), OriginRealmAVP(psmdrv.REALM)]
            if var in ("req-nosid", "ans-nosid"):
                avps = avps[1:]                          # an application message without a Session-Id AVP
            elif var == "req-sid-nonutf8":
                avps[0] = SessionIdAVP(b"caf\xe9;1;2")
            elif var == "req-bare":
                avps = []                                # a bare header
            if var == "req-host-local":
                avps += [DestinationHostAVP(psmdrv.LHOST), DestinationRealmAVP(psmdrv.LREALM)]
            elif var == "req-host-other":
                avps += [DestinationHostAVP("other.example"), DestinationRealmAVP(psmdrv.LREALM)]
            elif var == "req-realm-local":
                avps += [DestinationRealmAVP(psmdrv.LREALM)]
            elif var == "req-realm-other":
                avps += [DestinationRealmAVP("other.realm")]
            elif var == "req-both-other-realm-local":
                avps += [DestinationHostAVP("other.example"), DestinationRealmAVP("other.realm"), UserNameAVP(psmdrv.LREALM)]
            else:
                avps += [UserNameAVP("u")]
            if not is_req:
                avps.append(ResultCodeAVP((2001).to_bytes(4, "big")))
        else:
            tmpl = getattr(self.base, kind)
            hdr = DiameterHeader(flags=tmpl.header.flags, command_code=tmpl.header.command_code, application_id=tmpl.header.application_id)
            avps = [copy.deepcopy(a) for a in tmpl.avps]
            code = lambda a: int.from_bytes(a.code, "big")
            if var == "wronghost":
                avps = [OriginHostAVP("evil.example") if code(a) == 264 else a for a in avps]
            elif var == "wrongrealm":
                avps = [OriginRealmAVP("evil.realm") if code(a) == 296 else a for a in avps]
            elif var == "nohost":
                avps = [a for a in avps if code(a) != 264]
            elif var == "pflag":
                hdr.flags = bytes([hdr.flags[0] | 0x40])
            elif var == "exploit":
                # an impostor makes the count of recognised AVPs add up with a second Host-IP-Address
                avps = [OriginHostAVP("evil.example") if code(a) == 264 else a for a in avps] + [HostIpAddressAVP("10.6.6.6")]
            elif var == "wronghost-state":
                # an impostor adds an optional AVP the validation recognises
                avps = [OriginHostAVP("evil.example") if code(a) == 264 else a for a in avps] + [OriginStateIdAVP(7)]
            elif var == "wrongrealm-state":
                avps = [OriginRealmAVP("evil.realm") if code(a) == 296 else a for a in avps] + [OriginStateIdAVP(7)]
            elif var == "nohost-state":
                avps = [a for a in avps if code(a) != 264] + [OriginStateIdAVP(7)]
            elif var == "wronghost-extra":
                # ... or repeats every kind of AVP a capabilities exchange may carry
                avps = [OriginHostAVP("evil.example") if code(a) == 264 else a for a in avps] + [copy.deepcopy(a) for a in avps if code(a) != 264]
            elif var == "twoips":
                avps = avps + [HostIpAddressAVP("10.1.1.1")]
            elif var == "novendor":
                avps = [a for a in avps if code(a) != 266]
            elif var == "nonutf8":
                avps = [DiameterAVP(code=264, flags=0x40, data=b"\xff\xfe\xfd") if code(a) == 264 else a for a in avps]
            elif var == "v257":
                avps = avps + [DiameterAVP(code=257, flags=0xC0, vendor_id=10415, data=b"\x01")]
            elif var == "twostate":
                avps = avps + [OriginStateIdAVP(1), OriginStateIdAVP(2)]
            elif var == "norc":
                avps = [a for a in avps if code(a) != 268]
            elif var == "rcflags":
                avps = [DiameterAVP(code=268, flags=0x00, data=(2001).to_bytes(4, "big")) if code(a) == 268 else a for a in avps]
            elif var == "busy":
                avps = [DisconnectCauseAVP(b"\x00\x00\x00\x01") if code(a) == 273 else a for a in avps]
        hdr.hop_by_hop = hbh.to_bytes(4, "big")
        hdr.end_to_end = e2e.to_bytes(4, "big")
        m = DiameterMessage(hdr)
        for a in avps:
            m.append(a)
        return m.dump()

    def loaded(self, name, hbh, e2e):
        """the message as the receive worker would queue it (decoded from its wire form): a fresh shallow copy per
        injection (the state machine never writes to inbound messages), its driver token, its spec identity verdict"""
        from bromelia.base import DiameterMessage
        import bromelia.exceptions as X
        key = (name, hbh, e2e)
        if key not in self.lcache:
            try:
                msgs = DiameterMessage.load(self.wire(name, hbh, e2e))
            except (X.AVPParsingError, X.AVPAttributeValueError, X.DataTypeError):
                msgs = []
            if len(msgs) != 1:
                raise core.HarnessError("factory message %s did not decode to one message" % name)
            if len(self.lcache) > 20000:
                self.lcache.clear()
            self.lcache[key] = (msgs[0], psmdrv.msg_token(msgs[0]), spec_identity(msgs[0]))
        m, tok, sid = self.lcache[key]
        return copy.copy(m), tok, sid

    def classes(self):
        """name -> (kind, the model's validity verdict, addressing verdict): used only to merge states in the search"""
        if not hasattr(self, "_classes"):
            toks = {n: self.loaded(n, 11, 12)[1].split(":") for n in self.all_names()}
            lines = ["valid %s %s %s %s %s" % (t[1], psmdrv.HOST.encode().hex(), psmdrv.REALM.encode().hex(), t[2], t[6]) for t in toks.values()]
            out = core.run_driver(lines)
            self._classes = {}
            for (n, t), o in zip(toks.items(), out):
                b = t[3]
                ok = (b[2] == "1") if b[0] == "1" else ((b[3] == "1") if b[1] == "1" else True)
                self._classes[n] = "%s:%s:%d" % (t[1], o if t[1] not in ("req", "ans") else "-", ok if t[1] == "req" else 1)
        return self._classes

    def wire(self, name, hbh, e2e):
        key = (name, hbh, e2e)
        if key not in self.cache:
            self.cache[key] = self.build(name, hbh, e2e)
        return self.cache[key]


def spec_identity(m):
    """the statement's "configured peer identity": Origin-Host and Origin-Realm of the configured peer are present"""
    codes = {}
    for a in m.avps:
        codes.setdefault(int.from_bytes(a.code, "big"), []).append(a)
    oh = any(a.data == psmdrv.HOST.encode() and a.flags == b"\x40" for a in codes.get(264, []))
    orr = any(a.data == psmdrv.REALM.encode() and a.flags == b"\x40" for a in codes.get(296, []))
    return oh and orr


# ------------------------------------------------------------------------------------------------ running a history
NODES = {}
SEEN_CLAUSES = set()
Step = collections.namedtuple("Step", "ev obs exc pre_state pre_flags head consumed emitted delivered submit_exc lock_free emitted_msgs")


def run_impl(role, n_apps, events, factory, stop_on_exc=True):
    """returns (steps, driver tokens). A history ends at the first tick that raises (the real loop would be dead)."""
    from bromelia.base import DiameterMessage
    import bromelia.exceptions as X
    node = NODES.get((role, n_apps))
    node = node.reset() if node else NODES.setdefault((role, n_apps), psmdrv.Node(role, n_apps))
    steps, tokens = [], []
    ident = {}
    for ev in events:
        pre_state = STATE_NAMES[type(node.psm.current_state).__name__]
        pre_flags = node.flags()
        rq = node.recvq()
        head = rq[0] if rq else None
        exc = sub_exc = None
        tok = ev[0]
        if ev[0] == "t":
            exc = node.tick()
            if exc == "stopped":
                exc = None
        elif ev[0] == "i":
            m, tok, sid = factory.loaded(ev[1], ev[2], ev[3])
            node.inject(m)
            ident[id(m)] = (ev[1], ev[2], ev[3], sid, m)
        elif ev[0] == "a":
            node.connect_ack()
        elif ev[0] == "n":
            node.connect_nack()
        elif ev[0] == "s":
            node.local_stop()
        elif ev[0] == "d":
            node.peer_disconnect()
        elif ev[0] == "w":
            node.idle()
        elif ev[0] == "u":
            from bromelia.base import DiameterRequest
            from bromelia.avps import SessionIdAVP, OriginHostAVP
            req = DiameterRequest(command_code=316, application_id=(16777251).to_bytes(4, "big"))
            req.header.hop_by_hop = ev[1].to_bytes(4, "big")
            req.header.end_to_end = (ev[1] ^ 0x5A5A5A5A).to_bytes(4, "big")     # so that histories can answer it
            req.append(SessionIdAVP(b"s;3;4"))
            req.append(OriginHostAVP(psmdrv.LHOST))
            sub_exc = node.submit(req)
            tok = "u:%d" % ev[1]
        elif ev[0] == "r":
            node.restart()
        tokens.append(tok)
        try:
            emitted_msgs = node.take_emitted()
            emitted = [psmdrv.out_token(m) for m in emitted_msgs]
        except BaseException as e:
            emitted_msgs, emitted = [], ["undecodable:%s" % type(e).__name__]
        delivered_objs = node.take_delivered()
        delivered = [int.from_bytes(m.header.hop_by_hop, "big") for m in delivered_objs]
        rq2 = node.recvq()
        consumed = ident.get(id(head)) if (head is not None and (not rq2 or rq2[0] is not head)) else None
        st = STATE_NAMES[type(node.psm.current_state).__name__]
        obs = "%s/%d/%d/%s/%s/%d/%d" % (st, node.psm.is_running, node.released(), ",".join(emitted) or "-",
                                        ",".join(map(str, delivered)) or "-", len(rq2), len(node.sendq()))
        steps.append(Step(ev, obs, exc, pre_state, pre_flags, ident.get(id(head)), consumed, emitted, delivered, sub_exc, node.lock_free(), emitted_msgs))
        if exc and stop_on_exc:
            break
    cls = factory.classes()
    run_impl.last_key = (node.flags(), tuple(cls[ident[id(m)][0]] if id(m) in ident else "?" for m in node.recvq()), len(node.sendq()),
                         node.released() > 0)
    return steps, tokens


# ------------------------------------------------------------------------------------------------ the monitor
def monitor(role, steps):
    """clauses of the statement on one implementation trace; returns (clause, step index, detail) or None"""
    conn_cer_sent = False       # client: CER sent on this connection
    dpr_sent = 0
    stop_requested = False
    for i, s in enumerate(steps):
        post = s.obs.split("/")
        st, running, released = post[0], post[1] == "1", int(post[2])
        active, has_tr, connected, conn_ok, peer_gone, idle, _stop = s.pre_flags
        was_running = (steps[i - 1].obs.split("/")[1] == "1") if i else True
        if s.ev[0] == "r" and s.pre_state == "closed" and not was_running:
            conn_cer_sent, dpr_sent, stop_requested = False, 0, False
        if s.exc:
            return ("the state machine raised %s during a tick (its thread would die)" % s.exc, i, s.obs)
        if not s.lock_free:
            return ("the association lock is left held after the step (every later tick would block)", i, s.obs)
        if s.ev[0] != "t":
            if st != s.pre_state and s.ev[0] != "r":
                return ("the reported state changed without a tick", i, s.obs)
            if s.delivered:
                return ("a message was handed to the application outside a tick", i, s.obs)
            continue
        ticking = bool(steps[i - 1].obs.split("/")[1] == "1") if i else True
        if not ticking:
            if s.emitted or s.delivered or st != s.pre_state:
                return ("a stopped state machine acted", i, s.obs)
            continue
        if "cer" in s.emitted:
            conn_cer_sent = True
        dpr_sent += s.emitted.count("dpr")
        if dpr_sent > 1:
            return ("more than one DPR was sent on one connection", i, s.obs)
        # Open only after a capabilities exchange with the configured peer
        if st == "open" and s.pre_state != "open":
            c = s.consumed
            if role == "server":
                ok = (s.pre_state == "closed" and c is not None and c[0].startswith("cer.") and c[3]
                      and ("cea:%d:%d" % (c[1], c[2])) in s.emitted)
            else:
                ok = s.pre_state == "wait-i-cea" and c is not None and c[0].startswith("cea.") and c[3] and conn_cer_sent
            if not ok:
                return ("the connection became Open without a capabilities exchange with the configured peer", i,
                        {"consumed": c[:4] if c else None, "from": s.pre_state, "emitted": s.emitted})
        if st == "closing" and s.pre_state == "open" and "dpr" not in s.emitted:
            kind = s.consumed[0] if s.consumed else None
            if not (kind and kind.startswith("dwa.")):          # as implemented: an unacceptable DWA moves to Closing
                return ("Closing was entered without sending a DPR", i, s.obs)
        if s.pre_state == "open":
            if peer_gone:
                if st != "closed":
                    return ("a peer disconnect did not close the open connection", i, s.obs)
            elif not active:
                if st != "closing" or s.emitted.count("dpr") != 1:
                    return ("a local stop did not send one DPR and wait for the DPA (Closing)", i, {"obs": s.obs, "emitted": s.emitted})
            else:
                if idle and "dwr" not in s.emitted:
                    return ("an idle open connection did not emit a watchdog request", i, s.obs)
                if "dwr" in s.emitted and not idle:
                    return ("a watchdog request was emitted although the connection had not been idle for the timeout", i, s.obs)
                if "dwr" in s.emitted and i + 1 < len(steps) and steps[i + 1].pre_flags[5] and post[0] == "open":
                    # one watchdog request per idle period: emitting it starts a new period (otherwise one per tick)
                    return ("the watchdog request did not restart the idle period: the connection still counts as idle for the "
                            "full timeout right after it (a DWR on every tick)", i, {"obs": s.obs, "next_event": list(steps[i + 1].ev)})
                c = s.consumed
                if c and c[0] == "dpr.ok":
                    if st != "closed" or ("dpa:%d:%d" % (c[1], c[2])) not in s.emitted:
                        return ("a received DPR was not answered and the connection closed", i, {"obs": s.obs, "emitted": s.emitted})
                elif c and c[0].startswith("dpr.") and st != "closed":
                    return ("a received DPR did not close the connection", i, s.obs)
        if s.pre_state == "closing":
            if s.emitted:
                return ("something was written while waiting for the DPA", i, s.emitted)
            if peer_gone and st != "closed":
                return ("a peer disconnect did not close the closing connection", i, s.obs)
            if not peer_gone and s.consumed and s.consumed[0].startswith("dpa.") and st != "closed":
                return ("the DPA did not close the connection", i, s.obs)
            if not peer_gone and not (s.consumed and s.consumed[0].startswith("dpa.")) and st != "closing":
                return ("Closing was left without a DPA or a peer disconnect", i, s.obs)
        if s.pre_state == "wait-i-cea":
            if peer_gone and st != "closed":
                return ("a peer disconnect while awaiting the CEA did not close the connection", i, s.obs)
            if not peer_gone and s.consumed and not s.consumed[0].startswith("cea.") and st != "closed":
                return ("something other than a CEA while awaiting one did not close the connection", i,
                        {"consumed": s.consumed[:3], "state": st})
        if s.delivered:
            if s.pre_state != "open":
                return ("an application message was handed over while not Open", i, s.obs)
            c = s.consumed
            if not c or not c[0].startswith("app.") or s.delivered != [c[1]]:
                return ("what was handed to the application is not the application message just consumed", i,
                        {"consumed": c[:3] if c else None, "delivered": s.delivered})
            if c[0] in ("app.req-host-other", "app.req-realm-other", "app.req-both-other-realm-local"):
                return ("a request addressed to another node was handed to the application", i, c[:3])
        if st == "closed" and s.pre_state != "closed":
            if running or connected is False:
                pass
            if running:
                return ("Closed was reached but the state machine keeps running on the ended connection", i, s.obs)
            prev_rel = int(steps[i - 1].obs.split("/")[2]) if i else 0
            if released != prev_rel + 1:
                return ("Closed was reached without releasing the transport", i, s.obs)
        if not running and st != "closed":
            return ("the state machine stopped ticking outside Closed", i, s.obs)
    return None


# ------------------------------------------------------------------------------------------------ exploration
ENV_EVENTS = [("t",), ("a",), ("n",), ("s",), ("d",), ("w",), ("u", 77), ("r",)]


def describe(role, n_apps, events):
    return {"role": role, "n_apps": n_apps,
            "events": [" ".join(map(str, e)) for e in events]}


def compare(chk, role, n_apps, batch, factory, mon, tag):
    """batch: list of event lists. Runs impl + model, records cases, correspondence breaks and violations."""
    lines, runs = [], []
    for events in batch:
        steps, tokens = run_impl(role, n_apps, events, factory)
        runs.append((events, steps, run_impl.last_key))
        lines.append("psm %s %s %s %s" % ("c" if role == "client" else "s", psmdrv.HOST.encode().hex(), psmdrv.REALM.encode().hex(),
                                          " ".join(tokens)))
    out = core.run_driver(lines)
    for (events, steps, _key), o in zip(runs, out):
        inp = describe(role, n_apps, events)
        chk.case(inp, kind="%s:%s:len%d" % (tag, role, min(len(events) // 10 * 10, 100)))
        model = o.split("|")
        impl = [s.obs for s in steps]
        chk.traces_validated += 1
        if impl != model[:len(impl)] or (len(model) != len(impl) and not steps[-1].exc):
            k = next((i for i, (a, b) in enumerate(zip(impl, model)) if a != b), min(len(impl), len(model)))
            chk.corr_break("psm-trace", dict(inp, first_difference_at=k, event=" ".join(map(str, events[k])) if k < len(events) else None),
                           impl[k] if k < len(impl) else None, model[k] if k < len(model) else None)
        v = mon(role, steps)
        if v:
            if v[0] not in SEEN_CLAUSES:
                SEEN_CLAUSES.add(v[0])
                small = shrink(role, n_apps, events[:v[1] + 1], factory, mon)
                ssteps, _ = run_impl(role, n_apps, small, factory)
                v2 = mon(role, ssteps) or v
                inp2 = describe(role, n_apps, small)
                inp2["trace"] = [s.obs for s in ssteps]
                chk.violation(v2[0], dict(inp2, at_step=v2[1]), "the clause of the statement", v2[2])
            else:
                chk.violation(v[0], dict(inp, events=inp["events"][:v[1] + 1], at_step=v[1]), "the clause of the statement", v[2])
    return runs


def bfs(chk, role, n_apps, factory, mon, msg_names, max_states, max_depth, tag):
    """breadth-first over event sequences, deduplicated on the implementation's own abstract state; queue bounds 1/1"""
    start = ()
    seen = {}
    frontier = [start]
    depth = 0
    closed = False
    total = 0
    while frontier and depth < max_depth:
        batch, metas = [], []
        for path in frontier:
            for ev in ENV_EVENTS + [("i", n, 11, 12) for n in msg_names]:
                batch.append(list(path) + [ev])
        runs = compare(chk, role, n_apps, batch, factory, mon, tag)
        total += len(batch)
        nxt = []
        for events, steps, fkey in runs:
            if steps[-1].exc or len(steps) < len(events):
                continue
            last = steps[-1]
            post = last.obs.split("/")
            if int(post[5]) > 1 or int(post[6]) > 1:
                continue
            key = (post[0], post[1], post[5], post[6], fkey)
            if key in seen:
                continue
            seen[key] = len(events)
            nxt.append(tuple(events))
            if len(seen) >= max_states:
                break
        frontier = nxt
        depth += 1
        if len(seen) >= max_states:
            break
    closed = not frontier
    return {"states": len(seen), "depth": depth, "sequences": total, "closed": closed}


def random_history(rng, role, names, length):
    evs = []
    weights = [("t", 40), ("i", 30), ("a", 4), ("n", 1), ("s", 2), ("d", 2), ("w", 5), ("u", 6), ("r", 3)]
    bag = [k for k, w in weights for _ in range(w)]
    ids = [0, 1, 2 ** 32 - 1, 2 ** 31, 0xDEADBEEF]
    good = ["cer.ok", "cea.ok", "dwr.ok", "dwa.ok", "dpr.ok", "dpa.ok", "app.req-host-local", "app.req-none", "app.ans"]
    if role == "client":
        evs += [("t",), ("a",), ("t",)] if rng.random() < 0.8 else []
    for _ in range(length):
        k = rng.choice(bag)
        if k == "i":
            name = rng.choice(good) if rng.random() < 0.6 else rng.choice(names)
            evs.append(("i", name, rng.choice(ids) if rng.random() < 0.3 else rng.randrange(2 ** 32),
                        rng.choice(ids) if rng.random() < 0.3 else rng.randrange(2 ** 32)))
        elif k == "u":
            uid = rng.choice(ids[1:]) if rng.random() < 0.4 else rng.randrange(1, 2 ** 32)
            evs.append(("u", uid))
            if rng.random() < 0.5:
                # the peer answers the local request (identifiers of the request), possibly twice
                evs += [("t",), ("i", "app.ans", uid, uid ^ 0x5A5A5A5A), ("t",)]
                if rng.random() < 0.5:
                    evs += [("i", "app.ans", uid, uid ^ 0x5A5A5A5A), ("t",)]
        else:
            evs.append((k,))
    return evs


def shrink(role, n_apps, events, factory, mon):
    """drop events while the monitor still reports the same clause"""
    def verdict(evs):
        steps, _ = run_impl(role, n_apps, evs, factory)
        v = mon(role, steps)
        return v[0] if v else None
    want = verdict(events)
    if not want:
        return events
    cur = list(events)
    changed = True
    while changed:
        changed = False
        for i in range(len(cur) - 1, -1, -1):
            cand = cur[:i] + cur[i + 1:]
            if verdict(cand) == want:
                cur, changed = cand, True
    return cur


def explore(chk, rng, mon, tag, quick, prop="C06", gen=None, do_bfs=True):
    gen = gen or random_history
    import logging
    logging.disable(logging.CRITICAL)
    stats = {}
    for role in ("server", "client"):
        for n_apps in (1, 0, 2):
            factory = Factory(role, n_apps)
            names = factory.all_names()
            if n_apps == 1 and do_bfs:
                res = bfs(chk, role, n_apps, factory, mon, names, 400 if quick else 100000, 6 if quick else 40, "bfs")
                stats["bfs:%s" % role] = res
            n_walks = (60 if quick else 2500) if n_apps == 1 else (20 if quick else 600)
            batch = [gen(rng, role, names, rng.choice([8, 20, 50, 120])) for _ in range(n_walks)]
            compare(chk, role, n_apps, batch, factory, mon, "walk")
    chk.extra.setdefault("exploration", {}).update(stats)


def run(chk):
    rng = random.Random(chk.seed)
    import gen_psm
    chk.tie_notes += gen_psm.generate()[1]       # tie (a): statemachine.py translated to Gen/PsmGen.lean on every run
    chk.lean = core.lean_build(["BromeliaVerif.Properties.C06", "BromeliaVerif.Properties.C06Gen"])
    chk.rule = ("histories over {tick, connect ack/nack, local stop, peer disconnect, idle timeout, application submit, restart, inject m} "
                "with m from 41 wire messages (valid CER/CEA/DWR/DWA/DPR/DPA of the configured peer; wrong host, wrong realm, no "
                "Origin-Host, P flag, count-padding impostor, two Host-IP-Address, non-UTF-8 Origin-Host, vendor-flagged code 257, "
                "missing/zero-flag Result-Code, other Disconnect-Cause; application requests addressed by host/realm to this node, "
                "to another node, to nobody; application answers), both roles, 0..2 configured applications: breadth-first over all "
                "sequences, deduplicated on the implementation's state (queues <= 1), plus seeded random histories of 8..120 events "
                "with boundary identifiers. Each history runs on the real state classes and on the Lean model; per-step observations "
                "(state, running, releases, written, delivered, queue lengths) must coincide. distinct = distinct histories.")
    chk.trusted += ["correspondence harness props/c06.py + psmdrv.py: substituted transport (FakeTransport) and lock, time.sleep removed, "
                    "one run()+get_next_state() per tick instead of the thread loop; the abstraction of decoded messages to the model's "
                    "tokens (psmdrv.avp_token / msg_token)",
                    "the monitor of the statement's clauses (props/c06.py monitor) is Python, the theorems are about the Lean model; "
                    "they meet through the per-step correspondence",
                    "threads, sockets and timers are outside this check (C04/C05/C08)"]
    explore(chk, rng, monitor, "sweep", chk.tier == "quick")

    def search():
        explore(chk, rng, monitor, "search", True)

    return chk.finish(search)


def parse_events(strs):
    evs = []
    for e in strs:
        f = e.split()
        if f[0] == "i":
            evs.append(("i", f[1], int(f[2]), int(f[3])))
        elif f[0] == "u":
            evs.append(("u", int(f[1])))
        else:
            evs.append((f[0],))
    return evs


def replay(path, mon=None):
    """re-runs the stored history on the current tree: exit 1 if the statement is still violated"""
    import logging
    logging.disable(logging.CRITICAL)
    r = json.load(open(path))
    v = r.get("first")
    if not v:
        print(json.dumps(r.get("broken_theorems") or r.get("correspondence_breaks"), indent=1, default=str)[:4000])
        return 0
    inp = v["input"]
    role, n_apps, events = inp["role"], inp["n_apps"], parse_events(inp["events"])
    steps, _toks = run_impl(role, n_apps, events, Factory(role, n_apps))
    res = (mon or monitor)(role, steps)
    print("history (%s, %d applications): %s" % (role, n_apps, inp["events"]))
    print("trace now: %s" % [s.obs for s in steps])
    print("recorded : %s -> %s" % (v["what"], json.dumps(v["actual"], default=str)[:300]))
    print("now      : %s" % (("VIOLATED: %s at step %d: %s" % res) if res else "the statement holds on this history"))
    return 1 if res else 0
