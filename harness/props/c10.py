# -*- coding: utf-8 -*-
"""C10 — the AVP dictionary is unambiguous and every class enforces its declared type."""
import datetime
import ipaddress
import json
import random

import core
import gen_dict
import bromdict
import bromgen

FINDING_FLAGS = "C10-default-flags-297-299"
FLAG_DEVIATIONS = {(None, 297), (None, 299)}


def guarded(f):
    import bromelia.exceptions as X
    try:
        return ("ok", f())
    except BaseException as e:
        if isinstance(e, (KeyboardInterrupt, SystemExit)):
            raise
        return ("lib" if type(e).__module__ == X.__name__ else "std", type(e).__name__)


# --------------------------------------------------------------------------- table cross-reads (witness search)

def table_facts(chk, rows, g):
    """Python rendering of the Lean table facts: used to validate the translator against live instances and to
    name the concrete class when a `decide +kernel` obligation fails."""
    from bromelia.base import DiameterAVP
    ref = {r["name"]: r for r in gen_dict.reference()}
    by_key = {}
    for r in rows:
        inp = {"op": "table", "class": r["name"]}
        chk.case(inp, kind="table-row")
        cls = g.classes[r["name"]]
        # translator validation: a live instance must carry the generated code / vendor / flags
        if r["kind"] not in ("unmodelled",):
            try:
                o, _ = g.tree(1, r["name"])
            except Exception as e:      # generator cannot build it: reported as a broken tie
                o = None
                chk.tie_break("cannot instantiate %s with an in-domain value: %r" % (r["name"], e))
            if o is not None and not isinstance(o, bromgen.Failed):
                live = (o.get_code(), None if o.vendor_id is None else int.from_bytes(o.vendor_id, "big"), o.get_flags())
                if live != (r["code"], r["vendor"], r["flags"]):
                    chk.corr_break("translator-vs-live-instance", inp, live, (r["code"], r["vendor"], r["flags"]))
                # instance identity (specification): V flag <=> vendor-specific, dump carries code/vendor
                d = o.dump()
                vflag = bool(d[4] & 0x80)
                if vflag != (r["vendor"] is not None) or int.from_bytes(d[:4], "big") != r["code"] or \
                        (r["vendor"] is not None and int.from_bytes(d[8:12], "big") != r["vendor"]):
                    chk.violation("instance does not carry its class's code/vendor with a consistent V flag", inp,
                                  {"code": r["code"], "vendor": r["vendor"]}, d[:12].hex())
                # dispatch (specification): decoding the instance gives the same class back
                kind, back = guarded(lambda: DiameterAVP.load(d))
                if kind != "ok" or len(back) != 1 or type(back[0]) is not cls and \
                        (type(back[0]).code, type(back[0]).vendor_id) != (cls.code, cls.vendor_id):
                    chk.violation("decoding does not dispatch (vendor, code) to its class", inp, r["name"],
                                  "%s %s" % (kind, [type(b).__name__ for b in back] if kind == "ok" else back))
        if r["kind"] == "unmodelled":
            chk.tie_break("class %s has a constructor shape the translator does not model" % r["name"])
        key = (r["vendor"] or 0, r["code"])
        if key in by_key:
            o = by_key[key]
            same = all(o[k] == r[k] for k in ("code", "vendor", "flags", "kind", "values", "mandatory"))
            if not same:
                chk.violation("two different AVP definitions share a (Vendor-ID, code) pair", inp,
                              "one definition per (vendor, code)", {"a": o["name"], "b": r["name"], "key": key})
        by_key[key] = r
        rr = ref.get(r["name"])
        if rr is None:
            chk.count("class-not-in-reference")       # new classes are unconstrained
            continue
        pub = gen_dict.public_type(r)
        if (rr["vendor"], rr["code"], rr["type"]) != (r["vendor"], r["code"], pub):
            chk.violation("wire identity differs from the published dictionary (reference snapshot)", inp,
                          {k: rr[k] for k in ("vendor", "code", "type")}, {"vendor": r["vendor"], "code": r["code"], "type": pub})
        if rr["flags"] != r["flags"]:
            chk.violation("default flags differ from the published dictionary (reference snapshot)", inp, rr["flags"], r["flags"],
                          finding=FINDING_FLAGS if (r["vendor"], r["code"]) in FLAG_DEVIATIONS else None)
    names = {r["name"]: r for r in rows}
    for rr in ref.values():
        if rr["name"] not in names:
            chk.violation("published AVP class disappeared", {"op": "table", "class": rr["name"]}, "class present", "missing")
    for d in gen_dict.docs_rows():
        inp = {"op": "docs-row", "class": d["class"], "avp": d["avp"]}
        chk.case(inp, kind="docs-row")
        r = names.get(d["class"])
        if r is None or r["code"] != d["code"] or gen_dict.public_type(r) != d["type"]:
            chk.violation("docs/list-of-avps.md disagrees with the class", inp, {"code": d["code"], "type": d["type"]},
                          None if r is None else {"code": r["code"], "type": gen_dict.public_type(r)})


# --------------------------------------------------------------------------- constructors

def out_of_domain_values(rng, row):
    """(python value, descriptor tokens) candidates across all Python types, for any class"""
    vals = [
        (None, ["N"]), (1.5, ["F"]), (True, ["BOOL", "1"]), (False, ["BOOL", "0"]), ({"a": 1}, ["O"]), ((1, 2), ["O"]),
        (0, ["I", "0"]), (1, ["I", "1"]), (-1, ["I", "-1"]), (2 ** 32 - 1, ["I", str(2 ** 32 - 1)]), (2 ** 32, ["I", str(2 ** 32)]),
        (2 ** 63, ["I", str(2 ** 63)]), (2 ** 64 - 1, ["I", str(2 ** 64 - 1)]), (2 ** 64, ["I", str(2 ** 64)]), (-2 ** 63, ["I", str(-2 ** 63)]),
        (rng.randrange(2 ** 64), None),
        ("", ["S", "-"]), ("abcd", ["S", "97,98,99,100"]), ("12", ["S", "49,50"]), ("é", ["S", "233"]),
        (datetime.datetime(2021, 3, 4, 5, 6, 7), ["T", "2021", "3", "4", "5", "6", "7"]),
        (datetime.datetime(2040, 1, 1), ["T", "2040", "1", "1", "0", "0", "0"]),
    ]
    for n in (0, 1, 2, 3, 4, 5, 6, 7, 8, 9, 16, 18):
        b = bytes(rng.randrange(256) for _ in range(n))
        vals.append((b, ["B", b.hex() or "-"]))
    for fam in (b"\x00\x01", b"\x00\x02", b"\x00\x03", b"\x00\x00", b"\x01\x01"):
        for n in (0, 3, 4, 5, 15, 16, 17):          # every family against every width (right one, the other family's, off by one)
            b = fam + bytes(rng.randrange(256) for _ in range(n))
            vals.append((b, ["B", b.hex()]))
    for b in (b"\x00\x01\x0a\x00\x00\x01", b"\x00\x02" + bytes(16), b"\x00\x03\x0a\x00\x00\x01", b"\x00\x01\x0a", b"\x00\x00\x00\x01", b"\x00\x00\x00\x63"):
        vals.append((b, ["B", b.hex()]))
    out = []
    for v, t in vals:
        if t is None:
            t = ["I", str(v)]
        out.append((v, t))
    if row["kind"] == "DiameterURI":
        # URIs that are right up to some point: acceptance must look at the whole text (and at nothing but the text)
        base = "aaa://host.example.com"
        for u in (base, base + ";transport=tcp", base + ";transport=tcp ", " " + base, base + ":70000", base + ":3868", base + "\r\n",
                  base + "\x00", base + ";transport=tcp;protocol=diameter", base + ";transport=tcp;protocol=diameter;x=1",
                  base + ";transport=tcp;transport=sctp", base + "/path", "aaa://" + "h" * 70 + ".example.com", "aaa://host..example.com",
                  "AAA://host.example.com", base.upper()):
            out.append((u, ["S", ",".join(str(ord(c)) for c in u)]))
            out.append((u.encode(), ["B", u.encode().hex()]))
    # str values that are address literals: only meaningful (and only describable) for address kinds
    if row["kind"] in ("Address", "framedIp"):
        for lit in ("10.1.2.3", "255.255.255.255", "::1", "2001:db8::1", "::ffff:10.1.2.3"):
            ip = ipaddress.ip_address(lit)
            out.append((lit, ["IP", "4" if ip.version == 4 else "6", ip.packed.hex()]))
        for lit in ("1.2.3", "256.1.1.1", "01.2.3.4", "gg::1", "", "1.2.3.4 "):
            out.append((lit, ["BADIP"]))
        out = [(v, t) for v, t in out if not (isinstance(v, str) and t[0] == "S")]
    return out


def explore_constructors(chk, g, rows, per_class, tag):
    rng = g.rng
    lines, meta = [], []
    for r in rows:
        if r["kind"] in ("Grouped", "unmodelled"):
            continue
        cands = out_of_domain_values(rng, r)
        for _ in range(per_class):
            cands.append(g.value(r))            # in-domain values of the class's own kind
        for v, toks in cands:
            lines.append("construct %s %s" % (r["name"], " ".join(toks)))
            meta.append((r, v, toks))
    out = core.run_driver(lines)
    for (r, v, toks), res in zip(meta, out):
        f = dict(p.split("=", 1) for p in res.split(" "))
        cls = g.classes[r["name"]]
        kind, val = guarded(lambda: cls(v))
        inp = {"op": "construct", "class": r["name"], "value": " ".join(toks)}
        chk.case(inp, kind="construct:%s:%s" % (r["kind"], toks[0]))
        if kind == "ok":
            dk, data = guarded(lambda: (val.data or b"").hex() or "-")
            wk, wire = guarded(lambda: val.dump().hex())
            impl = "ok:" + str(data) if dk == "ok" and wk == "ok" else "err:std"      # an object that cannot be dumped is malformed
            malformed = not (dk == "ok" and wk == "ok")
        else:
            impl, malformed = "err:" + kind, False
        if f["model"] != "unmodelled" and impl != f["model"]:
            chk.corr_break("construct", inp, impl, f["model"])
        if f["model"] == "unmodelled":
            chk.count("construct-unmodelled")
        # specification: accepted => the data is the well-formed encoding of the value; in-domain => accepted
        if kind == "ok":
            if malformed:
                chk.violation("constructor accepted a value and built an AVP that cannot be serialised", inp, "exception", impl)
            elif f["spec"] == "none" and f["model"] != "unmodelled":
                chk.violation("constructor silently accepted an out-of-type value (malformed or empty AVP)", inp, "exception", impl)
            elif f["spec"] != "none" and impl != "ok:" + f["spec"]:
                chk.violation("constructed data is not the encoding of the value", inp, f["spec"], impl)
        elif f["spec"] != "none":
            chk.violation("in-domain value rejected", inp, f["spec"], impl)


def explore_grouped(chk, g, rows, tag):
    """Grouped classes: mandatory members enforced; non-AVP members and non-list values rejected"""
    lines, objs = [], []
    for r in rows:
        if r["kind"] != "Grouped":
            continue
        cls = g.classes[r["name"]]
        mand = list(cls.mandatory.values())
        # 1. all mandatory members present -> accepted (covered by C01 too); 2. each mandatory member missing in turn
        for drop in [None] + list(range(len(mand))):
            members = [m for i, m in enumerate(mand) if i != drop]
            kids, ktoks = [], []
            for m in members:
                o, t = g.tree(0, m.__name__)
                kids.append(o)
                ktoks += t
            bad = [k for k in kids if isinstance(k, bromgen.Failed)]
            objs.append((r, drop, bad[0].err if bad else guarded(lambda: cls(kids))))
            lines.append("enc G %s - %d %s" % (r["name"], len(kids), " ".join(ktoks)))
            # the same members handed over as wire data (the way the decoder builds the class): same verdict
            if not bad:
                data = b"".join(k.dump() for k in kids)
                objs.append((r, drop, guarded(lambda: cls(data))))
                lines.append("enc G %s - %d %s" % (r["name"], len(kids), " ".join(ktoks)))
        for v, name in ((None, "None"), (5, "int"), ("abc", "str"), ([1, 2], "list-of-int"), ({}, "dict")):
            kind, val = guarded(lambda: cls(v))
            inp = {"op": "construct-grouped", "class": r["name"], "value": name}
            chk.case(inp, kind="construct:Grouped:" + name)
            if kind == "ok":
                chk.violation("Grouped constructor silently accepted a non-AVP value", inp, "exception", "accepted")
    out = core.run_driver(lines)
    for (r, drop, res), line, o in zip(objs, lines, out):
        f = dict(p.split("=", 1) for p in o.split(" "))
        inp = {"op": "construct-grouped", "class": r["name"], "dropped_mandatory": drop, "desc": line[4:]}
        chk.case(inp, kind="construct:Grouped:%s" % ("complete" if drop is None else "missing-mandatory"))
        if isinstance(res, str):
            impl = res
        else:
            impl = (guarded(lambda: res[1].dump().hex())[1] if res[0] == "ok" else "err:" + res[0])
        model = f["model"] if not f["model"].startswith("err:lib") else "err:lib"
        model = "err:std" if model == "err:std" else model
        if impl != model:
            chk.corr_break("construct-grouped", inp, impl, model)
        if f["spec"] == "none" and not impl.startswith("err"):
            chk.violation("Grouped AVP built without a mandatory member", inp, "exception", impl)
        if f["spec"] != "none" and impl != f["spec"]:
            chk.violation("Grouped AVP with all mandatory members rejected or mis-encoded", inp, f["spec"], impl)


def late_registration(chk):
    """'... and any added later': a dictionary class defined after the decoder has already been used must be
    dispatched to as well (for an existing vendor, for no vendor, and for a new vendor)"""
    from bromelia.base import DiameterAVP
    from bromelia.types import OctetStringType, Unsigned32Type
    DiameterAVP.load(bytes.fromhex("0000010840000010686f73742e657861"))      # the decoder has been used

    def check(cls, wire):
        inp = {"op": "late-registration", "class": cls.__name__, "wire": wire}
        chk.case(inp, kind="late-registration")
        kind, back = guarded(lambda: DiameterAVP.load(bytes.fromhex(wire)))
        got = [type(b).__name__ for b in back] if kind == "ok" else "%s:%s" % (kind, back)
        if got != [cls.__name__]:
            chk.corr_break("late-registration", inp, got, [cls.__name__])
            chk.violation("a dictionary class added after the first decode is not dispatched to", inp, [cls.__name__], got)

    # each class is decoded right after its definition (a later definition must not be what makes it visible)
    class VerifLateOneAVP(DiameterAVP, OctetStringType):
        code = (61001).to_bytes(4, "big")
        vendor_id = None

        def __init__(self, data):
            DiameterAVP.__init__(self, VerifLateOneAVP.code)
            OctetStringType.__init__(self, data=data)

    check(VerifLateOneAVP, "0000ee490000000b616263" + "00")

    class VerifLateTwoAVP(DiameterAVP, Unsigned32Type):
        code = (61002).to_bytes(4, "big")
        vendor_id = (10415).to_bytes(4, "big")

        def __init__(self, data):
            DiameterAVP.__init__(self, VerifLateTwoAVP.code, VerifLateTwoAVP.vendor_id)
            DiameterAVP.set_vendor_id_bit(self, True)
            Unsigned32Type.__init__(self, data=data, vendor_id=VerifLateTwoAVP.vendor_id)

    check(VerifLateTwoAVP, "0000ee4a80000010000028af00000007")

    class VerifLateThreeAVP(DiameterAVP, OctetStringType):
        code = (61003).to_bytes(4, "big")
        vendor_id = (424242).to_bytes(4, "big")

        def __init__(self, data):
            DiameterAVP.__init__(self, VerifLateThreeAVP.code, VerifLateThreeAVP.vendor_id)
            DiameterAVP.set_vendor_id_bit(self, True)
            OctetStringType.__init__(self, data=data, vendor_id=VerifLateThreeAVP.vendor_id)

    check(VerifLateThreeAVP, "0000ee4b8000000e00067932" + "7879" + "0000")
    check(VerifLateOneAVP, "0000ee490000000b616263" + "00")


def run(chk):
    rng = random.Random(chk.seed)
    changed, rows = gen_dict.generate()
    chk.lean = core.lean_build(["BromeliaVerif.Properties.C10"])
    g = bromgen.Gen(rng)
    g.override = 0.0
    chk.rule = ("table: every dictionary class (live instance vs generated row, V flag, decode dispatch, uniqueness of (vendor, code), "
                "reference snapshot, docs rows); constructors: every non-Grouped class x ~45 Python values across all types (None, "
                "float, bool, dict, boundary/negative/huge ints, str, datetime, bytes of widths 0..18, address literals good and bad) "
                "+ in-domain values; every Grouped class complete and with each mandatory member dropped in turn, and with non-list / "
                "non-AVP values. distinct = distinct (class, value descriptor).")
    chk.trusted += ["Gen/Dictionary translator (validated here against a live instance of every class)",
                    "reference/dictionary.json (reviewed snapshot, see reference/README.md)",
                    "correspondence harness props/c10.py; CPython ipaddress/datetime/struct"]
    table_facts(chk, rows, g)
    explore_constructors(chk, g, rows, 6 if chk.tier == "quick" else 400, "sweep")
    explore_grouped(chk, g, rows, "sweep")
    late_registration(chk)          # last: it adds classes to this process
    chk.extra["classes"] = len(rows)

    def search():
        explore_constructors(chk, g, rows, 40, "search")

    return chk.finish(search)


def replay(path):
    r = json.load(open(path))
    print(json.dumps(r.get("first") or r.get("broken_theorems"), indent=1)[:3000])
    return 1 if r.get("first") else 0
