# -*- coding: utf-8 -*-
"""C16 — generated Session-Ids are unique for the life of the process and well-formed."""
import datetime as real_datetime
import json
import random
import re

import core


class Clock:
    """scripted clock standing in for the `datetime` module inside bromelia._internal_utils"""

    def __init__(self):
        self.now = real_datetime.datetime(2023, 5, 6, 7, 8, 9)
        outer = self

        class FakeDT(real_datetime.datetime):
            @classmethod
            def utcnow(cls):
                return outer.now

            @classmethod
            def now(cls, tz=None):
                return outer.now
        self.datetime = FakeDT
        self.timedelta = real_datetime.timedelta

    def advance(self, seconds):
        self.now = self.now + real_datetime.timedelta(seconds=seconds)


def render_model(identity, init, low):
    return "%s;%d;%d;bromelia" % (identity, init, low)


FORM = re.compile(r"^(?P<id>.*);(?P<high>\d+);(?P<low>\d+)(;.*)?$", re.S)


def run_history(rng, n_ops, identities, clock):
    """returns (ops, generated strings in order, driver-independent model prediction)"""
    import bromelia._internal_utils as IU
    from bromelia.avps import SessionIdAVP, AcctMultiSessionIdAVP, OriginHostAVP, OriginRealmAVP
    from bromelia.base import DiameterMessage, DiameterHeader
    from bromelia.lib.ietf_rfc6733.messages import SessionTerminationRequest, SessionTerminationAnswer
    SH = IU.SessionHandler
    init0, id0 = SH.init, SH.id
    gen, ops, model = [], [], []
    low = id0
    msgs = []           # messages holding a generated Session-Id (for bulk updates)
    for _ in range(n_ops):
        if rng.random() < 0.25:
            clock.advance(rng.choice([0, 0, 0, 1, 2, 3600]))
        kind = rng.choice(["sid", "sid", "multi", "typed", "bulk", "bulk", "bytes", "bulk-same", "node", "jump", "bulk-both", "bulk-both"])
        if kind == "node":
            # building other library objects in the same process (a node, its configuration) must not disturb the counter
            from bromelia.setup import Diameter
            import psmdrv
            Diameter(config=dict(psmdrv.CFG, MODE="CLIENT"))
            ops.append(("node", "-"))
            continue
        if kind == "jump":
            # as if a long history had passed: the counter stands just below a 32-bit boundary (it only ever moves forward)
            target = rng.choice([2 ** 32 - 3, 2 ** 32 - 1, 2 ** 31 - 2, 2 ** 33 - 2])
            if SH.id < target:
                SH.id = target
                low = target
            ops.append(("jump", str(SH.id)))
            continue
        ident = rng.choice(identities)
        if kind == "sid":
            d = SessionIdAVP(ident).data.decode()
        elif kind == "multi":
            d = AcctMultiSessionIdAVP(ident).data.decode()
        elif kind == "typed":
            cls = rng.choice([SessionTerminationRequest, SessionTerminationAnswer])
            m = cls(session_id=ident, origin_host=ident, origin_realm="r")
            d = m.session_id_avp.data.decode()
            msgs.append((m, ident))
        elif kind in ("bulk", "bulk-same"):
            if not msgs:
                m = DiameterMessage(DiameterHeader())
                m.append(SessionIdAVP(b"fixed;1;1"))
                m.append(OriginHostAVP("fixed"))
                msgs.append((m, "fixed"))
            i = rng.randrange(len(msgs))
            m, prev = msgs[i]
            ident = prev if kind == "bulk-same" else ident
            m.update_avps({"origin_host": ident})
            d = m.session_id_avp.data.decode()
            msgs[i] = (m, ident)
            if m.header.get_length() != len(m.dump()):
                gen.append(("LENGTH", ident, "Message Length %d != size %d after bulk update" % (m.header.get_length(), len(m.dump()))))
        elif kind == "bulk-both":
            # a bulk update that names the Session-Id as well as the origin, in either key order: the Session-Id given wins
            if not msgs:
                m = DiameterMessage(DiameterHeader())
                m.append(SessionIdAVP(b"fixed;1;1"))
                m.append(OriginHostAVP("fixed"))
                msgs.append((m, "fixed"))
            i = rng.randrange(len(msgs))
            m, prev = msgs[i]
            ident2 = rng.choice(identities)
            as_bytes = rng.random() < 0.5
            sidval = (ident2 + ";5;5").encode() if as_bytes else ident2
            upd = {"session_id": sidval, "origin_host": ident}
            if rng.random() < 0.5:
                upd = dict(reversed(list(upd.items())))
            m.update_avps(upd)
            msgs[i] = (m, ident)
            if m.header.get_length() != len(m.dump()):
                gen.append(("LENGTH", ident, "Message Length %d != size %d after bulk update" % (m.header.get_length(), len(m.dump()))))
            if as_bytes:
                ops.append(("bulk-both-bytes:" + ",".join(upd), ident2))
                if m.session_id_avp.data != sidval:
                    gen.append(("BYTES", ident2 + ";5;5 (bulk update, keys %s)" % ",".join(upd), m.session_id_avp.data))
                continue
            ident = ident2
            kind = "bulk-both:" + ",".join(upd)
            d = m.session_id_avp.data.decode()
        else:
            raw = (ident + ";7;7").encode()
            d2 = SessionIdAVP(raw).data
            ops.append(("bytes", ident))
            if d2 != raw:
                gen.append(("BYTES", ident, d2))
            continue
        low += 1
        ops.append((kind, ident))
        gen.append((kind, ident, d))
        model.append(render_model(ident, init0, low))
    return ops, gen, model


def explore(chk, rng, n_hist, tag):
    import bromelia._internal_utils as IU
    clock = Clock()
    saved = IU.datetime
    IU.datetime = clock
    try:
        all_ids = {}
        for h in range(n_hist):
            identities = rng.sample(["hss.example", "mme.example", "a", "b;1;2", "pcrf.epc.mnc001.mcc001.3gppnetwork.org", "x" * 40, "é",
                                     "MME01.EPC.Example.COM", "pgw-Gx.example.com", " padded.example "],
                                    rng.choice([1, 2, 3, 4]))
            ops, gen, model = run_history(rng, rng.choice([5, 20, 60, 200]), identities, clock)
            inp = {"op": "history", "n": len(ops), "identities": identities, "ops": ["%s:%s" % o for o in ops[:40]]}
            chk.case(inp, kind="history:" + tag)
            texts = [g[2] for g in gen if g[0] not in ("BYTES", "LENGTH")]
            if texts != model:
                k = next((i for i, (a, b) in enumerate(zip(texts, model)) if a != b), min(len(texts), len(model)))
                chk.corr_break("session-id-sequence", inp, texts[k] if k < len(texts) else None, model[k] if k < len(model) else None)
            for kind, ident, d in gen:
                if kind == "BYTES":
                    chk.violation("a Session-Id supplied as bytes was altered", inp, ident if ";5;5" in ident else ident + ";7;7", str(d))
                    continue
                if kind == "LENGTH":
                    chk.violation("bulk origin update left a wrong Message Length", inp, "length = size", d)
                    continue
                m = FORM.match(d)
                if not d.startswith(ident + ";") or not m:
                    chk.violation("generated Session-Id is not identity;high32;low32[;optional]", inp, ident + ";<high>;<low>", d)
                if d in all_ids:
                    chk.violation("the same Session-Id was generated twice in one process", inp, "pairwise distinct",
                                  {"session_id": d, "first": all_ids[d], "again": "%s:%s" % (kind, ident)})
                    break
                all_ids[d] = "%s:%s" % (kind, ident)
        chk.extra["session_ids_generated"] = chk.extra.get("session_ids_generated", 0) + len(all_ids)
    finally:
        IU.datetime = saved


def run(chk):
    rng = random.Random(chk.seed)
    chk.lean = core.lean_build(["BromeliaVerif.Properties.C16"])
    chk.rule = ("histories of 5..200 operations over 1..4 identities (incl. an identity containing ';' and a non-ASCII one): "
                "SessionIdAVP(str), AcctMultiSessionIdAVP(str), typed messages built from an identity, update_avps re-assigning "
                "the origin (switching and not switching identity), Session-Ids given as bytes; a scripted clock that mostly stands "
                "still (many generations per second) and sometimes jumps. All ids of the whole run (one process) are checked for "
                "pairwise distinctness, form and prefix; the sequence is compared with the model's counter. distinct = distinct histories.")
    chk.trusted += ["correspondence harness props/c16.py (datetime rebound inside bromelia._internal_utils to a scripted clock)",
                    "Python f-string formatting of the Session-Id = the model's `render` (compared text for text on every generated id; `session_text_unique` is about `render`)"]
    explore(chk, rng, 400 if chk.tier == "quick" else 15000, "sweep")

    def search():
        explore(chk, rng, 600, "search")

    return chk.finish(search)


def replay(path):
    r = json.load(open(path))
    print(json.dumps(r.get("first") or r.get("broken_theorems") or r.get("correspondence_breaks"), indent=1, default=str)[:3000])
    return 1 if r.get("first") else 0
