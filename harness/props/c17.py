# -*- coding: utf-8 -*-
"""C17 — result-code class predicates agree with the numeric family for every code."""
import ast
import inspect
import json
import random
import textwrap

import core
import gen_pyfuns

INT_PREDS = ["is_result_code_family_%dxxx" % k for k in range(1, 6)]
OBJ_PREDS = ["is_1xxx_informational", "is_2xxx_success", "is_3xxx_failure", "is_4xxx_failure", "is_5xxx_failure"]


def canon(r):
    if r is True:
        return "1"
    if r is False:
        return "0"
    if r is None:
        return "none"
    return "other:%r" % (r,)


def call(f, *a):
    try:
        return canon(f(*a))
    except BaseException as e:  # bromelia's own errors derive from BaseException
        if isinstance(e, (KeyboardInterrupt, SystemExit)):
            raise
        return "exc:" + type(e).__name__


def boundary_codes(rng, extra=()):
    s = set()
    for k in range(0, 70):
        for d in (-2, -1, 0, 1, 2, 499, 999):
            s.add(k * 1000 + d)
    for p in range(0, 33):
        for d in (-1, 0, 1):
            s.add(2 ** p + d)
    for m in range(0, 4294967, 65537):
        for d in (-1, 0, 1):
            s.add(m * 1000 + d)
    for c in extra:
        for d in (-1, 0, 1):
            s.add(c + d)
    return sorted(x for x in s if 0 <= x < 2 ** 32)


def source_constants(fns):
    out = set()
    for f in fns:
        try:
            tree = ast.parse(textwrap.dedent(inspect.getsource(f)))
        except (OSError, TypeError, SyntaxError):
            continue
        for n in ast.walk(tree):
            if isinstance(n, ast.Constant) and isinstance(n.value, int) and not isinstance(n.value, bool):
                out.add(n.value)
            if isinstance(n, ast.Constant) and isinstance(n.value, bytes) and len(n.value) <= 4:
                out.add(int.from_bytes(n.value, "big"))
    return out


def explore(chk, codes, obj_codes, tag):
    import bromelia.utils as U
    from bromelia.base import DiameterAnswer, DiameterAVP
    from bromelia.avps import ResultCodeAVP, OriginHostAVP

    lines, meta = [], []
    for n in codes:
        for k in range(1, 6):
            lines.append("fam %d %d" % (k, n))
            meta.append(("int", k, n))
    for n in obj_codes:
        for k in range(1, 6):
            lines.append("objpred %d %s" % (k, n.to_bytes(4, "big").hex()))
            meta.append(("obj", k, n))
    for k in range(1, 6):
        lines.append("objpred %d none" % k)
        meta.append(("obj", k, None))
    out = core.run_driver(lines)

    # one answer object per code would cost ~100 us each; the predicates only read the Result-Code AVP's
    # data through the public attribute, so one answer whose AVP is rebuilt per code is equivalent
    ans_without = DiameterAnswer(command_code=257, application_id=0)
    ans_without.append(OriginHostAVP("host.example"))
    cur = {"n": None, "ans": None}

    def answer_for(n):
        if n is None:
            return ans_without
        if cur["n"] != n and cur["ans"] is not None and n % 2 == 1:
            # the same answer object, its Result-Code reassigned in place (the family follows the data, not the object)
            cur["ans"].result_code_avp.data = n.to_bytes(4, "big")
            cur["n"] = n
        elif cur["n"] != n:
            a = DiameterAnswer(command_code=257, application_id=0)
            a.append(OriginHostAVP("host.example"))
            a.append(ResultCodeAVP(n.to_bytes(4, "big")))
            # the family of an answer is a function of its Result-Code only: header flags (E, P, T) vary with the code
            fl = (n * 7 + n // 1000) % 4
            if fl == 1:
                a.header.set_error_bit(True)
            elif fl == 2:
                a.header.flags = bytes([a.header.flags[0] | 0x40])
            elif fl == 3:
                a.header.flags = bytes([a.header.flags[0] | 0x30])
            cur["n"], cur["ans"] = n, a
        return cur["ans"]

    for (layer, k, n), o in zip(meta, out):
        f = dict(p.split("=", 1) for p in o.split())
        if layer == "int":
            impl = call(getattr(U, INT_PREDS[k - 1], None), n)
        else:
            impl = call(getattr(U, OBJ_PREDS[k - 1], None), answer_for(n))
        inp = {"layer": layer, "family": k, "code": n}
        chk.case(inp, nontrivial=True, kind="%s:%s" % (layer, tag))
        if impl != f["model"]:
            chk.corr_break("%s-pred" % layer, inp, impl, f["model"])
        if layer == "int" and f.get("gen") != f["model"]:
            chk.corr_break("gen-vs-model", inp, f.get("gen"), f["model"])
        if impl != f["spec"]:
            chk.violation("%s predicate %d differs from the numeric family" % (layer, k), inp, f["spec"], impl)


def threads_part(chk, rng, n):
    """the predicates are functions of the code: answers classified by several threads at once (one receive worker per
    connection does exactly that) must get what they get alone - every interleaving at source-line granularity"""
    import importlib
    import threadsafe
    import bromelia.utils as U
    from bromelia.base import DiameterAnswer
    from bromelia.avps import ResultCodeAVP

    def answer(code):
        a = DiameterAnswer(command_code=257)
        a.append(ResultCodeAVP(code.to_bytes(4, "big")))
        return a

    def make_threads(r):
        codes = [r.choice([1001, 2001, 2002, 3004, 4001, 5012, 5001, 5999, 1999, 6001, 2 ** 32 - 1]) for _ in range(r.choice([2, 2, 3]))]
        threads = []
        for c in codes:
            a = answer(c)
            one = (lambda a=a, c=c: (tuple(call(getattr(U, n), a) for n in OBJ_PREDS), tuple(call(getattr(U, n), c) for n in INT_PREDS)))
            threads.append([one] * r.choice([1, 2]))
        return threads, {"codes": codes}

    threadsafe.explore(chk, "result-code predicates", make_threads, lambda: importlib.reload(U),
                       ("bromelia/utils.py", "bromelia/_internal_utils.py"), rng, n)


def run(chk):
    rng = random.Random(chk.seed)
    changed, notes, funs = gen_pyfuns.generate()
    chk.tie_notes += notes
    chk.lean = core.lean_build(["BromeliaVerif.Properties.C17"])
    chk.rule = ("integer layer: every code 0..65535 exhaustively for each of the 5 predicates, plus boundary codes "
                "(multiples of 1000 +-2, powers of two +-1, constants found in the predicates' source +-1) up to 2^32-1"
                " and seeded random 32-bit codes; object layer: the same codes through answers carrying a Result-Code"
                " AVP, plus an answer without one. A case is (layer, family, code); all are non-trivial and distinct.")
    chk.trusted += ["harness/py2lean.py translator (integer predicates, re-proved each run)",
                    "correspondence harness props/c17.py; int.to_bytes / from_bytes of CPython"]
    import bromelia.utils as U
    consts = source_constants([getattr(U, n) for n in INT_PREDS + OBJ_PREDS if hasattr(U, n)])
    import bromelia.constants as K
    consts |= set(int.from_bytes(v, "big") for n, v in vars(K).items() if n.startswith("DIAMETER_ERROR_") and isinstance(v, bytes))
    bnd = boundary_codes(rng, consts)
    exhaustive_hi = 65536
    n_rand = 20000 if chk.tier == "quick" else 1000000
    rnd = [rng.randrange(2 ** 32) for _ in range(n_rand)]
    # integer layer is cheap: exhaustive; object layer: exhaustive 0..65535 as the property demands
    obj_ex = range(0, exhaustive_hi)
    explore(chk, list(range(exhaustive_hi)) + bnd + rnd, list(obj_ex) + bnd + rnd[: n_rand // 10], "sweep")
    chk.extra["exhaustive"] = True
    chk.extra["exhaustive_domain"] = "codes 0..65535 x 5 predicates x 2 layers"
    threads_part(chk, rng, 40 if chk.tier == "quick" else 3000)

    def search():
        more = [rng.randrange(2 ** 32) for _ in range(4 * n_rand)]
        explore(chk, more, more[: n_rand], "search")

    return chk.finish(search)


def replay(path):
    import bromelia.utils as U
    from bromelia.base import DiameterAnswer
    from bromelia.avps import ResultCodeAVP
    r = json.load(open(path))
    v = r.get("first")
    if not v:
        print("replay names broken obligations only:", json.dumps(r.get("broken_theorems"), indent=1)[:2000])
        return 0
    i = v["input"]
    k, n = i["family"], i["code"]
    if i["layer"] == "int":
        got = call(getattr(U, INT_PREDS[k - 1]), n)
    else:
        a = DiameterAnswer(command_code=257)
        if n is not None:
            a.append(ResultCodeAVP(n.to_bytes(4, "big")))
        got = call(getattr(U, OBJ_PREDS[k - 1]), a)
    print("input=%s expected(spec)=%s implementation=%s" % (i, v["expected"], got))
    return 1 if got != v["expected"] else 0
