# -*- coding: utf-8 -*-
"""C04 — inbound messages are delivered once, in order, however the stream is fragmented.

The real client node runs under the simulation scheduler (library threads: state machine, transport, receive worker;
plus an application thread calling get_message()). After the capabilities exchange the scripted peer sends a
sequence of application and base-protocol messages whose concatenated encoding is cut at arbitrary points (inside
headers, one byte at a time, several messages per segment). What the application receives and what the state machine
takes off the receive queue are compared with what was sent; the log of buffer operations is replayed on the Lean
model (Model/Inbound.lean)."""
import json
import random

import core
import sim as simlib
from props.c05 import CFG, split_messages


def make_stream(rng, n_msgs, big=False):
    """messages the peer sends after the CEA: (kind, dump) in order"""
    from bromelia.base import DiameterRequest, DiameterAnswer
    from bromelia.messages import DWR, DWA
    from bromelia.avps import UserNameAVP, ResultCodeAVP
    out = []
    for i in range(n_msgs):
        r = rng.random()
        if big == "burst":
            m = DiameterRequest(command_code=316, application_id=16777251)          # bare headers, told apart by their identifiers
            m.header.hop_by_hop = (100000 + i).to_bytes(4, "big")
            out.append(("app", m.dump()))
            continue
        if big and rng.random() < 0.6:
            # a message of exactly k * 64 KiB (header 20 + AVP header 8 + data, no padding): read sizes at buffer-size multiples
            k = rng.choice([1, 1, 2, 4])
            m = DiameterRequest(command_code=316, application_id=16777251)
            m.append(UserNameAVP("z" * (65536 * k - 28)))
            out.append(("app", m.dump()))
            continue
        if r < 0.12:
            m = DiameterRequest(command_code=316, application_id=16777251)          # a bare header: 20 bytes, no AVPs
            out.append(("app", m.dump()))
        elif r < 0.55:
            m = DiameterRequest(command_code=316, application_id=16777251)
            m.append(UserNameAVP("in%d-" % i + "y" * rng.choice([0, 1, 7, 40, 300])))
            out.append(("app", m.dump()))
        elif r < 0.75:
            m = DiameterAnswer(command_code=316, application_id=16777251)
            m.header.hop_by_hop = (5000 + i).to_bytes(4, "big")
            m.append(UserNameAVP("ans%d" % i))
            m.append(ResultCodeAVP(2001))
            out.append(("app", m.dump()))
        elif r < 0.92:
            m = DWR(origin_host="peer.h", origin_realm="peer.r")
            m.header.hop_by_hop = (7000 + i).to_bytes(4, "big")
            out.append(("base", m.dump()))
        else:
            m = DWA(origin_host="peer.h", origin_realm="peer.r", result_code=2001)
            m.header.hop_by_hop = (8000 + i).to_bytes(4, "big")
            out.append(("base", m.dump()))
    return out


def segment(rng, stream, mode):
    cuts, pos = [], 0
    while pos < len(stream):
        if mode == "bytes":
            n = 1
        elif mode == "small":
            n = rng.choice([1, 2, 3, 5, 19, 20, 21])
        elif mode == "big":
            n = rng.choice([100, 400, 1000, 5000])
        elif mode == "64k":
            n = rng.choice([65536, 65536, 65536, 131072, 32768, 262144])
        elif mode == "burst":
            n = rng.choice([len(stream), 16384])
        else:
            n = rng.choice([1, 2, 3, 5, 19, 20, 21, 40, 100, 400])
        cuts.append(stream[pos:pos + n])
        pos += n
    return cuts


def scenario(seed, n_msgs, mode, lines, coalesce=False, sctp=False):
    import bromelia.transport as TR
    import bromelia.setup as ST
    import bromelia.statemachine as SM
    from bromelia.setup import Diameter
    from bromelia.base import DiameterMessage
    from bromelia.messages import CEA
    s = simlib.Sim(seed=seed, trace_files=("bromelia/transport.py", "bromelia/setup.py") if lines else (), max_steps=150000 if mode != "burst" else 1500000)
    s.keep_log = False
    rng = random.Random(seed * 11 + 3)
    log = []
    sock = (simlib.FakeSctpSock if sctp else simlib.FakeSock)(s)
    sctp_mods = simlib.FakeSctpModules(lambda: sock)
    sctp_mods.__enter__()
    mods, undo = simlib.install(s, [TR, ST, SM], socket_factory=lambda *a: sock)
    RealQueue = mods.queue.Queue

    class LQueue(RealQueue):
        def get(self, block=True, timeout=None):
            x = RealQueue.get(self, block, timeout)
            log.append(("get", id(self), x))
            return x
    mods.queue.Queue = LQueue

    # the transport's receive buffer is watched at the moment it is written: growth = bytes appended by the reader,
    # reset = taken by the receive worker
    def _get_rs(self):
        return self.__dict__.get("_recv_data_stream_value", b"")

    def _set_rs(self, v):
        old = self.__dict__.get("_recv_data_stream_value", b"")
        if len(v) > len(old):
            log.append(("c", len(v) - len(old)))
        elif not v and old:
            log.append(("w",))
        self.__dict__["_recv_data_stream_value"] = v
    TR.TcpConnection._recv_data_stream = property(_get_rs, _set_rs)
    d = Diameter(config=dict(CFG, TRANSPORT_TYPE="SCTP" if sctp else "TCP"))
    sent = make_stream(rng, n_msgs, big=("burst" if mode == "burst" else mode == "64k"))
    n_app = sum(1 for k, _ in sent if k == "app")
    got = []
    state = {"cea": False, "chunks": [], "cea_taken": False, "cea_len": 0}
    try:
        def app():
            d.start()
            while not d.is_open():
                mods.time.sleep(0.01)
            state["cea_taken"] = True
            for _ in range(n_app):
                m = d.get_message()
                got.append(m.dump() if m is not None else None)
        s.spawn(app, "app")

        def until():
            if not state["cea"]:
                msgs, _rest = split_messages(sock.out)
                if msgs:
                    cer = DiameterMessage.load(msgs[0])[0]
                    cea = CEA(origin_host="peer.h", origin_realm="peer.r", host_ip_address="127.0.0.2")
                    cea.header.hop_by_hop, cea.header.end_to_end = cer.header.hop_by_hop, cer.header.end_to_end
                    state["cea_bytes"] = cea.dump()
                    if coalesce:
                        # the peer does not wait: CEA and the messages behind it travel in the same segments
                        state["chunks"] = segment(rng, cea.dump() + b"".join(b for _, b in sent), mode)
                        state["cut"] = True
                    else:
                        sock.inbox.append(cea.dump())
                    state["cea"] = True
                return False
            if not coalesce and not state["cea_taken"]:
                return False
            if not state.get("cut"):
                state["chunks"] = segment(rng, b"".join(b for _, b in sent), mode)
                state["cut"] = True
            if state["chunks"] and not sock.inbox and rng.random() < 0.35:
                sock.inbox.append(state["chunks"].pop(0))
            _a = d._association
            if state.get("cut") and (_a is None or _a.transport is None or _a.transport._stop_threads):
                # the node gave the connection up while the peer was only sending well-formed messages
                state["node_closed"] = True
                return True
            if _a is None or _a.transport is None:
                return False
            return len(got) == n_app and not state["chunks"] and not sock.inbox and _a._recv_messages.empty() \
                and not _a.transport._recv_data_stream
        status = s.run(until=until)
        a = d._association
        taken = [e[2] for e in log if e[0] == "get" and a is not None and e[1] == id(a._recv_messages)]
        blocked = s.blocked()
        excs = [(t.name, type(t.exc).__name__, str(t.exc)[:80]) for t in s.tasks if t.exc is not None]
        qids = (id(a._recv_messages), id(a.postprocess_recv_messages)) if a is not None else (None, None)
    finally:
        s.kill()
        undo()
        sctp_mods.__exit__()
        del TR.TcpConnection._recv_data_stream
    return {"status": status, "sent": sent, "got": got, "taken": taken, "log": log, "blocked": blocked, "excs": excs, "qids": qids,
            "steps": s.steps, "n_app": n_app, "node_closed": bool(state.get("node_closed")), "cea_len": len(state.get("cea_bytes", b"")), "undelivered_by_network": len(state["chunks"]) + len(sock.inbox) if state.get("cut") else -1}


def verdict(res):
    want_app = [b for k, b in res["sent"] if k == "app"]
    got = res["got"]
    if res.get("node_closed") and len(got) < len(want_app):
        return ("the node tore the connection down while the peer was sending well-formed messages: %d of %d application messages never "
                "delivered" % (len(want_app) - len(got), len(want_app)), {"delivered": len(got), "sent": len(res["sent"])})
    if any(g is None for g in got):
        return ("get_message() returned nothing on an open connection", {"position": got.index(None)})
    for i, g in enumerate(got):
        if i >= len(want_app) or g != want_app[i]:
            kind = "duplicated" if g in got[:i] else ("out of order" if g in want_app else "not a message that was sent (torn)")
            return ("the application received a message %s" % kind, {"position": i, "received_prefix": g[:24].hex(),
                                                                     "expected_prefix": want_app[i][:24].hex() if i < len(want_app) else None})
    taken = [m.dump() for m in res["taken"][1:]]                    # [0] is the CEA
    want_all = [b for _, b in res["sent"]]
    if taken != want_all[:len(taken)]:
        k = next((i for i, (x, y) in enumerate(zip(taken, want_all)) if x != y), min(len(taken), len(want_all)))
        return ("the state machine took the messages off the receive queue in another order than sent", {"position": k})
    if res["status"] == "maxsteps" and res["undelivered_by_network"] != 0:
        return None          # the scheduler budget ran out while the network was still delivering: inconclusive, counted by the caller
    if res["status"] != "until":
        if len(got) < len(want_app):
            return ("%d of %d application messages were never delivered (%s)" % (len(want_app) - len(got), len(want_app), res["status"]),
                    {"blocked": [b for b in res["blocked"]][:6], "taken_by_state_machine": len(taken), "sent": len(want_all)})
    return None


def to_model(res):
    rq, dq = res["qids"]
    acts = []
    for ev in res["log"]:
        if ev[0] == "c":
            acts.append("c%d" % ev[1])
        elif ev[0] == "w":
            acts.append("w")
        elif ev[0] == "get" and ev[1] == rq:
            acts.append("t")
        elif ev[0] == "get" and ev[1] == dq:
            acts.append("g")
    return acts


def handoff(k, chooser, seed=0, lines=False):
    """the delivery hand-off in isolation: the state machine's notify_postprocess_message against the application's
    get_message on a real DiameterAssociation, k messages"""
    import bromelia.setup as ST
    import bromelia.statemachine as SM
    from bromelia.setup import Diameter, DiameterAssociation
    from bromelia.base import DiameterRequest
    from bromelia.avps import UserNameAVP
    s = simlib.Sim(seed=seed, trace_files=("bromelia/setup.py", "bromelia/statemachine.py") if lines else (),
                   trace_funcs=("notify_postprocess_message", "get_message", "get_postprocess_recv_message"), max_steps=20000, timeout_prob=0)
    s.keep_log = False
    mods, undo = simlib.install(s, [ST, SM])
    got = []
    try:
        d = Diameter(config=dict(CFG))
        assoc = DiameterAssociation(d._connection, d._base)
        state = SM.Open(assoc)
        msgs = []
        for i in range(k):
            m = DiameterRequest(command_code=316, application_id=16777251)
            m.append(UserNameAVP("m%d" % i))
            msgs.append(m)

        def producer():
            for m in msgs:
                state.notify_postprocess_message(m)

        def consumer():
            for _ in range(k):
                got.append(assoc.get_message())
        s.spawn(producer, "psm")
        s.spawn(consumer, "app")
        status = s.run(chooser=chooser)
        blocked = s.blocked()
        excs = [(t.name, type(t.exc).__name__) for t in s.tasks if t.exc is not None]
    finally:
        s.kill()
        undo()
    order = [next((i for i, m in enumerate(msgs) if m is g), None) for g in got]
    return {"status": status, "order": order, "blocked": blocked, "excs": excs, "schedule": list(s.choices), "fanout": list(s.fanout)}


def explore_handoff(chk, rng, n_dfs, n_random, tag):
    for k in (1, 2, 3):
        def run_one(prefix, k=k):
            res = handoff(k, simlib.replay_chooser(prefix))
            return res["fanout"], res
        count = 0
        for prefix, fanout, res in simlib.dfs(run_one, n_dfs):
            count += 1
            check_handoff(chk, res, k, "dfs", tag)
        chk.extra.setdefault("handoff_dfs", []).append({"messages": k, "schedules": count, "complete": bool(getattr(simlib.dfs, "complete", False))})
    for _ in range(n_random):
        seed = rng.randrange(2 ** 30)
        k = rng.choice([2, 3, 5])
        res = handoff(k, None, seed=seed, lines=True)
        check_handoff(chk, res, k, "random-lines", tag)


def check_handoff(chk, res, k, how, tag):
    inp = {"op": "delivery-hand-off", "messages": k, "how": how, "schedule": res["schedule"][:300]}
    chk.case(inp, kind="handoff:%s:%d:%s" % (how, k, tag))
    if res["status"] != "finished":
        chk.violation("a delivered message never reached the application: state machine and consumer block each other (%s)" % res["status"],
                      inp, "all %d messages returned by get_message()" % k, {"received": res["order"], "blocked": res["blocked"]})
    elif res["excs"]:
        chk.violation("the delivery hand-off raised", inp, "no exception", res["excs"])
    elif res["order"] != list(range(k)):
        chk.violation("the application did not receive the delivered messages once and in order", inp, list(range(k)), res["order"])


def explore(chk, rng, n, tag, bursts=0):
    import logging
    logging.disable(logging.CRITICAL)
    lines, meta = [], []
    for it in range(n + bursts):
        if chk.saturated():
            break
        seed = rng.randrange(2 ** 30)
        n_msgs = rng.choice([1, 3, 6, 12])
        mode = rng.choice(["bytes", "small", "mixed", "mixed", "big", "64k"])
        if it >= n:
            # a burst: far more messages in one or two reads than any queue bound a sane implementation would pick
            mode, n_msgs = "burst", rng.choice([1100, 2300])
        if mode == "64k":
            n_msgs = min(n_msgs, 3)
        lines_mode = rng.random() < 0.25
        if mode == "burst":
            lines_mode = False
        if mode == "bytes" and lines_mode:
            n_msgs = min(n_msgs, 3)                  # one byte per read under line-level hand-over is slow: keep it within the budget
        coalesce = rng.random() < 0.4
        sctp = rng.random() < 0.25           # the SCTP classes (sctp_recv) over a scripted pysctp socket
        res = scenario(seed, n_msgs, mode, lines_mode, coalesce, sctp)
        inp = {"op": "inbound", "seed": seed, "messages": n_msgs, "segmentation": mode, "line_level": lines_mode, "coalesced_with_cea": coalesce, "sctp": sctp,
               "kinds": "".join("A" if k == "app" else "b" for k, _ in res["sent"])}
        chk.case(inp, kind="%s:%s%s%s" % (tag, mode, ":lines" if lines_mode else "", ":sctp" if sctp else ""))
        v = verdict(res)
        if res["status"] == "maxsteps" and res["undelivered_by_network"] != 0:
            chk.count("inconclusive:budget-exhausted-during-delivery")
        if v:
            chk.violation(v[0], inp, "the application receives exactly the application messages sent, once, complete, in order", v[1])
        # the chunk/worker log starts after the CEA: drop the chunk events that belong to it
        descr = " ".join("%d.%d.%s" % ((i + 1) % 250, len(b), "a" if k == "app" else "b") for i, (k, b) in enumerate(res["sent"]))
        lines.append("inb %d 250.%d.b %s %s" % (len(res["sent"]) + 1, res["cea_len"], descr, " ".join(to_model(res))))
        meta.append((inp, res))
    out = core.run_driver(lines)
    for (inp, res), o in zip(meta, out):
        f = dict(p.split("=") for p in o.split())
        ids = lambda l: ",".join(str(i) for i in l) or "-"
        sent = res["sent"]
        index = {}
        for i, (k, b) in enumerate(sent):
            index.setdefault(b, []).append((i + 1) % 250)
        def ids_of(blobs):
            seen, out_ = {}, []
            for b in blobs:
                lst = index.get(b)
                if not lst:
                    out_.append("?")
                    continue
                k = seen.get(b, 0)
                out_.append(str(lst[min(k, len(lst) - 1)]))
                seen[b] = k + 1
            return ",".join(out_) or "-"
        impl_delivered = ids_of([g for g in res["got"] if g is not None])
        impl_ticked = ids_of([m.dump() for m in res["taken"][1:]])
        if res["taken"]:
            impl_ticked = "250" if impl_ticked == "-" else "250," + impl_ticked
        chk.traces_validated += 1
        if impl_delivered != f.get("delivered") or impl_ticked != f.get("ticked"):
            chk.corr_break("inbound-trace", inp, {"delivered": impl_delivered, "taken": impl_ticked},
                           {"delivered": f.get("delivered"), "taken": f.get("ticked")})


def run(chk):
    rng = random.Random(chk.seed)
    import gen_split
    chk.tie_notes += gen_split.generate()[1]      # tie (a): split_data_stream translated to Gen/Split.lean on every run
    chk.lean = core.lean_build(["BromeliaVerif.Properties.C04", "BromeliaVerif.Properties.C04Gen"])
    chk.rule = ("the real client node under the simulation scheduler; after the capabilities exchange the peer sends 1..12 messages "
                "(application requests of 5 sizes up to ~350 bytes, application answers, DWR, DWA) whose concatenated encoding is cut "
                "one byte at a time / at {1,2,3,5,19,20,21} / mixed up to 400 / in large pieces (several messages per read); segments "
                "are released at random moments while the library's threads and an application thread in get_message() run; seeded "
                "random schedules, 25% with hand-over before every source line of transport.py and setup.py. Received messages are "
                "compared byte for byte with those sent (once, complete, in order; base messages in the order sent through the "
                "state machine); the log of buffer appends / takes / queue gets is replayed on the Lean model. The hand-off between "
                "the state machine's notify_postprocess_message and the application's get_message is also run in isolation on a real "
                "DiameterAssociation for 1..3 messages with depth-first enumeration of all schedules at synchronisation-operation "
                "granularity (bounded) and random line-level schedules for 2..5 messages. distinct = distinct (seed | schedule, parameters).")
    chk.trusted += ["correspondence harness props/c04.py: scripted FakeSock, the transport's receive buffer attribute watched through a "
                    "class-level property, queue gets logged", "simulation scheduler harness/sim.py",
                    "messages are byte strings in the model (decoding of a complete message is C02)",
                    "the CEA is the first message of the modelled stream; in 40% of the runs the messages travel in the same segments as the CEA"]
    quick = chk.tier == "quick"
    explore_handoff(chk, rng, 400 if quick else 20000, 60 if quick else 2000, "sweep")
    explore(chk, rng, 90 if quick else 2500, "sweep", bursts=1 if quick else 6)

    def search():
        explore_handoff(chk, rng, 1500, 200, "search")
        explore(chk, rng, 120, "search")

    return chk.finish(search)


def replay(path):
    """re-runs the stored scenario (same seed and parameters) on the current tree"""
    import logging
    logging.disable(logging.CRITICAL)
    r = json.load(open(path))
    v = r.get("first")
    if not v:
        print(json.dumps(r.get("broken_theorems") or r.get("correspondence_breaks"), indent=1, default=str)[:3000])
        return 0
    i = v["input"]
    print("scenario: %s" % json.dumps(i)[:400])
    print("recorded: %s" % v["what"])
    if i["op"] == "delivery-hand-off":
        res = handoff(i["messages"], simlib.replay_chooser(i["schedule"]) if i["how"] == "dfs" else None, seed=0, lines=(i["how"] != "dfs"))
        bad = res["status"] != "finished" or res["excs"] or res["order"] != list(range(i["messages"]))
        print("now     : status=%s received=%s blocked=%s" % (res["status"], res["order"], res["blocked"]))
        return 1 if bad else 0
    res = scenario(i["seed"], i["messages"], i["segmentation"], i["line_level"], i.get("coalesced_with_cea", False), i.get("sctp", False))
    now = verdict(res)
    print("now     : %s" % (("VIOLATED: %s %s" % (now[0], json.dumps(now[1], default=str)[:300])) if now else "the statement holds on this run"))
    return 1 if now else 0
