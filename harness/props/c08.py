# -*- coding: utf-8 -*-
"""C08 — every way a connection ends leaves the node closed, released and restartable.

The real client node runs under the simulation scheduler. A connection is brought to a chosen point of its life
(refused at connect, during the capabilities exchange, open and idle, open with queued inbound / outbound messages,
with an application thread blocked in get_message()), then one termination cause is applied (local close answered
by the peer, local close with a silent peer, DPR from the peer, abrupt disconnect, refused connection). Afterwards
the reported state, the socket and selector, the library's threads, the blocked consumer, the association lock and a
second start() of the same node object are examined. Loop iterations after the closing tick are counted against the
bound proved for the Lean model (Model/Teardown.lean)."""
import json
import random

import core
import sim as simlib
from props.c05 import CFG, split_messages

FINDING_SILENT = "C08-closing-waits-for-silent-peer"
CAUSES = ["local", "dpr", "eof", "refused", "eof-setup", "local-silent", "dpr-bad", "reset", "eof-partial", "eof-partial", "reset-both", "reset-both"]
POINTS = ["idle", "queued-out", "queued-in", "busy"]
LIB_THREADS = ("psm_thread", "transport_layer_thread", "recv_message_monitor")


def loop_heads():
    """(file suffix, function name) -> line number of the loop condition of the four loops of Model/Teardown.lean"""
    import ast
    import inspect
    import bromelia.transport as TR
    import bromelia.setup as ST
    import bromelia.statemachine as SM
    out = {}
    for mod, cls, fn, key in ((SM, "PeerStateMachine", "_PeerStateMachine__start", "psm"), (TR, "TcpConnection", "_run", "transport"),
                              (ST, "DiameterAssociation", "recv_message_from_queue", "worker"), (ST, "DiameterAssociation", "get_message", "consumer")):
        try:
            f = getattr(getattr(mod, cls), fn)
            src, first = inspect.getsourcelines(f)
            tree = ast.parse("".join(src).replace(src[0], src[0].lstrip(), 1) if False else __import__("textwrap").dedent("".join(src)))
            loop = next(n for n in ast.walk(tree) if isinstance(n, ast.While))
            out[(f.__code__.co_filename, f.__code__.co_name)] = (key, first + loop.lineno - 1)
        except Exception:
            pass
    return out


def scenario(seed, cause, point, consumer, lines, restart=True):
    import bromelia.transport as TR
    import bromelia.setup as ST
    import bromelia.statemachine as SM
    from bromelia.setup import Diameter
    from bromelia.base import DiameterMessage, DiameterRequest
    from bromelia.messages import CEA, DPR, DPA, DWR
    from bromelia.avps import UserNameAVP, DisconnectCauseAVP
    s = simlib.Sim(seed=seed, trace_files=("bromelia/transport.py", "bromelia/setup.py", "bromelia/statemachine.py") if lines else (),
                   max_steps=25000 if cause == "local-silent" else 90000, timeout_prob=0.05)
    s.keep_log = False
    rng = random.Random(seed * 13 + 5)
    socks = []

    def new_sock(*a):
        k = simlib.FakeSock(s)
        if cause == "refused" and not socks:
            k.refused = True
        socks.append(k)
        return k
    mods, undo = simlib.install(s, [TR, ST, SM], socket_factory=new_sock)
    d = Diameter(config=dict(CFG))
    obs = {"consumer": "not-started", "phase": "setup", "cause_at": None, "second": None, "close_exc": None, "send_after": None}
    teardown = {"at": None}
    heads = loop_heads() if lines else {}
    evals = {}                        # loop -> evaluations of its loop condition after the closing tick (first connection)

    def on_line(task, code, lineno):
        h = heads.get((code.co_filename, code.co_name))
        if h and h[1] == lineno and teardown.get("done") is not None and obs["second"] is None and obs["phase"] != "ended" and task is not None:
            if task.name.endswith(LIB_THREADS) or task.name == "consumer":
                evals[(h[0], task.name)] = evals.get((h[0], task.name), 0) + 1
    s.line_hook = on_line if lines else None
    orig_close = ST.DiameterAssociation.close

    def logged_close(self):
        if teardown["at"] is None:
            teardown["at"] = s.steps
        try:
            return orig_close(self)
        finally:
            teardown.setdefault("done", s.steps)          # every stop flag is set from here on
    ST.DiameterAssociation.close = logged_close
    try:
        def consumer_fn():
            obs["consumer"] = "blocked"
            m = d.get_message()
            obs["consumer"] = "returned:" + ("None" if m is None else "msg")

        def lib_threads_done():
            return all(t.done for t in s.tasks if t.name.endswith(LIB_THREADS))

        def app():
            d.start()
            if cause in ("refused", "eof-setup"):
                if cause == "eof-setup":
                    for _ in range(rng.randint(0, 6)):
                        mods.time.sleep(0.01)
                    socks[0].eof = True
                obs["phase"] = "cause-applied"
                obs["cause_at"] = s.steps
            else:
                while not d.is_open():
                    mods.time.sleep(0.01)
                if consumer:
                    mods.threading.Thread(target=consumer_fn, name="consumer").start()
                for _ in range(rng.randint(0, 20)):
                    mods.time.sleep(0.01)
                sock = socks[0]
                if point in ("queued-out", "busy"):
                    for i in range(rng.choice([1, 3])):
                        r = DiameterRequest(command_code=316, application_id=16777251)
                        r.append(UserNameAVP("out%d" % i))
                        d.send_message(r)
                if point in ("queued-in", "busy"):
                    for i in range(rng.choice([1, 3])):
                        m = DiameterRequest(command_code=316, application_id=16777251) if rng.random() < 0.6 else DWR(origin_host="peer.h", origin_realm="peer.r")
                        sock.inbox.append(m.dump())
                if cause in ("local", "local-silent"):
                    try:
                        d.close()
                    except BaseException as e:
                        obs["close_exc"] = type(e).__name__
                elif cause == "eof":
                    sock.eof = True
                elif cause == "eof-partial":
                    # the peer dies in the middle of a message: part of it has arrived, then the disconnect
                    m = DiameterRequest(command_code=316, application_id=16777251)
                    m.append(UserNameAVP("partial" + "z" * 200))
                    raw = m.dump()
                    sock.inbox.append(raw[:rng.choice([1, 3, 19, 20, 21, 100, len(raw) - 1])])
                    for _ in range(rng.randint(0, 30)):
                        mods.time.sleep(0.01)
                    sock.eof = True
                elif cause == "reset":
                    sock.recv_error = ConnectionResetError(104, "Connection reset by peer")
                elif cause == "reset-both":
                    # the peer is gone: reading reports the reset, writing reports a broken pipe - whichever the node tries first
                    sock.recv_error = ConnectionResetError(104, "Connection reset by peer")
                    sock.send_error = BrokenPipeError(32, "Broken pipe")
                elif cause == "dpr":
                    sock.inbox.append(DPR(origin_host="peer.h", origin_realm="peer.r").dump())
                elif cause == "dpr-bad":
                    m = DPR(origin_host="peer.h", origin_realm="peer.r")
                    from bromelia.base import DiameterHeader
                    bad = DiameterMessage(DiameterHeader(flags=m.header.flags, command_code=m.header.command_code,
                                                         application_id=m.header.application_id, hop_by_hop=m.header.hop_by_hop,
                                                         end_to_end=m.header.end_to_end))
                    for a in m.avps:
                        bad.append(DisconnectCauseAVP(b"\x00\x00\x00\x01") if int.from_bytes(a.code, "big") == 273 else a)
                    sock.inbox.append(bad.dump())
                obs["phase"] = "cause-applied"
                obs["cause_at"] = s.steps
            # wait for the end of the connection, then use the same node object again
            while not (d.get_current_state() == "Closed" and teardown["at"] is not None):
                mods.time.sleep(0.01)
            if rng.random() < 0.5:
                # an application that submits right after the node reported Closed, while its workers are still winding down
                try:
                    d.send_message(DiameterRequest(command_code=316, application_id=16777251))
                    obs["send_after"] = "accepted"
                except BaseException as e:
                    obs["send_after"] = type(e).__name__
            while not lib_threads_done():
                mods.time.sleep(0.01)
            obs["phase"] = "ended"
            # the blocked consumer sits in a timed wait: give the scheduler room to fire it (probability 0.05 per step)
            for _ in range(1500):
                if obs["consumer"] != "blocked":
                    break
                mods.time.sleep(0.01)
            if obs["send_after"] is None:
                try:
                    r = DiameterRequest(command_code=316, application_id=16777251)
                    d.send_message(r)
                    obs["send_after"] = "accepted"
                except BaseException as e:
                    obs["send_after"] = type(e).__name__
            if restart:
                try:
                    d.start()
                    while not d.is_open():
                        mods.time.sleep(0.01)
                    obs["second"] = "open"
                except BaseException as e:
                    obs["second"] = "exc:" + type(e).__name__
            obs["phase"] = "done"
        s.spawn(app, "app")
        peer = {}

        def until():
            # the moment the application could first SEE Closed: whoever observes the node then (is it closed? may I start it
            # again?) must find the sockets of the ended connection released - at every scheduler step, not only at the end
            if socks and not obs.get("early"):
                try:
                    stn = d.get_current_state()
                except BaseException as e:
                    if isinstance(e, (KeyboardInterrupt, SystemExit)):
                        raise
                    stn = None
                if stn not in (None, "Closed"):
                    obs["left_closed"] = True        # (Closed is also the state a node starts from, with its socket already created)
                if obs["phase"] == "cause-applied" and obs.get("left_closed") and len(socks) == 1 \
                        and stn == "Closed" and not socks[0].closed and not socks[0].refused:
                    obs["early"] = "the node reports Closed while the socket of the ended connection is still open"
            for k in socks:
                st = peer.setdefault(id(k), {"cea": False, "off": 0, "dpa": False})
                if k.refused:
                    continue
                out = k.out
                if not st["cea"]:
                    msgs, _r = split_messages(out)
                    if msgs and not (cause == "eof-setup" and k is socks[0]):
                        cer = DiameterMessage.load(msgs[0])[0]
                        cea = CEA(origin_host="peer.h", origin_realm="peer.r", host_ip_address="127.0.0.2")
                        cea.header.hop_by_hop, cea.header.end_to_end = cer.header.hop_by_hop, cer.header.end_to_end
                        k.inbox.append(cea.dump())
                        st["cea"] = True
                elif cause == "local" and not st["dpa"] and k is socks[0]:
                    msgs, _r = split_messages(out)
                    for raw in msgs:
                        m = DiameterMessage.load(raw)[0]
                        if m.header.get_command_code() == 282 and m.header.is_request():
                            dpa = DPA(origin_host="peer.h", origin_realm="peer.r", result_code=2001)
                            dpa.header.hop_by_hop, dpa.header.end_to_end = m.header.hop_by_hop, m.header.end_to_end
                            k.inbox.append(dpa.dump())
                            st["dpa"] = True
            return obs["phase"] == "done"
        status = s.run(until=until)
        first = socks[0] if socks else None
        alive = [(t.name, t.label[0] if isinstance(t.label, tuple) else str(t.label)) for t in s.tasks
                 if not t.done and t.name.endswith(LIB_THREADS)]
        try:
            state = d.get_current_state()
        except BaseException as e:
            state = "ERR " + type(e).__name__
        excs = [(t.name, type(t.exc).__name__) for t in s.tasks if t.exc is not None]
        info = {"status": status, "phase": obs["phase"], "state": state, "first_socket_closed": bool(first and first.closed),
                "consumer": obs["consumer"], "alive": alive, "excs": excs, "second": obs["second"], "send_after": obs["send_after"],
                "teardown_at": teardown["at"], "cause_at": obs["cause_at"], "steps": s.steps, "sockets": len(socks),
                "close_exc": obs["close_exc"], "loop_evals_after_teardown": {"%s:%s" % k: v for k, v in evals.items()}, "early": obs.get("early")}
    finally:
        s.kill()
        undo()
        ST.DiameterAssociation.close = orig_close
    return info


def server_scenario(seed, cause, consumer, lines):
    """server role: listening socket, accept (blocking inside start()), CER from the configured peer, then a cause"""
    import bromelia.transport as TR
    import bromelia.setup as ST
    import bromelia.statemachine as SM
    from bromelia.setup import Diameter
    from bromelia.base import DiameterMessage
    from bromelia.messages import DPR, DPA
    s = simlib.Sim(seed=seed, trace_files=("bromelia/transport.py", "bromelia/setup.py", "bromelia/statemachine.py") if lines else (),
                   max_steps=25000 if cause == "local-silent" else 90000, timeout_prob=0.05)
    s.keep_log = False
    rng = random.Random(seed * 17 + 1)
    listeners, conns = [], []

    def new_sock(*a):
        k = simlib.FakeSock(s, listening=True)
        listeners.append(k)
        return k
    cfg = dict(CFG)
    cfg["MODE"] = "SERVER"
    pcfg = dict(CFG)
    pcfg.update({"LOCAL_NODE_HOSTNAME": "peer.h", "LOCAL_NODE_REALM": "peer.r", "PEER_NODE_HOSTNAME": "local.h", "PEER_NODE_REALM": "local.r",
                 "LOCAL_NODE_IP_ADDRESS": "127.0.0.2", "PEER_NODE_IP_ADDRESS": "127.0.0.1"})
    peer_cer = Diameter(config=pcfg)._base.cer.dump()
    mods, undo = simlib.install(s, [TR, ST, SM], socket_factory=new_sock)
    d = Diameter(config=cfg)
    obs = {"consumer": "not-started", "phase": "setup", "second": None, "send_after": None, "close_exc": None}
    teardown = {"at": None}
    orig_close = ST.DiameterAssociation.close

    def logged_close(self):
        if teardown["at"] is None:
            teardown["at"] = s.steps
        return orig_close(self)
    ST.DiameterAssociation.close = logged_close
    try:
        def consumer_fn():
            obs["consumer"] = "blocked"
            m = d.get_message()
            obs["consumer"] = "returned:" + ("None" if m is None else "msg")

        def lib_threads_done():
            return all(t.done for t in s.tasks if t.name.endswith(LIB_THREADS))

        def app():
            d.start()
            while not d.is_open():
                mods.time.sleep(0.01)
            if consumer:
                mods.threading.Thread(target=consumer_fn, name="consumer").start()
            for _ in range(rng.randint(0, 20)):
                mods.time.sleep(0.01)
            conn = conns[0]
            if cause in ("local", "local-silent"):
                try:
                    d.close()
                except BaseException as e:
                    obs["close_exc"] = type(e).__name__
            elif cause == "eof":
                conn.eof = True
            elif cause == "reset":
                conn.recv_error = ConnectionResetError(104, "Connection reset by peer")
            elif cause == "dpr":
                conn.inbox.append(DPR(origin_host="peer.h", origin_realm="peer.r").dump())
            obs["phase"] = "cause-applied"
            while not (d.get_current_state() == "Closed" and lib_threads_done() and teardown["at"] is not None):
                mods.time.sleep(0.01)
            obs["phase"] = "ended"
            for _ in range(1500):
                if obs["consumer"] != "blocked":
                    break
                mods.time.sleep(0.01)
            try:
                d.start()
                while not d.is_open():
                    mods.time.sleep(0.01)
                obs["second"] = "open"
            except BaseException as e:
                obs["second"] = "exc:" + type(e).__name__
            obs["phase"] = "done"
        s.spawn(app, "app")
        served = {}

        def until():
            if conns and not obs.get("early"):
                try:
                    stn = d.get_current_state()
                except BaseException as e:
                    if isinstance(e, (KeyboardInterrupt, SystemExit)):
                        raise
                    stn = None
                if stn not in (None, "Closed"):
                    obs["left_closed"] = True
                if obs["phase"] == "cause-applied" and obs.get("left_closed") and len(listeners) == 1 \
                        and stn == "Closed" and (not conns[0].closed or not listeners[0].closed):
                    obs["early"] = "the node reports Closed while the connection / listening socket is still open"
            for L in listeners:
                if id(L) not in served and not L.closed:
                    c = simlib.FakeSock(s)
                    conns.append(c)
                    c.inbox.append(peer_cer)
                    L.pending_accept.append(c)
                    served[id(L)] = c
            if conns and cause == "local" and not served.get("dpa"):
                msgs, _r = split_messages(conns[0].out)
                for raw in msgs:
                    m = DiameterMessage.load(raw)[0]
                    if m.header.get_command_code() == 282 and m.header.is_request():
                        dpa = DPA(origin_host="peer.h", origin_realm="peer.r", result_code=2001)
                        dpa.header.hop_by_hop, dpa.header.end_to_end = m.header.hop_by_hop, m.header.end_to_end
                        conns[0].inbox.append(dpa.dump())
                        served["dpa"] = True
            return obs["phase"] == "done"
        status = s.run(until=until)
        alive = [(t.name, t.label[0] if isinstance(t.label, tuple) else str(t.label)) for t in s.tasks
                 if not t.done and t.name.endswith(LIB_THREADS)]
        try:
            state = d.get_current_state()
        except BaseException as e:
            state = "ERR " + type(e).__name__
        excs = [(t.name, type(t.exc).__name__) for t in s.tasks if t.exc is not None]
        info = {"status": status, "phase": obs["phase"], "state": state, "first_socket_closed": bool(conns and conns[0].closed),
                "listener_closed": bool(listeners and listeners[0].closed), "consumer": obs["consumer"], "alive": alive, "excs": excs,
                "second": obs["second"], "send_after": None, "teardown_at": teardown["at"], "cause_at": None, "steps": s.steps,
                "sockets": len(listeners) + len(conns), "close_exc": obs["close_exc"], "loop_evals_after_teardown": {}, "early": obs.get("early")}
    finally:
        s.kill()
        undo()
        ST.DiameterAssociation.close = orig_close
    return info


def verdict(info, cause, consumer):
    """the statement's clauses; returns (clause, detail, finding) or None"""
    if info["phase"] in ("setup",):
        return None                                   # the connection never reached the chosen point (scheduler budget)
    if info.get("early"):
        return (info["early"] + " (an application that restarts the node on Closed does so with the old sockets and threads alive)",
                {"state_at_end": info["state"]}, None)
    if info["phase"] == "cause-applied":
        # the connection did not end
        finding = FINDING_SILENT if cause == "local-silent" and info["state"] == "Closing" else None
        what = "the node did not reach Closed with its threads terminated after the connection ended (%s)" % cause
        return (what, {"state": info["state"], "alive_threads": info["alive"], "socket_closed": info["first_socket_closed"],
                       "consumer": info["consumer"], "scheduler": info["status"]}, finding)
    if not info["first_socket_closed"]:
        return ("the node reports Closed but the socket of the ended connection was not closed", {"state": info["state"]}, None)
    if info.get("listener_closed") is False:
        return ("the node reports Closed but its listening socket was not closed", {"state": info["state"]}, None)
    if consumer and cause not in ("refused", "eof-setup") and not info["consumer"].startswith("returned"):
        return ("an application call blocked in get_message() did not return after the connection ended", {"consumer": info["consumer"]}, None)
    if info.get("listener_closed") is None and info["send_after"] not in ("DiameterAssociationError", "AttributeError", None) and info["phase"] != "done":
        return ("send_message() on the closed node neither succeeded nor raised", {"send_after": info["send_after"]}, None)
    if info["phase"] == "ended" and info["second"] is None:
        if info["send_after"] is None and info.get("listener_closed") is None:
            return ("send_message() on the closed node blocked", {"scheduler": info["status"]}, None)
        return ("the same node object could not be started again", {"scheduler": info["status"], "state": info["state"]}, None)
    if info["second"] is not None and info["second"] != "open":
        return ("the same node object could not be started again", {"second_start": info["second"]}, None)
    bad = [e for e in info["excs"] if e[0] == "app"]
    if bad:
        return ("an application call on the node raised unexpectedly", bad, None)
    return None


def explore(chk, rng, n, tag):
    import logging
    logging.disable(logging.CRITICAL)
    lines = []
    for _ in range(max(6, n // 4)):
        seed = rng.randrange(2 ** 30)
        cause = rng.choice(["local", "dpr", "eof", "reset", "local-silent", "dpr", "eof"])
        consumer = rng.random() < 0.6
        lines_mode = rng.random() < 0.2
        info = server_scenario(seed, cause, consumer, lines_mode)
        inp = {"op": "teardown", "role": "server", "seed": seed, "cause": cause, "point": "idle", "consumer_blocked": consumer, "line_level": lines_mode}
        chk.case(inp, kind="%s:server:%s" % (tag, cause))
        if info["phase"] == "setup":
            chk.count("inconclusive:setup-not-finished")
        v = verdict(info, cause, consumer)
        if v:
            chk.violation(v[0], inp, "Closed, sockets (incl. the listening one) released, threads terminated, blocked calls returned, restartable",
                          v[1], finding=v[2])
        elif info["phase"] == "done":
            chk.count("server:ended-and-restarted")
    for _ in range(n):
        if chk.saturated():
            break
        seed = rng.randrange(2 ** 30)
        cause = rng.choice(CAUSES)
        point = rng.choice(POINTS)
        consumer = rng.random() < 0.6
        lines_mode = rng.random() < 0.2
        info = scenario(seed, cause, point, consumer, lines_mode)
        inp = {"op": "teardown", "seed": seed, "cause": cause, "point": point if cause not in ("refused", "eof-setup") else "setup",
               "consumer_blocked": consumer and cause not in ("refused", "eof-setup"), "line_level": lines_mode}
        chk.case(inp, kind="%s:%s:%s" % (tag, cause, inp["point"]))
        if info["phase"] == "setup":
            chk.count("inconclusive:setup-not-finished")
        v = verdict(info, cause, inp["consumer_blocked"])
        if v:
            chk.violation(v[0], inp, "Closed, socket released, threads terminated, blocked calls returned, restartable", v[1], finding=v[2])
        elif info["teardown_at"] is not None and info["phase"] == "done":
            chk.count("ended-and-restarted")
        # quantitative tie to Model/Teardown.lean (theorem exits_in_two / need_after): once the closing tick has set the flags a loop
        # evaluates its condition at most twice (once possibly half-way through when the flags changed, once to leave)
        for loop, n in info.get("loop_evals_after_teardown", {}).items():
            chk.count("loop-evaluations-after-closing-tick:%d" % n)
            if n > 2 and info["phase"] != "cause-applied":
                chk.corr_break("loop-exit-bound", inp, {"loop": loop, "evaluations_after_closing_tick": n}, "at most 2 (Model/Teardown.lean: need <= 2)")
        for name, exc in info["excs"]:
            if name != "app":
                chk.count("thread-ended-by-exception:%s:%s" % (name, exc))       # terminated, though not by leaving its loop
        # correspondence with the model's end state: Down and all loops exited
        model = core.run_driver(["down %s" % cause])[0] if False else None
    return


def run(chk):
    rng = random.Random(chk.seed)
    import gen_psm
    chk.tie_notes += gen_psm.generate()[1]       # tie (a): statemachine.py translated to Gen/PsmGen.lean on every run
    chk.lean = core.lean_build(["BromeliaVerif.Properties.C08", "BromeliaVerif.Properties.C06Gen"])
    chk.rule = ("the real client node under the simulation scheduler; termination causes {local close answered with a DPA, local close "
                "with a silent peer, valid DPR, DPR with another Disconnect-Cause, abrupt disconnect while open, disconnect during the "
                "capabilities exchange, connection reset (recv raising ECONNRESET), refused connection} x points {idle, queued outbound, queued inbound, both} x consumer blocked "
                "in get_message() or not; seeded random schedules (timed waits fire with probability 0.05 per step), 20% with "
                "hand-over before every source line of transport.py / setup.py / statemachine.py. After the cause: reported state, "
                "socket closed, the three library threads finished, consumer returned, send on the closed node raises, second start() "
                "on the same object reaches Open. distinct = distinct (seed, parameters).")
    chk.trusted += ["harness props/c08.py: scripted FakeSock and substituted selector/threading/queue/time; the tie to the Lean model is by end "
                    "state (Down: flags set, socket closed and unregistered; every loop exited) on every explored run, not by step-wise "
                    "replay; on line-level runs the number of loop-condition evaluations after the closing tick is compared with the model's bound",
                    "simulation scheduler harness/sim.py; fairness = the random scheduler eventually runs every enabled thread",
                    "server role: listening socket + one accepted connection per start(); SCTP is not exercised"]
    quick = chk.tier == "quick"
    explore(chk, rng, 60 if quick else 2500, "sweep")

    def search():
        explore(chk, rng, 150, "search")

    return chk.finish(search)


def replay(path):
    """re-runs the stored scenario (same seed and parameters) on the current tree"""
    import logging
    logging.disable(logging.CRITICAL)
    r = json.load(open(path))
    v = r.get("first")
    if not v:
        print(json.dumps(r.get("broken_theorems") or r.get("correspondence_breaks"), indent=1, default=str)[:3000])
        return 0
    i = v["input"]
    if i.get("role") == "server":
        info = server_scenario(i["seed"], i["cause"], i["consumer_blocked"], i["line_level"])
    else:
        point = i["point"] if i["point"] != "setup" else "idle"
        info = scenario(i["seed"], i["cause"], point, i["consumer_blocked"] or False, i["line_level"])
    now = verdict(info, i["cause"], i["consumer_blocked"])
    print("scenario: %s" % json.dumps(i))
    print("recorded: %s" % v["what"])
    print("now     : %s" % (("VIOLATED: %s %s%s" % (now[0], json.dumps(now[1], default=str)[:300], " [known finding %s]" % now[2] if now[2] else "")) if now else "the statement holds on this run"))
    return 1 if (now and not now[2]) else 0
