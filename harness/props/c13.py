# -*- coding: utf-8 -*-
"""C13 — each request reaches its registered handler and always gets exactly one answer."""
import json
import os
import random

import core

YAML = """api_version: v1
name: VERIF
spec:
%s
"""
SPEC = """  - applications:
%s
    mode: Server
    watchdog_timeout: 30
    transport_type: TCP
    local:
      ip_address: 127.0.0.1
      hostname: local%d.example
      realm: realm%d.example
      port: %d
    peer:
      ip_address: 127.0.0.1
      hostname: peer%d.example
      realm: example
      port: %d
"""
APPS = [("VENDOR_ID_3GPP", "DIAMETER_APPLICATION_S6a_S6d", 16777251), ("VENDOR_ID_3GPP", "DIAMETER_APPLICATION_Gx", 16777238),
        ("VENDOR_ID_3GPP", "DIAMETER_APPLICATION_Rx", 16777236), ("VENDOR_ID_3GPP", "DIAMETER_APPLICATION_SWx", 16777265)]
CMDS = [316, 318, 272, 258, 8388620]


class FakeBarrier:
    def wait(self, timeout=None):
        return 0

    def reset(self):
        pass


class FakeWorker:
    """in-process stand-in for the multiprocessing Worker: records what is put on its send queue"""

    def __init__(self, name, config):
        self.name = name
        self.sent = []
        self.app = type("App", (), {"config": config})()
        self.pending_answers = {}

    def is_running(self):
        return True

    def set_outgoing_message(self, msg):
        self.sent.append(msg)

    def insert_pending_answer(self, p):
        self.pending_answers[p.msg.header.hop_by_hop] = p


def make_app(n_apps, path):
    from bromelia import Bromelia
    specs = ""
    for i in range(n_apps):
        v, a, _ = APPS[i]
        specs += SPEC % ("      - vendor_id: %s\n        app_id: %s" % (v, a), i, i, 3868 + i, i, 4868 + i)
    with open(path, "w") as f:
        f.write(YAML % specs)
    app = Bromelia(config_file=path)
    app.request_threshold = FakeBarrier()
    app.answer_threshold = FakeBarrier()
    app.send_threshold = FakeBarrier()
    workers = {}
    for i, cfg in enumerate(app.configs):
        w = FakeWorker("w%d" % i, cfg)
        for application in cfg["APPLICATIONS"]:
            workers[application["app_id"]] = w
    app.associations = workers
    app.recv_queues = []
    return app, workers


def make_request(rng, app_id, cmd, with_sid=True):
    from bromelia.base import DiameterRequest
    from bromelia.avps import SessionIdAVP, OriginHostAVP, OriginRealmAVP, DestinationRealmAVP, UserNameAVP
    req = DiameterRequest(command_code=cmd, application_id=app_id.to_bytes(4, "big"))
    req.header.hop_by_hop = rng.choice([0, 1, 2 ** 32 - 1, rng.randrange(2 ** 32)])
    req.header.end_to_end = rng.choice([0, 1, 2 ** 32 - 1, rng.randrange(2 ** 32)])
    sid = bytes(rng.randrange(33, 127) for _ in range(rng.choice([1, 4, 7, 10, 33])))
    if with_sid:
        req.append(SessionIdAVP(sid))
    oh = "client%d.example" % rng.randrange(100)
    orr = "realm%d.example" % rng.randrange(100)
    req.append(OriginHostAVP(oh))
    req.append(OriginRealmAVP(orr))
    req.append(DestinationRealmAVP("example"))
    req.append(UserNameAVP("user"))
    return req, sid, oh.encode(), orr.encode()


def explore(chk, rng, n_tables, reqs_per_table, tag):
    import logging
    logging.disable(logging.CRITICAL)
    import bromelia.exceptions as X
    from bromelia.base import DiameterAnswer, DiameterRequest
    from bromelia.avps import SessionIdAVP, ResultCodeAVP, OriginHostAVP, OriginRealmAVP
    import threading
    lines, meta = [], []
    blocked = [0]
    for ti in range(n_tables):
        if blocked[0] >= 3:
            break
        n_apps = rng.choice([1, 2, 3, 4])
        app, workers = make_app(n_apps, os.path.join(core.WORK, "c13_%d.yaml" % os.getpid()))
        ran = []
        regs = []
        outcomes = {}

        def mk_handler(hid):
            def handler(request):
                ran.append(hid)
                kind = outcomes[hid]
                if kind == "answer":
                    a = DiameterAnswer(command_code=request.header.command_code, application_id=request.header.application_id)
                    if rng.random() < 0.7 and request.has_avp("session_id_avp"):
                        a.append(SessionIdAVP(b"stale"))
                    a.append(OriginHostAVP("h"))
                    a.append(OriginRealmAVP("r"))
                    a.append(ResultCodeAVP(rng.choice([2001, 5012, 3002, 4001, 5001]).to_bytes(4, "big")))
                    return a
                if kind == "none":
                    return None
                if kind == "wrong":
                    return rng.choice(["a string", 5, {"a": 1}, request, [1]])
                how = rng.choice(["msg", "msg", "noargs", "class", "assert"])
                exc = rng.choice([ValueError, KeyError, RuntimeError, ZeroDivisionError, NotImplementedError])
                if how == "msg":
                    raise exc("handler failure")
                if how == "noargs":
                    raise exc()
                if how == "class":
                    raise exc
                assert False
            if hid % 3:
                handler.__name__ = "handler_%d" % hid          # the others all share the name `handler`
            return handler

        n_regs = rng.choice([1, 2, 4, 6, 9])
        for hid in range(1, n_regs + 1):
            a = APPS[rng.randrange(n_apps)][2]
            c = rng.choice(CMDS)
            app.route(application_id=a.to_bytes(4, "big"), command_code=c.to_bytes(3, "big"))(mk_handler(hid))
            regs.append((a, c, hid))
            outcomes[hid] = rng.choice(["answer", "answer", "none", "wrong", "exc"])
        for _ in range(reqs_per_table):
            a, c, _h = rng.choice(regs)
            with_sid = rng.random() < 0.9
            req, sid, oh, orr = make_request(rng, a, c, with_sid)
            del ran[:]
            for w in workers.values():
                del w.sent[:]
            # the route runs in a thread of its own (as in create_message_thread); one that does not come back within
            # 5 s is blocked (e.g. waiting for an answer to something that is not a request of the application)
            box = {}

            def call(req=req, box=box):
                try:
                    app.callback_route(req)
                    box["exc"] = None
                except BaseException as e:
                    box["exc"] = ("lib" if type(e).__module__ == X.__name__ else "std") + ":" + type(e).__name__
            if blocked[0] >= 3:
                break
            th = threading.Thread(target=call, daemon=True)
            th.start()
            th.join(5.0)
            if th.is_alive():
                blocked[0] += 1
                exc = "blocked"
            else:
                exc = box.get("exc")
            sent = [(w.name, m) for w in dict.fromkeys(workers.values()) for m in w.sent]
            lines.append("route %d %s %d %d" % (len(regs), " ".join("%d %d %d" % r for r in regs), a, c))
            meta.append((list(regs), dict(outcomes), (a, c), with_sid, list(ran), sent, exc, req, sid, oh, orr,
                         workers[a.to_bytes(4, "big")]))
    out = core.run_driver(lines)
    for (regs, outcomes, (a, c), with_sid, ran, sent, exc, req, sid, oh, orr, worker), o in zip(meta, out):
        model_h = o.split("=")[1]
        kind = outcomes.get(int(model_h)) if model_h != "none" else None
        inp = {"op": "route", "registrations": regs, "request": [a, c], "with_session_id": with_sid, "outcome": kind}
        chk.case(inp, kind="route:%s:%s" % (kind, tag))
        impl_h = ",".join(map(str, ran)) or "none"
        if impl_h != model_h:
            chk.corr_break("dispatch", inp, impl_h, model_h)
        # specification: the handler registered LAST for exactly this pair, and no other
        want = [h for (ra, rc, h) in regs if (ra, rc) == (a, c)][-1]
        if exc == "blocked":
            chk.violation("the request thread never comes back from the route (no single answer is handed over and the thread is stuck)", inp,
                          "exactly one answer, route returns", {"sent": len(sent), "handler_outcome": kind})
            continue
        if ran != [want]:
            chk.violation("request not dispatched to exactly the handler registered for its (Application-ID, command code)", inp, [want], ran)
        if not with_sid and kind != "answer":
            chk.count("request-without-session-id:error-path")       # outside the statement (error answer carries the Session-Id)
            continue
        if len(sent) != 1:
            chk.violation("not exactly one answer sent for the request", inp, 1, "%d sent, raised %s" % (len(sent), exc))
            continue
        wname, m = sent[0]
        if wname != worker.name:
            chk.violation("answer sent on another application's connection", inp, worker.name, wname)
        if not isinstance(m, DiameterAnswer) or m.header.is_request():
            chk.violation("what was sent is not an answer", inp, "DiameterAnswer", type(m).__name__)
            continue
        ident = (m.header.get_application_id(), m.header.get_command_code(), m.header.get_hop_by_hop(), m.header.get_end_to_end())
        rident = (a, c, req.header.get_hop_by_hop(), req.header.get_end_to_end())
        if ident != rident:
            chk.violation("answer does not carry the request's identifiers", inp, rident, ident)
        if with_sid and (not m.has_avp("session_id_avp") or m.session_id_avp.data != sid):
            chk.violation("answer does not carry the request's Session-Id", inp, sid.hex(), None)
        if kind != "answer":
            cfg = worker.app.config
            exp = {"rc": 5012, "oh": cfg["LOCAL_NODE_HOSTNAME"].encode(), "or": cfg["LOCAL_NODE_REALM"].encode(), "dr": orr, "dh": oh}
            got = {"rc": int.from_bytes(m.result_code_avp.data, "big") if m.has_avp("result_code_avp") else None,
                   "oh": m.origin_host_avp.data if m.has_avp("origin_host_avp") else None,
                   "or": m.origin_realm_avp.data if m.has_avp("origin_realm_avp") else None,
                   "dr": m.destination_realm_avp.data if m.has_avp("destination_realm_avp") else None,
                   "dh": m.destination_host_avp.data if m.has_avp("destination_host_avp") else None}
            if got != exp:
                chk.violation("error answer is not DIAMETER_UNABLE_TO_COMPLY from the local origin to the requester", inp,
                              {k: (v.decode() if isinstance(v, bytes) else v) for k, v in exp.items()},
                              {k: (v.decode() if isinstance(v, bytes) else v) for k, v in got.items()})
            if m.header.get_length() != len(m.dump()):
                chk.violation("error answer's Message Length differs from its size", inp, len(m.dump()), m.header.get_length())


def summary(m):
    get = lambda k: (getattr(m, k).data.hex() if m.has_avp(k) else None)
    return (m.header.get_application_id(), m.header.get_command_code(), m.header.get_hop_by_hop(), m.header.get_end_to_end(),
            m.header.is_request(), get("session_id_avp"), get("result_code_avp"), get("destination_host_avp"), get("destination_realm_avp"),
            get("origin_host_avp"))


def concurrent_part(chk, rng, n):
    """one dispatcher thread per request (create_message_thread): 2..3 requests inside callback_route at once, every
    interleaving at source-line granularity of bromelia.py; the answers sent must be, request by request, the ones sent
    when each request is handled alone"""
    import logging
    logging.disable(logging.CRITICAL)
    import sim as simlib
    from bromelia.base import DiameterAnswer
    from bromelia.avps import ResultCodeAVP, OriginHostAVP, OriginRealmAVP
    for k in range(n):
        if chk.saturated():
            break
        app, workers = make_app(1, os.path.join(core.WORK, "c13c_%d.yaml" % os.getpid()))
        a = APPS[0][2]
        c = rng.choice(CMDS)
        outcomes = {}

        def handler(request):
            kind = outcomes[request.header.get_hop_by_hop()]
            if kind == "answer":
                ans = DiameterAnswer(command_code=request.header.command_code, application_id=request.header.application_id)
                ans.append(OriginHostAVP("h"))
                ans.append(OriginRealmAVP("r"))
                ans.append(ResultCodeAVP((2001).to_bytes(4, "big")))
                return ans
            if kind == "none":
                return None
            raise ValueError("handler failure")
        app.route(application_id=a.to_bytes(4, "big"), command_code=c.to_bytes(3, "big"))(handler)
        reqs = []
        for i in range(rng.choice([2, 2, 3])):
            req, sid, oh, orr = make_request(rng, a, c, True)
            req.header.hop_by_hop = 100 + i
            req.header.end_to_end = 200 + i
            outcomes[100 + i] = rng.choice(["answer", "none", "exc", "exc"])
            reqs.append(req)
        worker = workers[a.to_bytes(4, "big")]

        def sent_now():
            out = sorted(map(summary, worker.sent), key=repr)
            del worker.sent[:]
            return out
        alone = []
        for req in reqs:
            try:
                app.callback_route(req)
            except BaseException as e:
                if isinstance(e, (KeyboardInterrupt, SystemExit)):
                    raise
            alone += sent_now()
        alone.sort(key=repr)
        seed = rng.randrange(2 ** 30)
        s = simlib.Sim(seed=seed, trace_files=("bromelia/bromelia.py",), max_steps=60000, timeout_prob=0)
        s.keep_log = False
        s.spin_timeout = 8.0
        how = rng.choice(["random", "pct", "pct"])
        chooser = simlib.pct_chooser(random.Random(seed), rng.choice([1, 2, 3]), 150) if how == "pct" else None
        try:
            for i, req in enumerate(reqs):
                s.spawn((lambda req=req: app.callback_route(req)), "D%d" % i)
            status = s.run(chooser=chooser)
        finally:
            s.kill()
        together = sent_now()
        inp = {"op": "concurrent-dispatch", "request": [a, c], "outcomes": [outcomes[100 + i] for i in range(len(reqs))], "how": how, "seed": seed,
               "schedule": list(s.choices)[:1500]}
        chk.case(inp, kind="route-concurrent")
        if status != "finished":
            chk.violation("concurrent dispatcher threads did not finish (%s)" % status, inp, "finished", status)
        elif together != alone:
            chk.violation("with several requests in the dispatcher at once the answers sent are not the ones each request gets alone "
                          "(an answer built from another request, a request without answer, or two answers for one)", inp,
                          [str(x) for x in alone], [str(x) for x in together])


def run(chk):
    rng = random.Random(chk.seed)
    chk.lean = core.lean_build(["BromeliaVerif.Properties.C13"])
    chk.rule = ("route tables over 1..4 configured applications x 5 command codes (codes shared across applications, pairs "
                "re-registered) x handler outcomes {answer (with/without its own Session-Id, success and error Result-Codes), None, "
                "wrong type (str/int/dict/request/list), standard exception}; each request goes through the real "
                "Bromelia.callback_route with an in-process worker; observed: which handler ran, the worker send queues. "
                "distinct = distinct (registrations, request, outcome).")
    chk.trusted += ["correspondence harness props/c13.py: in-process FakeWorker instead of the multiprocessing Worker; the three "
                    "rate-limiting Barriers are replaced by no-ops", "PyYAML"]
    n_tables = 60 if chk.tier == "quick" else 3000
    explore(chk, rng, n_tables, 30, "sweep")
    concurrent_part(chk, rng, 40 if chk.tier == "quick" else 2000)

    def search():
        explore(chk, rng, 4 * n_tables, 20, "search")

    return chk.finish(search)


def replay(path):
    r = json.load(open(path))
    print(json.dumps(r.get("first") or r.get("broken_theorems") or r.get("correspondence_breaks"), indent=1, default=str)[:3000])
    return 1 if r.get("first") else 0
