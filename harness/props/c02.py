# -*- coding: utf-8 -*-
"""C02 — decoding preserves every field on the wire and re-encodes byte-identically."""
import json
import random

import core
import gen_dict
import bromgen

FINDING_REFLAG = "C02-known-avp-reflagged"


class Budget(Exception):
    pass


def canon_avp(a, out=None, budget=None):
    """canonical text of a decoded AVP (recursively for Grouped classes); `budget` bounds the total size so that a
    runaway decoder cannot exhaust memory (the truncated text still differs from the model's)"""
    from bromelia.base import DiameterAVP
    from bromelia.types import GroupedType
    top = out is None
    if top:
        out, budget = [], [8000000]
    vs = "-" if a.vendor_id is None else str(int.from_bytes(a.vendor_id, "big"))
    d = a.data
    dh = (bytes(d).hex() if d else "") or "-"
    cls = "-" if type(a) is DiameterAVP else type(a).__name__
    kids = list(a.avps) if isinstance(a, GroupedType) else []
    piece = "A %d %d %s %s %s %d" % (a.get_code(), a.get_flags(), vs, dh, cls, len(kids))
    budget[0] -= len(piece)
    if budget[0] < 0:
        raise Budget()
    out.append(piece)
    for k in kids:
        canon_avp(k, out, budget)
    if top:
        return " ".join(out)


def canon_msgs(ms):
    parts = []
    budget = [8000000]
    try:
        for m in ms:
            h = m.header
            out = ["H %d %d %d %d %d %d %d %d" % (h.get_version(), h.get_length(), h.get_flags(), h.get_command_code(),
                                                   h.get_application_id(), h.get_hop_by_hop(), h.get_end_to_end(), len(m.avps))]
            for a in m.avps:
                canon_avp(a, out, budget)
            d = m.dump().hex() or "-"
            budget[0] -= len(d)
            if budget[0] < 0:
                raise Budget()
            out += ["R", d]
            parts.append(" ".join(out))
    except Budget:
        parts.append("...TRUNCATED (output larger than the canonical-text budget)")
    return "ok " + " | ".join(parts)


def load_impl(wire):
    from bromelia.base import DiameterMessage
    import bromelia.exceptions as X
    import watch
    kind, res, iters = watch.guarded_load(DiameterMessage.load, wire)
    if kind == "ok":
        return canon_msgs(res)
    if kind == "hang":
        return "hang (decoder still looping after %d iterations on %d bytes)" % (iters, len(wire))
    e = res
    if isinstance(e, X.AVPParsingError):
        return "err:parsing"
    return "err:" + ("lib:" if type(e).__module__ == X.__name__ else "std:") + type(e).__name__


HDR = {"version": [1, 0, 255], "flags": [0x00, 0x80, 0x40, 0xc0, 0x20, 0x10, 0xff],
       "cmd": [0, 257, 280, 316, 2 ** 24 - 1], "u32": [0, 1, 16777251, 2 ** 31, 2 ** 32 - 1]}


def gen_stream(g):
    r = g.rng
    nm = r.choice([1, 1, 2, 3, 4])
    toks = ["c02", str(nm)]
    for _ in range(nm):
        hf = (r.choice(HDR["version"]), r.choice(HDR["flags"] + [r.randrange(256)]), r.choice(HDR["cmd"] + [r.randrange(2 ** 24)]),
              r.choice(HDR["u32"] + [r.randrange(2 ** 32)]), r.choice(HDR["u32"] + [r.randrange(2 ** 32)]),
              r.choice(HDR["u32"] + [r.randrange(2 ** 32)]))
        k = r.choice([0, 1, 2, 3, 6])
        body = []
        for _ in range(k):
            _, t = g.tree(r.choice([0, 1, 2, 3]))
            body += t
        toks += [str(x) for x in hf] + [str(k)] + body
    return " ".join(toks)


def explore(chk, g, n, tag):
    lines = [gen_stream(g) for _ in range(n)]
    out = core.run_driver(lines)
    for line, res in zip(lines, out):
        if " ;; " not in res:
            chk.count("generator-out-of-domain:" + res[:20])
            continue
        head, model, spec = res.split(" ;; ")
        f = dict(p.split("=", 1) for p in head.split(" "))
        wire = bytes.fromhex(f["wire"]) if f["wire"] != "-" else b""
        impl = load_impl(wire)
        inp = {"op": "load", "desc": line[4:], "wire": f["wire"]}
        chk.case(inp, kind="stream:%s:reflag=%s" % (tag, f["reflag"]))
        if impl != model:
            chk.corr_break("load", inp, impl[:400], model[:400])
        if impl != spec:
            chk.violation("decoded objects / re-serialisation differ from the wire content", inp, spec[:600], impl[:600],
                          finding=FINDING_REFLAG if f["reflag"] == "1" else None)


def witness(chk):
    """replays the listed known finding on the implementation (prints KNOWN-FINDING only while it reproduces)"""
    wire = bytes.fromhex("010000208000010100000000000000010000000200000108000000096800000000"[:64])
    from bromelia.base import DiameterMessage
    m = DiameterMessage.load(bytes.fromhex("0100002080000101000000000000000100000002" + "000001080000000968000000"))[0]
    return m.avps[0].get_flags() != 0


def threads_part(chk, rng, n):
    """decoding is a function of the bytes: several receive workers (one per connection) decoding at once must each get the
    classes and fields they get alone - every interleaving at source-line granularity inside the AVP class registry"""
    import threadsafe
    import bromelia.base as B
    from bromelia.base import DiameterMessage, DiameterHeader
    from bromelia.avps import (OriginHostAVP, UserNameAVP, VendorIdAVP, ResultCodeAVP, SessionIdAVP, VisitedPlmnIdAVP, RatTypeAVP,
                               SubscriptionIdAVP, SubscriptionIdTypeAVP, SubscriptionIdDataAVP)
    pool = [OriginHostAVP("a.example"), UserNameAVP("u"), VendorIdAVP(10415), ResultCodeAVP((2001).to_bytes(4, "big")), SessionIdAVP(b"s;1;2"),
            VisitedPlmnIdAVP(b"\x27\xf4\x50"), RatTypeAVP((1004).to_bytes(4, "big")),
            SubscriptionIdAVP([SubscriptionIdTypeAVP((0).to_bytes(4, "big")), SubscriptionIdDataAVP("5511")])]
    wires = []
    for a in pool:
        m = DiameterMessage(DiameterHeader(command_code=316, application_id=16777251))
        m.append(a)
        wires.append(m.dump())

    def decode(w):
        ms = DiameterMessage.load(w)
        return [(type(a).__name__, a.dump().hex()) for m in ms for a in m.avps]

    def make_threads(r):
        idx = [r.randrange(len(wires)) for _ in range(r.choice([2, 2, 3]))]
        return [[(lambda w=wires[i]: decode(w))] * r.choice([1, 2]) for i in idx], {"avp_classes": [type(pool[i]).__name__ for i in idx]}

    funcs = {n for n, v in vars(B.DiameterAvpLoader).items() if callable(v)} | {"load"}
    threadsafe.explore(chk, "decoder", make_threads, lambda: B.loader.__init__(), ("bromelia/base.py",), rng, n, funcs=funcs)


def run(chk):
    rng = random.Random(chk.seed)
    gen_dict.generate()
    chk.lean = core.lean_build(["BromeliaVerif.Properties.C02"])
    g = bromgen.Gen(rng)
    g.build, g.flag_mode, g.override = False, "all", 0.5
    chk.rule = ("wire images produced by the Lean reference encoder (not by bromelia) from generated content: 1-4 concatenated "
                "messages, boundary/random header fields and command flags, dictionary classes with in-domain data and any flag "
                "byte consistent with the V bit, unknown (vendor, code) pairs, Vendor-ID 0, nesting up to depth 3; decoded by "
                "DiameterMessage.load and observed through the public getters and dump(). distinct = distinct descriptor lines. "
                "Streams in which a known AVP carries a non-default flag byte fall inside the guard of the known finding "
                + FINDING_REFLAG + " and are counted separately (distribution keys reflag=1).")
    chk.trusted += ["correspondence harness props/c02.py + generators harness/bromgen.py", "CPython bytes/int conversions",
                    "DiameterURI data (one class, Redirect-Host) is not modelled and not generated for C02"]
    g.leaf_names = [n for n in g.leaf_names]
    n = 6000 if chk.tier == "quick" else 300000
    explore(chk, g, n, "sweep")
    g.override = 0.0                                   # default flags only: outside the guard, full byte identity
    explore(chk, g, n // 2, "default-flags")
    g.big = 0.15                                       # AVP lengths across the 2^16 boundary, followed by further AVPs
    explore(chk, g, 60 if chk.tier == "quick" else 3000, "big-avps")
    g.big = 0.002
    from props import c10
    c10.late_registration(chk)
    threads_part(chk, rng, 30 if chk.tier == "quick" else 2000)
    chk.extra["classes_hit"] = len([k for k in g.hits if not k.startswith("kind:") and k != "generic"])

    def search():
        g.override = 0.3
        explore(chk, g, 4 * n, "search")

    return chk.finish(search)


def replay(path):
    r = json.load(open(path))
    v = r.get("first")
    if not v:
        print(json.dumps(r.get("broken_theorems"), indent=1)[:3000])
        return 0
    wire = bytes.fromhex(v["input"]["wire"])
    got = load_impl(wire)
    print("wire=%s\nexpected=%s\nimplementation=%s" % (wire.hex(), v["expected"], got[:600]))
    return 0 if got[:600] == v["expected"] else 1
