# -*- coding: utf-8 -*-
"""C19 — a configuration is reflected faithfully or rejected, never silently altered."""
import copy
import itertools
import json
import os
import random

import core

KEYS = ["MODE", "TRANSPORT_TYPE", "APPLICATIONS", "LOCAL_NODE_HOSTNAME", "LOCAL_NODE_REALM", "LOCAL_NODE_IP_ADDRESS",
        "LOCAL_NODE_PORT", "PEER_NODE_HOSTNAME", "PEER_NODE_REALM", "PEER_NODE_IP_ADDRESS", "PEER_NODE_PORT", "WATCHDOG_TIMEOUT"]
VID, AID = b"\x00\x00\x28\xaf", b"\x01\x00\x00\x23"


class Obj:
    """an arbitrary object used as a configuration value"""

    def __init__(self, tag):
        self.tag = tag

    def __repr__(self):
        return "Obj(%d)" % self.tag


def values_for(key):
    """(python value, valid by the statement?) alphabet per key"""
    if key == "MODE":
        return [("CLIENT", True), ("SERVER", True), ("client", False), ("Client", False), ("", False), (None, False), (5, False), ("PROXY", False)]
    if key == "TRANSPORT_TYPE":
        return [("TCP", True), ("SCTP", True), ("tcp", False), ("UDP", False), ("", False), (None, False), (0, False), (7, False)]
    if key == "APPLICATIONS":
        return [([], True), ([{"vendor_id": VID, "app_id": AID}], True), ([{"vendor_id": VID, "app_id": AID}, {"vendor_id": VID, "app_id": VID}], True),
                ([{"vendor_id": VID}], True), ([{"foo": VID}], False), ([{"vendor_id": "str", "app_id": AID}], False), (None, True),
                ("abc", False), ({"vendor_id": VID}, False), (5, False), ([5], False), ([{}], False)]
    if key.endswith("IP_ADDRESS"):
        return [("127.0.0.1", True), ("10.0.0.255", True), ("0.0.0.0", True), ("10.0.0.256", False), ("1.2.3", False), ("01.2.3.4", False),
                ("::1", False), ("localhost", False), (None, False), (2130706433, True), (1.5, False), ("1.2.3.4 ", False), ("", False), (-1, False)]
    if key == "WATCHDOG_TIMEOUT":
        return [(30, True), (0, True), (-1, True), ("30", False), (None, False), (1.5, False), ([30], False)]
    if key.endswith("PORT"):
        return [(3868, True), ("3868", True), (None, True), (0, True)]
    return [("host.example", True), ("", True), (None, True), (5, True), (Obj(1), True)]


class Tokens:
    def __init__(self):
        self.tags = {}

    def tok(self, v):
        if v is None:
            return "n"
        if isinstance(v, bool):
            return "o:%d" % self.tag(v)
        if isinstance(v, str):
            return "s:" + (v.encode().hex() or "-")
        if isinstance(v, int):
            return "i:%d" % v
        if isinstance(v, list) and all(isinstance(e, dict) for e in v):
            ents = []
            for e in v:
                ents.append("%s/%d" % ("+".join(e.keys()), 1 if all(isinstance(x, bytes) for x in e.values()) else 0))
            return "a:%d:%s" % (self.tag(v), ",".join(ents))
        return "o:%d" % self.tag(v)

    def tag(self, v):
        k = id(v)
        if k not in self.tags:
            self.tags[k] = (len(self.tags) + 1, v)
        return self.tags[k][0]

    def short(self, v):
        t = self.tok(v)
        return t if not t.startswith("a:") else ":".join(t.split(":")[:2])


def convert_impl(cfg, how):
    import bromelia.exceptions as X
    from bromelia._internal_utils import _convert_config_to_connection_obj
    from bromelia.config import Config
    try:
        if how == 0:
            conn = _convert_config_to_connection_obj(cfg)
        elif how == 1:
            conn = _convert_config_to_connection_obj(Config(cfg))
        else:
            from bromelia.setup import Diameter
            d = Diameter(config=cfg)
            conn = d._connection
        return ("ok", conn)
    except BaseException as e:
        if isinstance(e, (KeyboardInterrupt, SystemExit)):
            raise
        if isinstance(e, X.InvalidConfigKey):
            return ("err:key", None)
        if isinstance(e, X.InvalidConfigValue):
            return ("err:value", None)
        return ("err:other:" + type(e).__name__, None)


def conn_tokens(T, conn):
    ln, pn = conn.local_node, conn.peer_node
    vals = [conn.mode, conn.transport_type, conn.application_ids, ln.host_name, ln.realm, ln.ip_address, ln.port,
            pn.host_name, pn.realm, pn.ip_address, pn.port, conn.watchdog_timeout]
    return "ok " + " ".join(T.short(v) for v in vals)


def canonical(items):
    """every value has the documented type of its key (then rejecting the configuration contradicts the statement's 'accepted')"""
    for k, v in items:
        if isinstance(v, bool):
            return False
        if k in ("MODE", "TRANSPORT_TYPE") or k.endswith("IP_ADDRESS"):
            ok = isinstance(v, str)
        elif k.endswith("HOSTNAME") or k.endswith("REALM"):
            ok = isinstance(v, str) and v != ""
        elif k.endswith("PORT"):
            ok = isinstance(v, int)
        elif k == "WATCHDOG_TIMEOUT":
            ok = isinstance(v, int) and v >= 0
        elif k == "APPLICATIONS":
            ok = isinstance(v, list)
        else:
            ok = True
        if not ok:
            return False
    return True


def explore(chk, rng, cfgs, tag):
    lines, meta = [], []
    for items, valid, how in cfgs:
        T = Tokens()
        cfg = dict(items)
        snapshot = {k: T.tok(v) for k, v in cfg.items()}
        lines.append("config " + " ".join("%s %s" % (k.encode().hex() or "-", T.tok(v)) for k, v in items))
        res = convert_impl(cfg, how)
        after = {k: T.tok(v) for k, v in cfg.items()}
        meta.append((items, valid, how, T, res, snapshot, after))
    out = core.run_driver(lines)
    for (items, valid, how, T, res, snapshot, after), o in zip(meta, out):
        inp = {"op": "config", "via": ["convert", "Config+convert", "Diameter(config=)"][how], "items": [[k, T.short(v)] for k, v in items]}
        chk.case(inp, kind="config:%s:%s" % (tag, "valid" if valid else "invalid"))
        impl = conn_tokens(T, res[1]) if res[0] == "ok" else res[0]
        if impl != o:
            chk.corr_break("config", inp, impl, o)
        keys = [k for k, _ in items]
        complete = sorted(keys) == sorted(KEYS)
        if not complete and not any(k not in KEYS for k in keys):
            continue                                   # the statement is about complete configurations (and unknown keys)
        if res[0].startswith("err:other"):
            chk.violation("configuration rejected with an error that is not the library's configuration error", inp,
                          "InvalidConfigKey / InvalidConfigValue", res[0])
            continue
        if res[0] == "ok":
            if not valid:
                chk.violation("invalid configuration silently accepted", inp, "rejected", impl)
            cfgd = dict(items)
            want = "ok " + " ".join(T.short(cfgd[k]) for k in KEYS)
            if impl != want:
                chk.violation("accepted configuration is not reflected exactly", inp, want, impl)
        elif valid and canonical(items):
            chk.violation("valid complete configuration rejected", inp, "accepted", res[0])
        # a configuration with values of a marginal type (an integer address, a port given as None or as text, a host name that is
        # not text) that the unchanged code happens to accept may be rejected with the library's error without breaking the
        # statement: that case is a difference from the model only (recorded above as a correspondence break)
        if snapshot != after or list(after) != [k for k, _ in items]:
            chk.violation("the caller's configuration dictionary was altered", inp, snapshot, after)


def base_valid(rng):
    return {"MODE": rng.choice(["CLIENT", "SERVER"]), "TRANSPORT_TYPE": rng.choice(["TCP", "SCTP"]),
            "APPLICATIONS": rng.choice([[], [{"vendor_id": VID, "app_id": AID}]]), "LOCAL_NODE_HOSTNAME": "l.example",
            "LOCAL_NODE_REALM": "example", "LOCAL_NODE_IP_ADDRESS": "127.0.0.1", "LOCAL_NODE_PORT": 3868,
            "PEER_NODE_HOSTNAME": "p.example", "PEER_NODE_REALM": "example", "PEER_NODE_IP_ADDRESS": "10.0.0.2", "PEER_NODE_PORT": 3868,
            "WATCHDOG_TIMEOUT": 30}


def sane_for_diameter(b):
    """Diameter(config=) goes on to build the base messages from the connection; that needs ordinary identities,
    ports and complete application entries (their handling is outside this property)"""
    if not all(isinstance(b.get(k), str) and b.get(k) for k in ("LOCAL_NODE_HOSTNAME", "LOCAL_NODE_REALM", "PEER_NODE_HOSTNAME", "PEER_NODE_REALM")):
        return False
    if not all(isinstance(b.get(k), int) for k in ("LOCAL_NODE_PORT", "PEER_NODE_PORT")):
        return False
    apps = b.get("APPLICATIONS")
    if not isinstance(apps, list) or not all(isinstance(a, dict) and set(a) == {"vendor_id", "app_id"} and
                                             all(isinstance(x, bytes) for x in a.values()) for a in apps):
        return False
    return isinstance(b.get("LOCAL_NODE_IP_ADDRESS"), str) and isinstance(b.get("PEER_NODE_IP_ADDRESS"), str)


def gen_cfgs(rng, n_rand):
    cfgs = []
    # 1. every key x every value of its alphabet, in a valid context, through the three entry points
    for key in KEYS:
        for v, ok in values_for(key):
            for how in (0, 1, 2):
                b = base_valid(rng)
                b[key] = copy.deepcopy(v) if not isinstance(v, Obj) else v
                items = list(b.items())
                if rng.random() < 0.5:
                    rng.shuffle(items)
                if how == 2 and not sane_for_diameter(b):
                    continue
                cfgs.append((items, ok, how))
    # 2. unknown keys (anywhere in the order), with valid and invalid other values
    for extra in ("FOO", "mode", "MODE ", "WATCHDOG", ""):
        for pos in (0, 5, 12):
            b = list(base_valid(rng).items())
            b.insert(pos, (extra, 1))
            cfgs.append((b, False, rng.randrange(3)))
    # 3. random combinations of valid / invalid values and random key orders
    for _ in range(n_rand):
        b, ok = {}, True
        for key in KEYS:
            v, vok = rng.choice(values_for(key))
            if rng.random() < 0.75:
                v, vok = [x for x in values_for(key) if x[1]][0]
            b[key] = copy.deepcopy(v) if not isinstance(v, Obj) else v
            ok = ok and vok
        items = list(b.items())
        rng.shuffle(items)
        cfgs.append((items, ok, rng.randrange(3) if sane_for_diameter(b) else rng.randrange(2)))
    return cfgs


def explore_orders(chk, rng, n):
    """order independence: the same items in different key orders give the same outcome"""
    for _ in range(n):
        b = base_valid(rng)
        for key in rng.sample(KEYS, rng.choice([0, 1, 2, 3])):
            b[key] = rng.choice(values_for(key))[0]
        items = list(b.items())
        outcomes = set()
        for _p in range(6):
            rng.shuffle(items)
            T = Tokens()
            res = convert_impl(dict(items), 0)
            outcomes.add(conn_tokens(T, res[1]) if res[0] == "ok" else res[0])
        inp = {"op": "config-orders", "items": [[k, Tokens().short(v)] for k, v in sorted(b.items())]}
        chk.case(inp, kind="config:orders")
        if len(outcomes) != 1:
            chk.violation("outcome depends on the order of the configuration keys", inp, "one outcome", sorted(outcomes))


def explore_yaml(chk, rng, n):
    from bromelia._internal_utils import _convert_file_to_config
    import bromelia.constants as K
    path = os.path.join(core.WORK, "c19_%d.yaml" % os.getpid())
    lines, meta = [], []
    for _ in range(n):
        k = rng.choice([1, 2, 3, 4])
        specs, ytext, applists, scal = [], "api_version: v1\nname: X\nspec:\n", [], []
        for i in range(k):
            mode = rng.choice(["Client", "SERVER", "server", "client", "cLiEnT"])
            tr = rng.choice([None, None, "TCP", "sctp", "Sctp", "tcp"])
            specs.append((mode, tr))
            apps = rng.choice([["DIAMETER_APPLICATION_S6a_S6d"], ["DIAMETER_APPLICATION_S6a_S6d"], [], ["DIAMETER_APPLICATION_Gx"],
                               ["DIAMETER_APPLICATION_Rx", "DIAMETER_APPLICATION_S6a_S6d"]])
            applists.append(apps)
            if apps:
                ytext += "  - applications:\n" + "".join("      - vendor_id: VENDOR_ID_3GPP\n        app_id: %s\n" % a for a in apps)
            else:
                ytext += "  - applications: []\n"
            # scalars as a YAML author may write them: integers, fractions, quoted numbers, other radices. What counts as the
            # configured value is what the YAML reader makes of the scalar; it must arrive exactly so (type and value)
            wd_text = rng.choice([str(30 + i)] * 4 + ["2.5", "0.9", "7.0", '"30"', "0", "0x1e", "1e1", "'45'"])
            lp_text = rng.choice([str(3868 + i)] * 4 + ['"3868"', "3868.0", "65535", "0", "3868.5"])
            pp_text = rng.choice(["3868"] * 4 + ['"3869"', "3869.9", "1"])
            scal.append((wd_text, lp_text, pp_text))
            ytext += "    mode: %s\n    watchdog_timeout: %s\n" % (mode, wd_text)
            if tr is not None:
                ytext += "    transport_type: %s\n" % tr
            ytext += "    local:\n      ip_address: 127.0.0.1\n      hostname: l%d\n      realm: r\n      port: %s\n" % (i, lp_text)
            ytext += "    peer:\n      ip_address: 10.0.0.%d\n      hostname: p%d\n      realm: r\n      port: %s\n" % (i, i, pp_text)
        with open(path, "w") as f:
            f.write(ytext)
        try:
            got = _convert_file_to_config(path, vars(K))
            res = [(c["MODE"], c["TRANSPORT_TYPE"], c["APPLICATIONS"], c["LOCAL_NODE_HOSTNAME"], c["PEER_NODE_IP_ADDRESS"], c["WATCHDOG_TIMEOUT"],
                    c["LOCAL_NODE_PORT"], c["PEER_NODE_PORT"]) for c in got]
        except BaseException as e:
            if isinstance(e, (KeyboardInterrupt, SystemExit)):
                raise
            res = "exc:" + type(e).__name__
        lines.append("yaml " + " ".join("%s %s" % (m.encode().hex(), "-" if t is None else t.encode().hex()) for m, t in specs))
        meta.append((specs, res, applists, scal))
    out = core.run_driver(lines)
    import yaml as _yaml
    same = lambda a, b: type(a) is type(b) and a == b
    for (specs, res, applists, scal), o in zip(meta, out):
        inp = {"op": "yaml", "entries": [[m, t, a] for (m, t), a in zip(specs, applists)], "scalars(watchdog,local port,peer port)": scal}
        chk.case(inp, kind="yaml:%d-entries" % len(specs))
        if isinstance(res, str):
            chk.violation("YAML specification could not be converted", inp, "one configuration per entry", res)
            continue
        impl = " ".join("s:%s/s:%s" % (m.encode().hex(), t.encode().hex()) for (m, t, *_rest) in res)
        if impl != o:
            chk.corr_break("yaml", inp, impl, o)
        want = [(m.upper(), (t or "tcp").upper()) for m, t in specs]
        if [(r[0], r[1]) for r in res] != want:
            chk.violation("YAML entries are not mapped one-to-one with case-normalised mode/transport and TCP by default", inp, want,
                          [(r[0], r[1]) for r in res])
        for i, r in enumerate(res):
            wd, lp, pp = (_yaml.safe_load(t) for t in scal[i])
            if not (same(r[5], wd) and same(r[6], lp) and same(r[7], pp)):
                chk.violation("YAML entry: watchdog timeout / ports are not the configured values", inp,
                              {"watchdog": repr(wd), "local_port": repr(lp), "peer_port": repr(pp)},
                              {"watchdog": repr(r[5]), "local_port": repr(r[6]), "peer_port": repr(r[7])})
            if r[2] != [{"vendor_id": VID, "app_id": getattr(K, a)} for a in applists[i]] or r[3] != "l%d" % i or r[4] != "10.0.0.%d" % i:
                chk.violation("YAML entry not reflected (applications resolved by name, identities, addresses, timeout)", inp,
                              "entry %d as written" % i, str(r[2:])[:200])
    try:
        os.remove(path)
    except OSError:
        pass


def run(chk):
    rng = random.Random(chk.seed)
    chk.lean = core.lean_build(["BromeliaVerif.Properties.C19"])
    chk.rule = ("complete configurations: every key x every value of its alphabet (valid, wrong type, wrong range, falsy) in a valid "
                "context through _convert_config_to_connection_obj, Config()+convert and Diameter(config=); unknown extra keys at "
                "several positions; random valid/invalid combinations in random key orders; the same items in 6 random orders; YAML "
                "spec lists of 1..4 entries with mixed-case modes and present/absent transport. distinct = distinct (items in order, entry point).")
    chk.trusted += ["correspondence harness props/c19.py", "CPython ipaddress.IPv4Address (cross-checked by Model/Ipv4.lean on every string value)", "PyYAML"]
    explore(chk, rng, gen_cfgs(rng, 1500 if chk.tier == "quick" else 150000), "sweep")
    explore_orders(chk, rng, 300 if chk.tier == "quick" else 30000)
    explore_yaml(chk, rng, 200 if chk.tier == "quick" else 20000)

    def search():
        explore(chk, rng, gen_cfgs(rng, 6000), "search")

    return chk.finish(search)


def replay(path):
    r = json.load(open(path))
    print(json.dumps(r.get("first") or r.get("broken_theorems") or r.get("correspondence_breaks"), indent=1, default=str)[:3000])
    return 1 if r.get("first") else 0
