# -*- coding: utf-8 -*-
"""C12 — answers leaving a route carry the request's identity and a correct error flag."""
import json
import random

import core

BOUNDARY_CODES = sorted(set(
    [k * 1000 + d for k in range(0, 8) for d in (0, 1, 2, 8, 9, 10, 12, 17, 100, 101, 181, 499, 500, 998, 999)] +
    [2001, 2002, 3001, 3008, 3010, 4001, 4100, 4101, 4181, 5001, 5008, 5012, 5017, 5420, 5421, 5423, 65535, 65536, 68537,
     66537, 2 ** 31, 2 ** 31 + 5012, 2 ** 32 - 1]))


def padded(a):
    return len(a.dump())


def build_pair(rng, code, sid_len, req_has_sid, ans_has_sid, has_exp, has_rc, preset_e, ans_cls_idx):
    from bromelia.base import DiameterRequest, DiameterAnswer, DiameterHeader
    from bromelia.avps import (SessionIdAVP, ResultCodeAVP, OriginHostAVP, OriginRealmAVP, ExperimentalResultAVP, VendorIdAVP,
                               ExperimentalResultCodeAVP, AuthSessionStateAVP)
    from bromelia.lib.etsi_3gpp_s6a.messages import UpdateLocationAnswer, CancelLocationAnswer
    app = rng.choice([0, 16777251, 16777238, 4, 2 ** 32 - 1])
    req = DiameterRequest(command_code=rng.choice([316, 272, 8388620]), application_id=app.to_bytes(4, "big"))
    req.header.hop_by_hop = rng.choice([0, 1, 2 ** 32 - 1, rng.randrange(2 ** 32)])
    req.header.end_to_end = rng.choice([0, 1, 2 ** 32 - 1, rng.randrange(2 ** 32)])
    rsid = None
    if req_has_sid:
        rsid = bytes(rng.randrange(33, 127) for _ in range(sid_len))
        req.append(SessionIdAVP(rsid))
    req.append(OriginHostAVP("client.example"))
    # the handler's answer: generic or typed, its own (different) identifiers
    by_code = ans_cls_idx == 3          # the handler builds its result AVPs by code (plain DiameterAVP objects), as docs/avps.md shows
    if by_code:
        ans_cls_idx = 0
    from bromelia.base import DiameterAVP
    if ans_cls_idx == 0:
        ans = DiameterAnswer(command_code=316, application_id=(7).to_bytes(4, "big"))
        if ans_has_sid:
            ans.append(SessionIdAVP(b"stale;1;2"))
        ans.append(OriginHostAVP("server.example"))
        ans.append(OriginRealmAVP("example"))
        if has_rc:
            ans.append(DiameterAVP(code=268, flags=0x40, data=code.to_bytes(4, "big")) if by_code else ResultCodeAVP(code.to_bytes(4, "big")))
    else:
        cls = [UpdateLocationAnswer, CancelLocationAnswer][ans_cls_idx - 1]
        kw = {"session_id": b"stale;1;2", "origin_host": "server.example", "origin_realm": "example"}
        kw["result_code"] = code.to_bytes(4, "big") if has_rc else None
        ans = cls(**kw)
        if not ans_has_sid:
            ans.pop("session_id_avp")
    if has_exp:
        ans.append(ExperimentalResultAVP([VendorIdAVP(10415), ExperimentalResultCodeAVP(rng.choice([5001, 5420, 4181, 2001]).to_bytes(4, "big"))]))
    ans.header.hop_by_hop = 77
    ans.header.end_to_end = 88
    if preset_e:
        ans.header.set_error_bit(True)
    return req, ans, rsid


def describe(ans):
    """the abstract state of an answer (what Model/Decorate.lean looks at)"""
    h = ans.header
    sid = ans.session_id_avp.data if ans.has_avp("session_id_avp") else None
    by = lambda c: [a for a in ans.avps if int.from_bytes(a.code, "big") == c and not a.vendor_id]       # by code, whatever the class
    rc = int.from_bytes(by(268)[0].data, "big") if by(268) else None
    exp = bool(by(297))
    rest = 0
    for a in ans.avps:
        if a is getattr(ans, "session_id_avp", None) or (by(268) and a is by(268)[0]):
            continue
        rest += padded(a)
    return {"flags": h.get_flags(), "app": h.get_application_id(), "hbh": h.get_hop_by_hop(), "e2e": h.get_end_to_end(),
            "sid": sid, "rc": rc, "exp": exp, "rest": rest, "len": h.get_length()}


def explore(chk, rng, cases, tag):
    import bromelia.exceptions as X
    from bromelia.bromelia import decorate_answer
    lines, meta = [], []
    for c in cases:
        req, ans, rsid = build_pair(rng, *c)
        before = describe(ans)
        rh = req.header
        try:
            out = decorate_answer(ans, req)
            after = describe(out)
            after["size"] = len(out.dump())
            res = ("ok", after)
        except BaseException as e:
            if isinstance(e, (KeyboardInterrupt, SystemExit)):
                raise
            res = ("lib" if type(e).__module__ == X.__name__ else "std", type(e).__name__)
        o = lambda v: "-" if v is None else str(v)
        b = lambda v: "none" if v is None else (v.hex() or "-")
        lines.append("decorate %d %s %s %s %s %s %d %d %d %d %d %d %s" % (
            before["flags"], o(before["app"]), o(before["hbh"]), o(before["e2e"]), b(before["sid"]), o(before["rc"]),
            1 if before["exp"] else 0, before["rest"], before["len"], rh.get_application_id(), rh.get_hop_by_hop(),
            rh.get_end_to_end(), b(rsid)))
        meta.append((c, before, res, rh.get_application_id(), rh.get_hop_by_hop(), rh.get_end_to_end(), rsid))
    out = core.run_driver(lines)
    for (c, before, res, rapp, rhbh, re2e, rsid), line, o in zip(meta, lines, out):
        code, sid_len, req_has_sid, ans_has_sid, has_exp, has_rc, preset_e, cls_idx = c
        inp = {"op": "decorate", "result_code": code if has_rc else None, "session_id_len": sid_len if req_has_sid else None,
               "answer_has_session_id": ans_has_sid, "experimental_result": has_exp, "E_preset": preset_e, "answer_class": cls_idx}
        chk.case(inp, kind="decorate:%s" % tag)
        if res[0] == "ok":
            a = res[1]
            impl = "ok flags=%d app=%s hbh=%s e2e=%s sid=%s rc=%s exp=%d len=%d" % (
                a["flags"], a["app"], a["hbh"], a["e2e"], "none" if a["sid"] is None else (a["sid"].hex() or "-"),
                "-" if a["rc"] is None else a["rc"], 1 if a["exp"] else 0, a["len"])
        else:
            impl = "err:%s" % res[0]
        if impl != o:
            chk.corr_break("decorate", inp, impl, o)
        # specification (the statement's clauses)
        if res[0] != "ok":
            chk.violation("decorating a handler's answer raised, so no answer can be sent", inp, "a decorated answer", "%s:%s" % res)
            continue
        a = res[1]
        if (a["app"], a["hbh"], a["e2e"]) != (rapp, rhbh, re2e):
            chk.violation("sent answer does not carry the request's Application-ID / identifiers", inp, (rapp, rhbh, re2e), (a["app"], a["hbh"], a["e2e"]))
        if rsid is not None and a["sid"] != rsid:
            chk.violation("sent answer does not carry the request's Session-Id", inp, rsid.hex(), None if a["sid"] is None else a["sid"].hex())
        fam = has_rc and (code // 1000 in (3, 4, 5)) and code % 1000 != 0
        e_now = bool(a["flags"] & 0x20)
        if not preset_e and e_now != fam:
            chk.violation("error flag does not match the Result-Code family", inp, fam, e_now)
        if preset_e and not e_now:
            chk.violation("error flag set by the handler was dropped", inp, True, e_now)
        if a["exp"] and a["rc"] is not None:
            chk.violation("Result-Code sent alongside an Experimental-Result", inp, "no Result-Code", a["rc"])
        if a["len"] != a["size"]:
            chk.violation("Message Length does not match the final content", inp, a["size"], a["len"])


def run(chk):
    rng = random.Random(chk.seed)
    chk.lean = core.lean_build(["BromeliaVerif.Properties.C12"])
    chk.rule = ("request/answer pairs through the real decorate_answer: every Result-Code 0..65535 (quick: every code 0..6999 plus "
                "boundary codes up to 2^32-1 and a seeded sample of the rest; thorough: all 65536) x {generic answer, two typed answer "
                "classes} x Session-Id of every length residue 0..9 / absent in request / absent in answer x Experimental-Result "
                "present/absent x Result-Code absent x E flag preset; compared with the model and with the statement's clauses. "
                "distinct = distinct case tuples.")
    chk.trusted += ["correspondence harness props/c12.py", "the message placed on the worker's send queue is the object returned by decorate_answer (C13 covers the queue)"]
    codes = list(range(0, 7000)) + [c for c in BOUNDARY_CODES if c >= 7000]
    if chk.tier == "thorough":
        codes = list(range(0, 65536)) + [c for c in BOUNDARY_CODES if c >= 65536]
    else:
        codes += [rng.randrange(7000, 65536) for _ in range(1500)] + [rng.randrange(2 ** 32) for _ in range(500)]
    cases = []
    for i, code in enumerate(codes):
        cases.append((code, i % 10, True, True, False, True, False, i % 4))
    for code in BOUNDARY_CODES:
        for sid_len in (0, 1, 2, 3, 4, 5, 7, 8, 33):
            for req_sid, ans_sid in ((True, True), (True, False), (False, True), (False, False)):
                for has_exp in (False, True):
                    cases.append((code, sid_len, req_sid, ans_sid, has_exp, True, False, (code + sid_len) % 4))
        cases.append((code, 6, True, True, False, True, True, 0))          # E preset by the handler
        cases.append((code, 6, True, True, True, False, False, 1))         # Experimental-Result only
        cases.append((code, 6, True, False, False, False, False, 2))       # neither result AVP
    cases = list(dict.fromkeys(cases))
    explore(chk, rng, cases, "sweep")
    chk.extra["exhaustive_domain"] = "Result-Codes 0..%d x one shape; boundary codes x all shapes" % (6999 if chk.tier == "quick" else 65535)

    def search():
        more = [(rng.randrange(2 ** 32) if rng.random() < 0.3 else rng.randrange(65536), rng.randrange(12), rng.random() < 0.8,
                 rng.random() < 0.7, rng.random() < 0.3, rng.random() < 0.9, rng.random() < 0.1, rng.randrange(3)) for _ in range(20000)]
        explore(chk, rng, more, "search")

    return chk.finish(search)


def replay(path):
    r = json.load(open(path))
    print(json.dumps(r.get("first") or r.get("broken_theorems") or r.get("correspondence_breaks"), indent=1)[:3000])
    return 1 if r.get("first") else 0
