# -*- coding: utf-8 -*-
"""C14 — a waiting sender gets its own answer, matched by Hop-by-Hop id, and always wakes.

1..k application threads call the real Bromelia.send_message; answers are dispatched by the real
Bromelia.handler_pending_answers in threads of their own (as create_message_thread does); the worker is an in-process
stand-in whose pending-answer methods are the real Worker's. Everything runs under the simulation scheduler
(harness/sim.py) with a hand-over at every synchronisation operation and before every source line of the functions
involved. The log of registry / event operations is mapped to actions of the Lean model (Model/Pending.lean) and
replayed there."""
import json
import os
import random

import core
import sim as simlib
from props import c13

TRACE_FUNCS = ("send_message", "handler_pending_answers", "wait", "notify", "update_msg", "insert_pending_answer",
               "is_pending_answer", "get_pending_answer", "remove_pending_answer", "__init__")


class LoggedDict(dict):
    def __init__(self, log, who):
        dict.__init__(self)
        self.log, self.who = log, who

    def update(self, *a, **k):
        for d in a:
            for key in d:
                self.log.append(("reg", self.who(), key))
        dict.update(self, *a, **k)

    def __setitem__(self, key, v):
        self.log.append(("reg", self.who(), key))
        dict.__setitem__(self, key, v)

    def keys(self):
        self.log.append(("check", self.who(), None))
        return dict.keys(self)

    def __contains__(self, key):
        self.log.append(("check", self.who(), key))
        return dict.__contains__(self, key)

    def __getitem__(self, key):
        self.log.append(("get", self.who(), key))
        return dict.__getitem__(self, key)

    def get(self, key, default=None):
        self.log.append(("get", self.who(), key))
        return dict.get(self, key, default)

    def pop(self, key, *default):
        self.log.append(("pop", self.who(), key))
        return dict.pop(self, key, *default)


def make_world(s, n_callers, log, who):
    """the app with an in-process worker, built while the simulation's primitives are installed"""
    import bromelia.bromelia as BB
    from bromelia.bromelia import Worker

    class SimWorker:
        insert_pending_answer = Worker.insert_pending_answer
        is_pending_answer = Worker.is_pending_answer
        get_pending_answer = Worker.get_pending_answer
        remove_pending_answer = Worker.remove_pending_answer

        def __init__(self, name, config):
            self.name = name
            self.sent = []
            self.app = type("App", (), {"config": config})()
            self.pending_answers = LoggedDict(log, who)

        def is_running(self):
            return True

        def set_outgoing_message(self, msg):
            s._yield(("worker.enqueue",))
            log.append(("enqueue", who(), msg.header.hop_by_hop))
            self.sent.append(msg)

    app, workers = c13.make_app(1, os.path.join(core.WORK, "c14_%d.yaml" % os.getpid()))
    cfg = list(workers.values())[0].app.config
    w = SimWorker("w0", cfg)
    app.associations = {k: w for k in workers}
    return app, w


def one_schedule(n_callers, plan, chooser, seed, lines=True):
    """plan: per caller, how many answers the peer sends for its request (1 or 2), plus stray answers"""
    import bromelia.bromelia as BB
    from bromelia.base import DiameterRequest, DiameterAnswer
    from bromelia.avps import SessionIdAVP
    s = simlib.Sim(seed=seed, trace_files=("bromelia/bromelia.py",) if lines else (), trace_funcs=TRACE_FUNCS, max_steps=60000, timeout_prob=0)
    s.keep_log = False
    s.spin_timeout = 8.0
    mods, undo = simlib.install(s, [BB])
    log = []
    who = lambda: s.cur.name if s.cur is not None else "ctl"
    events = {}                       # id(event) -> (creating thread, ordinal within that thread)
    made = {}
    RealEvent = mods.threading.Event

    class TaggedEvent(RealEvent):
        def __init__(self):
            RealEvent.__init__(self)
            t = who()
            made[t] = made.get(t, 0) + 1
            events[id(self)] = (t, made[t])
    mods.threading.Event = TaggedEvent
    s.hook = lambda kind, ev: log.append((kind, who(), events.get(id(ev))))
    results, answers = {}, {}

    def _get(obj):
        return obj.__dict__["_msg"]

    def _set(obj, v):
        log.append(("setmsg", who(), None))
        obj.__dict__["_msg"] = v
    BB.PendingAnswer.msg = property(_get, _set)          # logs every write of the waiter's message slot
    try:
        app, w = make_world(s, n_callers, log, who)
        app_id = list(app.associations.keys())[0]
        reqs = []
        for i in range(n_callers):
            r = DiameterRequest(command_code=316, application_id=app_id)
            r.header.hop_by_hop = (1000 + i).to_bytes(4, "big")
            r.append(SessionIdAVP(b"s;%d" % i))
            reqs.append(r)

        def caller(i):
            def f():
                results[i] = app.send_message(reqs[i])
                log.append(("return", who(), None))
            return f

        def mk_answer(hbh, tag):
            a = DiameterAnswer(command_code=316, application_id=app_id)
            a.header.hop_by_hop = hbh
            a.append(SessionIdAVP(b"a;%d" % tag))
            return a

        to_send = []                  # (caller index or None for stray, ordinal)
        for i, n in enumerate(plan["answers"]):
            to_send += [(i, k) for k in range(n)]
        to_send += [(None, k) for k in range(plan["stray"])]
        rng = random.Random(seed * 31 + 7)
        rng.shuffle(to_send)
        state = {"disp": 0}

        def sendable():
            out = []
            for item in to_send:
                i, k = item
                if i is None or any(m is reqs[i] for m in w.sent):
                    out.append(item)
            return out

        def peer():
            while to_send:
                s._yield(("peer.wait",), cond=lambda: bool(sendable()))
                item = sendable()[0]
                if plan.get("hold") and item[0] == plan["hold"] - 1 and not state.get("held"):
                    # this caller's answer is held back until nothing else in the system can move (a slow peer)
                    state["held"] = True
                    s._yield(("peer.hold",), cond=lambda: False, timeout=10 ** 6)
                to_send.remove(item)
                i, k = item
                hbh = reqs[i].header.hop_by_hop if i is not None else (9000 + k).to_bytes(4, "big")
                a = mk_answer(hbh, 100 * (i if i is not None else 9) + k)
                answers.setdefault(i, []).append(a)
                state["disp"] += 1
                name = "D%d" % state["disp"]
                log.append(("arrive", name, hbh))
                mods.threading.Thread(name=name, target=app.handler_pending_answers, args=(a,)).start()

        for i in range(n_callers):
            s.spawn(caller(i), "C%d" % i)
        s.spawn(peer, "peer")
        status = s.run(chooser=chooser)
        blocked = s.blocked()
        excs = [(t.name, type(t.exc).__name__) for t in s.tasks if t.exc is not None]
    finally:
        s.kill()
        undo()
        del BB.PendingAnswer.msg
    return {"status": status, "blocked": blocked, "excs": excs, "results": results, "answers": answers, "reqs": reqs, "log": log,
            "schedule": list(s.choices), "fanout": list(s.fanout), "steps": s.steps}


def to_model(res, n_callers):
    """the logged operations as model actions + the implementation's final state in the model's output format"""
    acts = ["n"] * n_callers
    key_of = {(1000 + i).to_bytes(4, "big"): i for i in range(n_callers)}
    disp_index, disp_rec = {}, {}
    per_rec = {i: 0 for i in range(n_callers)}
    ev_owner = {}
    for ev in res["log"]:
        kind, t = ev[0], ev[1]
        if kind == "arrive":
            i = key_of.get(ev[2])
            if i is None:
                disp_rec[t] = None
            else:
                disp_rec[t], disp_index[t] = i, per_rec[i]
                per_rec[i] += 1
                acts.append("a%d" % i)
        elif t.startswith("C"):
            i = int(t[1:])
            if kind in ("reg", "enqueue", "return"):
                acts.append("c%d" % i)
            elif kind == "event.wait.return" and ev[2] and ev[2][1] == 1:
                acts.append("c%d" % i)
            elif kind == "event.clear" and ev[2] and ev[2][1] == 1:
                acts.append("c%d" % i)
            elif kind == "event.set" and ev[2] and ev[2][1] == 2:
                acts.append("c%d" % i)
        elif t.startswith("D"):
            i = disp_rec.get(t)
            if i is None:
                if kind == "check":
                    acts.append("x")
                continue
            j = disp_index[t]
            if kind in ("check", "get", "pop", "setmsg"):
                acts.append("d%d.%d" % (i, j))
            elif kind == "event.set" and ev[2] and ev[2][1] == 1:
                acts.append("d%d.%d" % (i, j))
            elif kind == "event.wait.return" and ev[2] and ev[2][1] == 2:
                acts.append("d%d.%d" % (i, j))
    return acts


def impl_summary(res, n_callers):
    out = []
    for i in range(n_callers):
        if i in res["results"]:
            r = res["results"][i]
            idx = next((k for k, a in enumerate(res["answers"].get(i, [])) if a is r), None)
            out.append("done res=%s" % ("answer%d" % idx if idx is not None else ("request" if r is res["reqs"][i] else "other")))
        else:
            out.append("blocked")
    return out


def verdict(res, n_callers, plan):
    """the statement's clauses on one schedule"""
    for i in range(n_callers):
        if i not in res["results"]:
            continue
        r = res["results"][i]
        mine = res["answers"].get(i, [])
        if not any(r is a for a in mine):
            other = next((j for j, l in res["answers"].items() if any(r is a for a in l)), "none")
            return ("a caller was given something other than the received answer carrying its Hop-by-Hop identifier",
                    {"caller": i, "got": "answer of caller %s" % other if other != "none" else ("its own request" if r is res["reqs"][i] else repr(r)[:80])})
    got = [id(res["results"][i]) for i in res["results"]]
    if len(set(got)) != len(got):
        return ("one answer was delivered to two callers", {"results": len(got)})
    if res["status"] != "finished":
        waiting = [n for n, _l in res["blocked"] if n.startswith("C")]
        if waiting:
            return ("a caller whose answer has arrived was never woken (%s)" % res["status"], {"blocked": res["blocked"][:6]})
        return ("the exchange did not finish (%s)" % res["status"], {"blocked": res["blocked"][:6]})
    bad = [e for e in res["excs"] if e[0].startswith("C") or e[0] == "peer"]
    if bad:
        return ("a caller raised", bad)
    return None


def explore(chk, rng, n_random, n_dfs, tag):
    lines, meta = [], []

    def record(res, n_callers, plan, how, seed=1):
        inp = {"op": "rendezvous", "callers": n_callers, "answers_per_caller": plan["answers"], "stray_answers": plan["stray"], "how": how,
               "held_back_caller": plan.get("hold", 0),
               "seed": seed, "schedule_len": len(res["schedule"])}
        chk.case(dict(inp, schedule=res["schedule"][:400]), kind="%s:%dcallers:%s" % (how, n_callers, tag))
        v = verdict(res, n_callers, plan)
        if v:
            chk.violation(v[0], dict(inp, schedule=res["schedule"]), "every caller returns the answer with its identifier", v[1])
        lines.append("pend " + " ".join(to_model(res, n_callers)))
        meta.append((inp, res, n_callers))

    # systematic: one caller / one answer, and two callers, depth-first over schedules (bounded), sync-operation granularity
    for n_callers, plan in ((1, {"answers": [1], "stray": 0}), (2, {"answers": [1, 1], "stray": 0}), (1, {"answers": [2], "stray": 1}),
                            (2, {"answers": [1, 1], "stray": 0, "hold": 1})):
        def run_one(prefix, n_callers=n_callers, plan=plan):
            res = one_schedule(n_callers, plan, simlib.replay_chooser(prefix), seed=1, lines=False)
            return res["fanout"], res
        count = 0
        for prefix, fanout, res in simlib.dfs(run_one, n_dfs):
            record(res, n_callers, plan, "dfs")
            count += 1
            if chk.saturated():
                break
        chk.extra.setdefault("dfs", []).append({"callers": n_callers, "plan": plan, "schedules": count,
                                                "complete": bool(getattr(simlib.dfs, "complete", False))})
    for _ in range(n_random):
        if chk.saturated():
            break
        n_callers = rng.choice([1, 2, 3, 4])
        plan = {"answers": [rng.choice([1, 1, 1, 2]) for _ in range(n_callers)], "stray": rng.choice([0, 0, 1]),
                "hold": rng.choice([0, 0, 1, n_callers])}
        seed = rng.randrange(2 ** 30)
        how = rng.choice(["random", "pct", "random-lines"])
        chooser = simlib.pct_chooser(random.Random(seed), 3, 300) if how == "pct" else None
        res = one_schedule(n_callers, plan, chooser, seed, lines=(how != "random"))
        record(res, n_callers, plan, how, seed)
    out = core.run_driver(lines)
    for (inp, res, n_callers), o in zip(meta, out):
        model = [p.strip() for p in o.split(" | ")] if o else []
        impl = impl_summary(res, n_callers)
        mdl = []
        for p in model:
            f = p.split()
            mdl.append("done %s" % f[1] if f and f[0] == "done" else "blocked")
        chk.traces_validated += 1
        if mdl != impl:
            chk.corr_break("rendezvous-trace", dict(inp, schedule=res["schedule"][:400]), impl, model)


def two_connections(chk, rng, n):
    """two applications = two connections = two Worker objects built by the REAL Worker.__init__ (with the simulation's
    primitives as its manager): Hop-by-Hop identifiers are unique per connection only, so callers on different connections may
    wait under the same identifier. Each must get the answer of its own connection and return (specification only, no model
    replay: the Lean model is one registry)."""
    import types
    import bromelia.bromelia as BB
    from bromelia.base import DiameterRequest, DiameterAnswer
    from bromelia.avps import SessionIdAVP
    for k in range(n):
        if chk.saturated():
            break
        seed = rng.randrange(2 ** 30)
        how = rng.choice(["random", "pct", "random-lines"])
        s = simlib.Sim(seed=seed, trace_files=("bromelia/bromelia.py",) if how == "random-lines" else (), trace_funcs=TRACE_FUNCS,
                       max_steps=60000, timeout_prob=0)
        s.keep_log = False
        s.spin_timeout = 8.0
        mods, undo = simlib.install(s, [BB])
        results, status, blocked, excs = {}, None, [], []
        same = rng.random() < 0.7
        try:
            app, fake = c13.make_app(2, os.path.join(core.WORK, "c14b_%d.yaml" % os.getpid()))
            manager = types.SimpleNamespace(Event=mods.threading.Event, Queue=mods.queue.Queue, Lock=mods.threading.Lock)
            ws = {}
            for app_id, fw in fake.items():
                w = BB.Worker(types.SimpleNamespace(config=fw.app.config), manager)
                w.sent = []
                w.is_running = lambda: True
                w.set_outgoing_message = (lambda msg, w=w: (s._yield(("worker.enqueue",)), w.sent.append(msg)))
                ws[app_id] = w
            app.associations = ws
            ids = list(ws)
            reqs = []
            for i, app_id in enumerate(ids):
                r = DiameterRequest(command_code=316, application_id=app_id)
                r.header.hop_by_hop = (4242 if same else 4242 + i).to_bytes(4, "big")
                r.append(SessionIdAVP(b"s;%d" % i))
                reqs.append(r)
            answers = []
            for i, app_id in enumerate(ids):
                a = DiameterAnswer(command_code=316, application_id=app_id)
                a.header.hop_by_hop = reqs[i].header.hop_by_hop
                a.append(SessionIdAVP(b"a;%d" % i))
                answers.append(a)

            def caller(i):
                def f():
                    results[i] = app.send_message(reqs[i])
                return f

            def peer():
                order = list(range(len(ids)))
                random.Random(seed).shuffle(order)
                for i in order:
                    s._yield(("peer.wait",), cond=lambda i=i: any(m is reqs[i] for m in ws[ids[i]].sent))
                    mods.threading.Thread(name="D%d" % i, target=app.handler_pending_answers, args=(answers[i],)).start()
            for i in range(len(ids)):
                s.spawn(caller(i), "C%d" % i)
            s.spawn(peer, "peer")
            chooser = simlib.pct_chooser(random.Random(seed), 3, 300) if how == "pct" else None
            status = s.run(chooser=chooser)
            blocked = s.blocked()
            excs = [(t.name, type(t.exc).__name__) for t in s.tasks if t.exc is not None]
        finally:
            s.kill()
            undo()
        inp = {"op": "two-connections", "same_hop_by_hop": same, "how": how, "seed": seed, "schedule": list(s.choices)[:1500]}
        chk.case(inp, kind="two-connections:%s" % how)
        got = {i: ("own" if results.get(i) is answers[i] else "other's" if any(results.get(i) is a for a in answers) else
                   "nothing" if i not in results else "something else") for i in range(2)}
        if status != "finished" or excs or any(v != "own" for v in got.values()):
            chk.violation("callers waiting on two connections%s: not every caller got the answer of its own connection and returned"
                          % (" under the same Hop-by-Hop identifier" if same else ""), inp, {0: "own", 1: "own"},
                          {"got": got, "status": status, "blocked": [b[0] for b in blocked], "exceptions": excs})


def run(chk):
    import logging
    logging.disable(logging.CRITICAL)
    rng = random.Random(chk.seed)
    chk.lean = core.lean_build(["BromeliaVerif.Properties.C14"])
    chk.rule = ("1..4 caller threads in the real Bromelia.send_message, the peer answering each queued request once or twice "
                "(duplicates) plus stray answers, each answer dispatched by the real handler_pending_answers in its own thread, "
                "arrival enabled as soon as the request is on the worker queue; schedules: depth-first enumeration at "
                "synchronisation-operation granularity for 1 and 2 callers (bounded) + seeded random / priority schedules with "
                "hand-over before every source line of the functions involved. Per schedule: each caller's return value by object "
                "identity, blocked threads; the log of registry / event operations replayed on the Lean model. distinct = distinct "
                "schedules.")
    chk.trusted += ["correspondence harness props/c14.py: in-process worker whose pending-answer methods are the real Worker's, registry "
                    "dict and events wrapped for logging", "simulation scheduler harness/sim.py (one thread at a time; timed waits "
                    "of the rate-limiting barriers fire immediately)", "multiprocessing transport between worker process and "
                    "application process is not exercised (C13's FakeWorker convention)"]
    quick = chk.tier == "quick"
    explore(chk, rng, 120 if quick else 4000, 150 if quick else 6000, "sweep")
    two_connections(chk, rng, 30 if quick else 1500)

    def search():
        explore(chk, rng, 400, 600, "search")

    return chk.finish(search)


def replay(path):
    """re-runs the stored schedule on the current tree"""
    import logging
    logging.disable(logging.CRITICAL)
    r = json.load(open(path))
    v = r.get("first")
    if not v:
        print(json.dumps(r.get("broken_theorems") or r.get("correspondence_breaks"), indent=1, default=str)[:3000])
        return 0
    i = v["input"]
    plan = {"answers": i["answers_per_caller"], "stray": i["stray_answers"], "hold": i.get("held_back_caller", 0)}
    res = one_schedule(i["callers"], plan, simlib.replay_chooser(i["schedule"]), i.get("seed", 1), lines=(i["how"] not in ("dfs", "random")))
    now = verdict(res, i["callers"], plan)
    print("scenario: %d caller(s), answers %s, %d stray, schedule of %d choices (%s)" % (i["callers"], plan["answers"], plan["stray"], len(i["schedule"]), i["how"]))
    print("recorded: %s" % v["what"])
    print("now     : %s" % (("VIOLATED: %s %s" % (now[0], json.dumps(now[1], default=str)[:300])) if now else "the statement holds on this schedule"))
    return 1 if now else 0
