# -*- coding: utf-8 -*-
"""Deterministic simulation layer for the threaded parts of bromelia (C04, C05, C08, C14, C15).

Real Python threads run the real code, but only one at a time: every managed thread blocks on its own semaphore and
the controller hands the baton to exactly one enabled thread per step. A thread gives the baton back at every
synchronisation operation of the substituted primitives (Lock, Event, Queue, Thread, sleep, select, ...) and, when
line tracing is requested for some source files, before every source line of those files. Which thread runs next is
decided by a `chooser` (seeded random, replay of a recorded schedule, or systematic depth-first enumeration), so a
schedule is a list of small integers and replays exactly.

Nothing in /repo is edited: the harness rebinds the module attributes `threading`, `queue`, `time`, `selectors`,
`socket` of the bromelia modules under test to the objects made here."""
import collections
import random
import sys
import threading as _th
import types


class SimExit(BaseException):
    """raised inside managed threads when the simulation is torn down"""


class Task:
    __slots__ = ("name", "go", "done", "label", "cond", "deadline", "timed_out", "exc", "th", "result", "steps")

    def __init__(self, name):
        self.name = name
        self.go = _th.Semaphore(0)
        self.done = False
        self.label = ("start",)
        self.cond = None
        self.deadline = None
        self.timed_out = False
        self.exc = None
        self.th = None
        self.result = None
        self.steps = 0


class Sim:
    def __init__(self, seed=0, trace_files=(), trace_funcs=None, max_steps=200000, timeout_prob=0.01):
        self.rng = random.Random(seed)
        self.tasks = []
        self.ctl = _th.Semaphore(0)
        self.cur = None
        self.log = []                  # (task name, label) per step
        self.choices = []              # index chosen among the enabled tasks (sorted by creation) per step
        self.fanout = []               # number of enabled tasks per step
        self.steps = 0
        self.max_steps = max_steps
        self.trace_files = tuple(trace_files)
        self.trace_funcs = set(trace_funcs) if trace_funcs else None
        self.clock = 0.0
        self.killed = False
        self.timeout_prob = timeout_prob
        self.keep_log = True
        self.spin_timeout = 30.0       # real seconds a managed thread may run without reaching a hand-over point
        self.spinning = None
        self.line_hook = None          # line_hook(task, code object, line number) before every traced line
        self.hook = None               # hook(kind, object): called by the substituted Event at set / clear / return of wait

    # ------------------------------------------------------------------ thread side
    def _yield(self, label, cond=None, timeout=None):
        t = self.cur
        if t is None or _th.current_thread() is not t.th:
            return True                # the controller itself (setup code outside the managed threads)
        t.label, t.cond = label, cond
        t.deadline = (self.clock + timeout) if timeout is not None else None
        t.timed_out = False
        self.ctl.release()
        t.go.acquire()
        if self.killed:
            raise SimExit()
        return not t.timed_out

    def spawn(self, fn, name):
        t = Task(name)

        def run():
            t.go.acquire()
            if self.trace_files and not self.killed:
                sys.settrace(self._tr)
            try:
                if not self.killed:
                    t.result = fn()
            except SimExit:
                pass
            except BaseException as e:          # bromelia's own exceptions derive from BaseException
                t.exc = e
            finally:
                sys.settrace(None)
                t.done = True
                self.ctl.release()
        t.th = _th.Thread(target=run, name=name, daemon=True)
        t.th.start()
        self.tasks.append(t)
        return t

    def _tr(self, frame, event, arg):
        code = frame.f_code
        if not code.co_filename.endswith(self.trace_files):
            return None
        if self.trace_funcs is not None and code.co_name not in self.trace_funcs:
            return None
        if event == "line":
            if self.line_hook is not None:
                self.line_hook(self.cur, code, frame.f_lineno)
            self._yield(("line", code.co_filename.rsplit("/", 1)[-1], frame.f_lineno))
        return self._tr

    # ------------------------------------------------------------------ controller side
    def enabled(self, t):
        if t.done:
            return False
        if t.cond is None:
            return True
        return bool(t.cond())

    def run(self, until=None, chooser=None):
        """runs until `until()` holds, every task finished, nothing can move (deadlock) or the step bound is hit"""
        while True:
            if until and until():
                return "until"
            live = [t for t in self.tasks if not t.done]
            if not live:
                return "finished"
            en = [t for t in live if self.enabled(t)]
            if en and self.timeout_prob and self.rng.random() < self.timeout_prob:
                tm = [t for t in live if t.deadline is not None and not self.enabled(t)]
                if tm:
                    t = self.rng.choice(tm)
                    t.timed_out, t.cond = True, None
                    en = [t]
            if not en:
                tm = [t for t in live if t.deadline is not None]
                if not tm:
                    return "deadlock"
                t = min(tm, key=lambda x: x.deadline)          # nothing else can move: the earliest timed wait fires
                self.clock = max(self.clock, t.deadline)
                t.timed_out, t.cond = True, None
                en = [t]
            if chooser is not None:
                i = chooser(en, self)
            else:
                i = self.rng.randrange(len(en))
            t = en[i]
            self.steps += 1
            if self.steps > self.max_steps:
                return "maxsteps"
            self.choices.append(i)
            self.fanout.append(len(en))
            if self.keep_log:
                self.log.append((t.name, t.label))
            self.cur = t
            t.cond = None
            t.steps += 1
            t.go.release()
            if not self.ctl.acquire(timeout=self.spin_timeout):
                # the thread neither blocked on a substituted primitive nor finished: a busy loop without synchronisation
                self.spinning = t.name
                self.cur = None
                return "spin"
            self.cur = None

    def kill(self):
        self.killed = True
        for t in self.tasks:
            if not t.done:
                t.go.release()
        for t in self.tasks:
            t.th.join(timeout=2)

    def blocked(self):
        """(task name, label) of the tasks that are alive and cannot move"""
        return [(t.name, t.label) for t in self.tasks if not t.done and not self.enabled(t)]


# ---------------------------------------------------------------------------- choosers
def replay_chooser(schedule):
    """follows a recorded list of indices; beyond its end always picks the first enabled task"""
    it = iter(schedule)

    def choose(en, sim):
        i = next(it, 0)
        return i if i < len(en) else 0
    return choose


def pct_chooser(rng, n_change_points, horizon):
    """priority-based (PCT-like): random priorities per task, lowered at a few random steps"""
    prio = {}
    change = set(rng.randrange(max(1, horizon)) for _ in range(n_change_points))

    def choose(en, sim):
        for t in en:
            if t.name not in prio:
                prio[t.name] = rng.random() + 1.0
        if sim.steps in change:
            top = max(en, key=lambda t: prio[t.name])
            prio[top.name] = rng.random() * 0.5
        top = max(en, key=lambda t: prio[t.name])
        return en.index(top)
    return choose


def dfs(run_one, max_runs, max_depth=10 ** 9):
    """stateless depth-first enumeration of schedules. run_one(prefix) runs the scenario from scratch following
    `prefix` (then always choice 0) and returns (fanout list, result). Yields (schedule, result); complete when the
    generator ends before max_runs."""
    stack = [[]]
    runs = 0
    while stack and runs < max_runs:
        prefix = stack.pop()
        fanout, result = run_one(prefix)
        runs += 1
        yield prefix, fanout, result
        # children: at every step beyond the prefix where another choice was possible
        for d in range(min(len(fanout), max_depth) - 1, len(prefix) - 1, -1):
            for alt in range(fanout[d] - 1, 0, -1):
                stack.append(prefix + [0] * (d - len(prefix)) + [alt])
    dfs.complete = not stack


# ---------------------------------------------------------------------------- substituted primitives
def make_modules(sim):
    class Lock:
        def __init__(self):
            self.locked_ = False
            self.owner = None

        def acquire(self, blocking=True, timeout=-1):
            if not blocking:
                sim._yield(("lock.try", id(self)))
                if self.locked_:
                    return False
            else:
                ok = sim._yield(("lock.acquire", id(self)), cond=lambda: not self.locked_,
                                timeout=timeout if (timeout is not None and timeout >= 0) else None)
                if self.locked_:
                    if not ok:
                        return False
                    raise RuntimeError("simulated lock acquired while held (unmanaged caller)")
            self.locked_ = True
            self.owner = sim.cur.name if sim.cur else "ctl"
            return True

        def release(self):
            if not self.locked_:
                raise RuntimeError("release unlocked lock")
            self.locked_ = False
            self.owner = None

        def locked(self):
            return self.locked_

        def __enter__(self):
            self.acquire()
            return self

        def __exit__(self, *a):
            self.release()

    class RLock(Lock):
        def __init__(self):
            Lock.__init__(self)
            self.depth = 0

        def acquire(self, blocking=True, timeout=-1):
            me = sim.cur.name if sim.cur else "ctl"
            if self.locked_ and self.owner == me:
                self.depth += 1
                return True
            r = Lock.acquire(self, blocking, timeout)
            if r:
                self.depth = 1
            return r

        def release(self):
            self.depth -= 1
            if self.depth == 0:
                Lock.release(self)

    class Event:
        def __init__(self):
            self.flag = False

        def set(self):
            sim._yield(("event.set", id(self)))
            self.flag = True
            if sim.hook:
                sim.hook("event.set", self)

        def clear(self):
            sim._yield(("event.clear", id(self)))
            self.flag = False
            if sim.hook:
                sim.hook("event.clear", self)

        def is_set(self):
            return self.flag

        def wait(self, timeout=None):
            sim._yield(("event.wait", id(self)), cond=lambda: self.flag, timeout=timeout)
            if sim.hook:
                sim.hook("event.wait.return", self)
            return self.flag

    class Thread:
        def __init__(self, group=None, target=None, name=None, args=(), kwargs=None, daemon=None):
            self.target, self.name, self.args, self.kwargs = target, name or "thread", args, kwargs or {}
            self.t = None
            self.daemon = daemon

        def start(self):
            sim._yield(("thread.start", self.name))
            self.t = sim.spawn(lambda: self.target(*self.args, **self.kwargs), self.name)

        def is_alive(self):
            return self.t is not None and not self.t.done

        def join(self, timeout=None):
            sim._yield(("join", self.name), cond=lambda: self.t is not None and self.t.done, timeout=timeout)

    class BrokenBarrierError(RuntimeError):
        pass

    class Barrier:
        """rate limiting only (bromelia.py): a wait that times out"""

        def __init__(self, parties, action=None, timeout=None):
            self.parties = parties

        def wait(self, timeout=None):
            sim._yield(("barrier.wait",))
            raise BrokenBarrierError()

        def reset(self):
            pass

    threading = types.SimpleNamespace(Lock=Lock, RLock=RLock, Event=Event, Thread=Thread, Barrier=Barrier,
                                      BrokenBarrierError=BrokenBarrierError, current_thread=_th.current_thread,
                                      get_ident=_th.get_ident)

    class Empty(Exception):
        pass

    class Full(Exception):
        pass

    class Queue:
        def __init__(self, maxsize=0):
            self.queue = collections.deque()
            self.maxsize = maxsize

        def full(self):
            return 0 < self.maxsize <= len(self.queue)

        def put(self, x, block=True, timeout=None):
            if self.maxsize and self.maxsize > 0:
                # a bounded queue: put() blocks while it is full (queue.Queue semantics), Full for a non-blocking / timed-out put
                if not block:
                    sim._yield(("queue.put_nowait", id(self)))
                    if self.full():
                        raise Full()
                else:
                    ok = sim._yield(("queue.put", id(self)), cond=lambda: not self.full(), timeout=timeout)
                    if self.full():
                        raise Full()
            else:
                sim._yield(("queue.put", id(self)))
            self.queue.append(x)

        def put_nowait(self, x):
            self.put(x, block=False)

        def get(self, block=True, timeout=None):
            if not block:
                sim._yield(("queue.get_nowait", id(self)))
            else:
                sim._yield(("queue.get", id(self)), cond=lambda: len(self.queue) > 0, timeout=timeout)
            if not self.queue:
                raise Empty()
            return self.queue.popleft()

        def get_nowait(self):
            return self.get(block=False)

        def empty(self):
            return not self.queue

        def qsize(self):
            return len(self.queue)

    queue = types.SimpleNamespace(Queue=Queue, Empty=Empty, Full=Full)

    def sleep(d):
        sim.clock += d
        sim._yield(("sleep", d))

    time = types.SimpleNamespace(sleep=sleep, time=lambda: sim.clock, monotonic=lambda: sim.clock)

    EVENT_READ, EVENT_WRITE = 1, 2
    SelectorKey = collections.namedtuple("SelectorKey", "fileobj fd events data")

    class Selector:
        def __init__(self):
            self.map = {}
            self.closed = False

        def register(self, fo, events, data=None):
            if fo in self.map:
                raise KeyError("already registered")
            self.map[fo] = SelectorKey(fo, id(fo), events, data)
            return self.map[fo]

        def modify(self, fo, events, data=None):
            if fo not in self.map:
                raise KeyError("not registered")
            self.map[fo] = SelectorKey(fo, id(fo), events, data)
            return self.map[fo]

        def unregister(self, fo):
            return self.map.pop(fo)

        def get_map(self):
            return dict(self.map)

        def _ready(self):
            out = []
            for fo, key in list(self.map.items()):
                m = 0
                if key.events & EVENT_READ and fo._readable():
                    m |= EVENT_READ
                if key.events & EVENT_WRITE and fo._writable():
                    m |= EVENT_WRITE
                if m:
                    out.append((key, m))
            return out

        def select(self, timeout=None):
            sim._yield(("select",), cond=lambda: bool(self._ready()), timeout=timeout)
            return self._ready()

        def close(self):
            self.map.clear()
            self.closed = True

    selectors = types.SimpleNamespace(DefaultSelector=Selector, EVENT_READ=EVENT_READ, EVENT_WRITE=EVENT_WRITE)
    return threading, queue, time, selectors


class FakeSock:
    """scripted peer end of a connection: inbound chunks are released by the controller, outbound bytes captured;
    send() accepts what `partial(n)` says (partial writes), may refuse (connection refused) or would-block"""

    def __init__(self, sim, partial=None, listening=False):
        self.sim = sim
        self.inbox = collections.deque()
        self.eof = False
        self.out = b""
        self.sends = []
        self.closed = False
        self.partial = partial
        self.refused = False
        self.listening = listening
        self.pending_accept = collections.deque()
        self.writable = True
        self.recv_error = None
        self.send_error = None

    # socket API used by bromelia.transport
    def setblocking(self, b):
        pass

    def setsockopt(self, *a):
        pass

    def bind(self, addr):
        pass

    def listen(self, *a):
        pass

    def connect_ex(self, addr):
        return 115

    def accept(self):
        if not self.pending_accept:
            raise BlockingIOError()
        return self.pending_accept.popleft(), ("127.0.0.9", 40000)

    def _readable(self):
        if self.closed:
            return False
        if self.listening:
            return bool(self.pending_accept)
        return bool(self.inbox) or self.eof or self.recv_error is not None

    def _writable(self):
        return not self.closed and not self.listening and self.writable

    def recv(self, n):
        self.sim._yield(("sock.recv",))
        if self.closed:
            raise OSError(9, "Bad file descriptor")
        if self.inbox:
            chunk = self.inbox.popleft()
            if len(chunk) > n:
                self.inbox.appendleft(chunk[n:])
                chunk = chunk[:n]
            return chunk
        if self.recv_error is not None:
            raise self.recv_error
        if self.eof:
            return b""
        raise BlockingIOError()

    def send(self, data):
        self.sim._yield(("sock.send",))
        if self.closed:
            raise OSError(9, "Bad file descriptor")
        if self.refused:
            raise ConnectionRefusedError(111, "Connection refused")
        if self.send_error is not None:
            raise self.send_error
        if not data:
            return 0
        n = len(data)
        if self.partial:
            n = max(1, min(n, self.partial(len(data))))
        self.out += data[:n]
        self.sends.append(data[:n])
        return n

    def close(self):
        self.closed = True

    def shutdown(self, how):
        pass

    def fileno(self):
        return id(self) & 0xFFFF

    def getpeername(self):
        return ("127.0.0.9", 40000)


class FakeSctpSock(FakeSock):
    """what bromelia's SctpConnection / SctpClient use of a pysctp `sctpsocket_tcp`: blocking connect(), sctp_send(),
    sctp_recv() -> (fromaddr, flags, data, notification), get_status().state"""

    def connect(self, addr):
        self.sim._yield(("sock.connect",))
        if self.refused:
            raise ConnectionRefusedError(111, "Connection refused")

    def sctp_send(self, data):
        return self.send(data)

    def sctp_recv(self, n):
        return (("127.0.0.2", 3870), 0, self.recv(n), None)

    def get_status(self):
        return types.SimpleNamespace(state=1, state_ESTABLISHED=1)


class FakeSctpModules:
    """`import sctp` / `import _sctp` as seen by bromelia.transport while the scenario runs"""

    def __init__(self, factory):
        self.factory = factory

    def __enter__(self):
        import sys
        self.saved = {k: sys.modules.get(k) for k in ("sctp", "_sctp")}
        m = types.ModuleType("sctp")
        m.sctpsocket_tcp = lambda *a, **k: self.factory()
        m2 = types.ModuleType("_sctp")
        m2.getconstant = lambda name: 132
        sys.modules["sctp"], sys.modules["_sctp"] = m, m2
        return self

    def __exit__(self, *a):
        import sys
        for k, v in self.saved.items():
            if v is None:
                sys.modules.pop(k, None)
            else:
                sys.modules[k] = v


def install(sim, modules, socket_factory=None):
    """rebinds threading/queue/time/selectors (and socket, when a factory is given) in the given bromelia modules;
    returns the substituted namespaces and an undo function"""
    threading, queue, time, selectors = make_modules(sim)
    saved = []
    for mod in modules:
        for name, val in (("threading", threading), ("queue", queue), ("time", time), ("selectors", selectors)):
            if hasattr(mod, name):
                saved.append((mod, name, getattr(mod, name)))
                setattr(mod, name, val)
        if socket_factory is not None and hasattr(mod, "socket"):
            saved.append((mod, "socket", mod.socket))
            mod.socket = types.SimpleNamespace(socket=socket_factory, AF_INET=2, SOCK_STREAM=1, SOL_SOCKET=1, SO_REUSEADDR=2,
                                               getfqdn=lambda *a: "localhost", gethostbyname=lambda *a: "127.0.0.1",
                                               error=OSError, timeout=TimeoutError)

    def undo():
        for mod, name, val in reversed(saved):
            setattr(mod, name, val)
    return types.SimpleNamespace(threading=threading, queue=queue, time=time, selectors=selectors), undo
