# -*- coding: utf-8 -*-
"""Single-step driver of the real peer state machine (bromelia/statemachine.py) with a substituted transport:
one tick = `current_state.run()` followed by `get_next_state(next_state)`, exactly the body of PeerStateMachine's loop.
Environment actions (inbound messages, connect ack/nack, local stop, peer disconnect, idle time, application submit)
are applied between ticks. Nothing in /repo is edited: module attributes are rebound from outside."""
import types


class NoEvent:
    def __init__(self):
        self.flag = False

    def set(self):
        self.flag = True

    def clear(self):
        self.flag = False

    def wait(self, timeout=None):
        return True

    def is_set(self):
        return self.flag


class Deadlock(Exception):
    pass


class CheckedLock:
    """single-threaded stand-in for threading.Lock: acquiring a held lock would block for ever"""

    def __init__(self):
        self.held = False

    def acquire(self, blocking=True, timeout=-1):
        if self.held:
            raise Deadlock("association lock acquired while held")
        self.held = True
        return True

    def release(self):
        if not self.held:
            raise RuntimeError("release unlocked lock")
        self.held = False

    def locked(self):
        return self.held

    def __enter__(self):
        self.acquire()
        return self

    def __exit__(self, *a):
        self.release()


class FakeTransport:
    def __init__(self):
        self.is_connected = False
        self._stop_threads = False
        self.events = []
        self.tracking_events_count = 0
        self.conn_ok = True
        self.sent = []              # streams handed to the transport, in order
        self.closed = 0
        self.write_mode_on = NoEvent()
        self._recv_data_available = NoEvent()
        self._recv_data_stream = b""

    def test_connection(self):
        return self.conn_ok

    def is_write_mode(self):
        return False

    def _set_selector_events_mask(self, mode, msg=None):
        if msg:
            self.sent.append(bytes(msg))

    def close(self):
        if not self.is_connected:
            raise ConnectionError("There is no transport connection up for this PeerNode")
        self.is_connected = False
        self.closed += 1
        self._stop_threads = True


DECODED = {}
CFG = {"APPLICATIONS": [], "TRANSPORT_TYPE": "TCP", "LOCAL_NODE_HOSTNAME": "local.example", "LOCAL_NODE_REALM": "local.realm",
       "LOCAL_NODE_IP_ADDRESS": "127.0.0.1", "LOCAL_NODE_PORT": 3868, "PEER_NODE_HOSTNAME": "peer.example",
       "PEER_NODE_REALM": "peer.realm", "PEER_NODE_IP_ADDRESS": "127.0.0.2", "PEER_NODE_PORT": 3870, "WATCHDOG_TIMEOUT": 30}


class Node:
    def __init__(self, role, n_apps=0, local=None):
        import bromelia.statemachine as SM
        from bromelia.setup import Diameter, DiameterAssociation
        from bromelia.statemachine import PeerStateMachine
        SM.time = types.SimpleNamespace(sleep=lambda s: None)
        cfg = dict(CFG)
        cfg["MODE"] = "CLIENT" if role == "client" else "SERVER"
        apps = [{"vendor_id": b"\x00\x00\x28\xaf", "app_id": b"\x01\x00\x00\x23"}, {"vendor_id": b"\x00\x00\x28\xaf", "app_id": b"\x01\x00\x00\x16"}]
        cfg["APPLICATIONS"] = apps[:n_apps]
        if local is not None:
            cfg["LOCAL_NODE_HOSTNAME"], cfg["LOCAL_NODE_REALM"] = local
        self.local = (cfg["LOCAL_NODE_HOSTNAME"], cfg["LOCAL_NODE_REALM"])
        self.role = role
        self.diameter = Diameter(config=cfg)
        self.released_total = 0
        self.new_connection()

    def reset(self):
        """a fresh connection on a reused node object, counters cleared (between independent histories)"""
        self.released_total = 0
        for m in (self.diameter._base.cea, self.diameter._base.dwa, self.diameter._base.dpa):
            m.header.hop_by_hop = b"\x00\x00\x00\x00"
            m.header.end_to_end = b"\x00\x00\x00\x00"
        self.new_connection()
        return self

    def new_connection(self):
        """what Diameter.start() does, without threads and sockets"""
        from bromelia.setup import DiameterAssociation
        from bromelia.statemachine import PeerStateMachine
        d = self.diameter
        d._association = DiameterAssociation(d._connection, d._base)
        d._peer_state_machine = PeerStateMachine(d._association)
        self.assoc, self.psm = d._association, d._peer_state_machine
        self.psm.is_running = True
        self.tr = FakeTransport()
        self.tr.is_connected = self.role == "server"      # a server transport is "connected" once accepted
        self.assoc.transport = self.tr
        self.assoc._stop_threads = False
        self.assoc.lock = CheckedLock()
        self.emitted_before = 0

    # ---------------------------------------------------------------- environment actions
    def inject(self, msg):
        self.assoc._recv_messages.put(msg)

    def connect_ack(self):
        self.tr.is_connected = True
        self.tr.conn_ok = True

    def connect_nack(self):
        self.tr.is_connected = True
        self.tr.conn_ok = False

    def local_stop(self):
        self.psm.close()

    def peer_disconnect(self):
        self.tr._stop_threads = True

    def idle(self):
        self.tr.events = []
        self.tr.tracking_events_count = self.assoc.watchdog_timeout

    def submit(self, msg):
        """Diameter.send_message from an application thread; returns the exception it raised, if any"""
        try:
            self.diameter.send_message(msg)
            return None
        except BaseException as e:
            if isinstance(e, (KeyboardInterrupt, SystemExit)):
                raise
            return type(e).__name__

    def restart(self):
        """Diameter.start() on the same node object (without threads and sockets)"""
        if self.diameter.get_current_state() != "Closed" or self.psm.is_running:
            return False
        self.released_total += self.tr.closed
        self.new_connection()
        return True

    # ---------------------------------------------------------------- one tick
    def tick(self):
        """returns the exception raised by the tick, if any"""
        p = self.psm
        if not p.is_running:
            return "stopped"
        try:
            p.current_state.run()
            p.current_state = p.get_next_state(p.current_state.next_state)
            return None
        except BaseException as e:
            if isinstance(e, (KeyboardInterrupt, SystemExit)):
                raise
            return type(e).__name__

    # ---------------------------------------------------------------- observation
    def state(self):
        return self.diameter.get_current_state()

    def take_emitted(self):
        """messages written to the transport since the last call, decoded"""
        from bromelia.base import DiameterMessage
        out = []
        for stream in self.tr.sent[self.emitted_before:]:
            if stream not in DECODED:
                if len(DECODED) > 20000:
                    DECODED.clear()
                DECODED[stream] = DiameterMessage.load(stream)
            out += DECODED[stream]
        self.emitted_before = len(self.tr.sent)
        return out

    def take_delivered(self):
        out = []
        q = self.assoc.postprocess_recv_messages
        while not q.empty():
            out.append(q.get())
        return out

    def lock_free(self):
        return not self.assoc.lock.locked()

    def released(self):
        return self.released_total + self.tr.closed

    def recvq(self):
        return list(self.assoc._recv_messages.queue)

    def sendq(self):
        return list(self.assoc._send_messages.queue)

    def flags(self):
        t = self.tr
        return (self.assoc.state_is_active, self.assoc.transport is not None, t.is_connected, t.conn_ok, t._stop_threads,
                (not t.events) and t.tracking_events_count >= self.assoc.watchdog_timeout, self.assoc._stop_threads)


# ---------------------------------------------------------------------------- abstraction of real messages (trusted)
HOST, REALM = "peer.example", "peer.realm"
LHOST, LREALM = "local.example", "local.realm"


def avp_token(a):
    """what the validity predicates of process.py read off one AVP of a decoded message"""
    code = int.from_bytes(a.code, "big")
    f = "1" if a.flags == b"\x40" else "0"
    if code == 264:
        return "H%s%s%s" % (f, "1" if a.get_length() == 8 + len(a.data) else "0", a.data.hex() or "-")
    if code == 296:
        return "R%s%s%s" % (f, "1" if a.get_length() == 8 + len(a.data) else "0", a.data.hex() or "-")
    if code == 257:
        return "I"
    if code == 266:
        return "V"
    if code == 269:
        return "P"
    if code == 278:
        return "S"
    if code == 268:
        return "C%s%s" % (f, "1" if a.get_length() == 12 else "0")
    if code == 273:
        return "D%s" % ("1" if a.data == b"\x00\x00\x00\x00" else "0")
    return "O"


def kind_of(m):
    cmd = int.from_bytes(m.header.command_code, "big")
    req = bool(m.header.flags[0] & 0x80)
    base = {257: ("cer", "cea"), 280: ("dwr", "dwa"), 282: ("dpr", "dpa")}.get(cmd)
    if base:
        return base[0] if req else base[1]
    return "req" if req else "ans"


def msg_token(m):
    """`i:<kind>:<flags>:<addressing bits>:<hbh>:<e2e>:<avps>` for the model driver"""
    codes = [int.from_bytes(a.code, "big") for a in m.avps]
    ad = "%d%d%d%d" % (293 in codes, 283 in codes, any(a.data == LHOST.encode() for a in m.avps), any(a.data == LREALM.encode() for a in m.avps))
    return "i:%s:%d:%s:%d:%d:%s" % (kind_of(m), m.header.flags[0], ad, int.from_bytes(m.header.hop_by_hop, "big"),
                                    int.from_bytes(m.header.end_to_end, "big"), ",".join(avp_token(a) for a in m.avps) or "-")


def out_token(m):
    k = kind_of(m)
    hbh, e2e = int.from_bytes(m.header.hop_by_hop, "big"), int.from_bytes(m.header.end_to_end, "big")
    if k in ("cer", "dwr", "dpr"):
        return k
    if k in ("cea", "dwa", "dpa"):
        return "%s:%d:%d" % (k, hbh, e2e)
    return "app:%d" % hbh
