# -*- coding: utf-8 -*-
"""Entry point: ./check <ID> [--tier quick|thorough] [--replay <file>]"""
import argparse
import importlib
import os
import sys
import traceback

import core


def main():
    ap = argparse.ArgumentParser()
    ap.add_argument("prop")
    ap.add_argument("--tier", default=os.environ.get("VERIF_TIER", "quick"), choices=["quick", "thorough"])
    ap.add_argument("--replay", default=None)
    a = ap.parse_args()
    try:
        seed = int(os.environ.get("VERIF_SEED", "0"))
    except ValueError:
        seed = 0
    prop = a.prop.upper()
    try:
        mod = importlib.import_module("props.%s" % prop.lower())
        if a.replay:
            return mod.replay(a.replay)
        chk = core.Check(prop, a.tier, seed)
        return mod.run(chk)
    except core.HarnessError as e:
        print("HARNESS-ERROR property=%s %s" % (prop, e), file=sys.stderr)
        return 2
    except Exception:
        traceback.print_exc()
        print("HARNESS-ERROR property=%s unexpected exception in the harness" % prop, file=sys.stderr)
        return 2


if __name__ == "__main__":
    sys.exit(main())
