import BromeliaVerif.Drv.C17
import BromeliaVerif.Drv.C18
import BromeliaVerif.Drv.C20
import BromeliaVerif.Drv.Codec
import BromeliaVerif.Drv.Cmd
import BromeliaVerif.Drv.Cont
import BromeliaVerif.Drv.Route
import BromeliaVerif.Drv.Cfg
import BromeliaVerif.Drv.Psm
import BromeliaVerif.Drv.Ident
import BromeliaVerif.Drv.Pend
import BromeliaVerif.Drv.Outb
import BromeliaVerif.Drv.Inb
/-! Line-protocol driver: one operation per input line, one answer per output line.
Built as the native executable `driver`; imports models, specifications and generated tables only. -/
open BV.Drv

def step (line : String) : String :=
  let ws := (line.splitOn " ").filter (· ≠ "")
  let handlers : List (List String → Option String) := [opC17, opC18, opC20, opCodec, opC02, opCmd, opCont, opRoute, opCfg, opPsm, opIdent, opPend, opOutb, opInb]
  match handlers.findSome? (fun h => h ws) with
  | some r => r
  | none => "bad-op"

partial def loop (h : IO.FS.Stream) (out : IO.FS.Stream) : IO Unit := do
  let line ← h.getLine
  if line.isEmpty then return ()
  out.putStrLn (step (line.trimAscii.toString))
  loop h out

def main : IO Unit := do
  let out ← IO.getStdout
  loop (← IO.getStdin) out
