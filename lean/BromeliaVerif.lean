-- Root of the `BromeliaVerif` library (models, specifications, generated tables, property theorems).
import BromeliaVerif.Properties.C17
import BromeliaVerif.Properties.C18
import BromeliaVerif.Properties.C20
import BromeliaVerif.Properties.C01
import BromeliaVerif.Properties.C02
import BromeliaVerif.Properties.C03
import BromeliaVerif.Properties.C10
import BromeliaVerif.Properties.C06
import BromeliaVerif.Properties.C07
import BromeliaVerif.Properties.C09
import BromeliaVerif.Properties.C11
import BromeliaVerif.Properties.C12
import BromeliaVerif.Properties.C13
import BromeliaVerif.Properties.C14
import BromeliaVerif.Properties.C15
import BromeliaVerif.Properties.C16
import BromeliaVerif.Properties.C19
