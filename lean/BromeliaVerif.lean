-- Root of the `BromeliaVerif` library (models, specifications, generated tables, property theorems).
import BromeliaVerif.Properties.C17
