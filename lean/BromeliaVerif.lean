-- Root of the `BromeliaVerif` library (models, specifications, generated tables, property theorems).
import BromeliaVerif.Properties.C17
import BromeliaVerif.Properties.C18
import BromeliaVerif.Properties.C20
import BromeliaVerif.Properties.C01
import BromeliaVerif.Properties.C02
import BromeliaVerif.Properties.C03
import BromeliaVerif.Properties.C10
import BromeliaVerif.Properties.C09
