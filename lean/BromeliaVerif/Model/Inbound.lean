import BromeliaVerif.Model.Bytes
/-! Inbound pipeline (`TcpConnection._read/read`, `DiameterAssociation.recv_message_from_queue`,
`Open.run` / `notify_postprocess_message`, `get_message`), after the repairs listed in
known_findings.json: the receive worker keeps the bytes of an incomplete trailing message and prepends
them to what the transport delivers next (reassembly), and reader and worker exchange the byte
buffer under the transport lock.

Messages are byte strings; what the decoder makes of a complete message is C02's subject. -/
namespace BV.Inbound

/-- the 24-bit Message Length field (bytes 1..3 of the header) -/
def lenField (s : Bytes) : Nat := fromBE ((s.drop 1).take 3)

/-- a complete Diameter message: at least a header, and as long as its length field says -/
def WellFormed (m : Bytes) : Prop := 20 ≤ m.length ∧ lenField m = m.length

/-- `split_data_stream`: the longest prefix made of complete messages, and the remaining bytes of a
    partial one. A length field below 20 stops the scan (the rest is handed on as it is). -/
def splitStream : (fuel : Nat) → Bytes → List Bytes × Bytes
  | 0, s => ([], s)
  | f + 1, s =>
    if s.length < 20 then ([], s)
    else if lenField s < 20 ∨ s.length < lenField s then ([], s)
    else
      let r := splitStream f (s.drop (lenField s))
      (s.take (lenField s) :: r.1, r.2)

structure St where
  wire : Bytes            -- sent by the peer, not yet delivered by the network
  recvStream : Bytes      -- `transport._recv_data_stream`
  carry : Bytes           -- `association._recv_partial_stream`
  queue : List Bytes      -- `_recv_messages`
  ticked : List Bytes     -- ghost: messages taken off the queue by the state machine, in order
  consumed : List Bytes   -- base-protocol messages consumed by the state machine
  deliverQ : List Bytes   -- `postprocess_recv_messages`
  delivered : List Bytes  -- returned by `get_message()`
deriving Repr, Inhabited

def init (wire : Bytes) : St :=
  { wire, recvStream := [], carry := [], queue := [], ticked := [], consumed := [], deliverQ := [], delivered := [] }

inductive Act
  | chunk (n : Nat)       -- the network delivers the next n bytes (any segmentation)
  | worker                -- one iteration of the receive worker
  | tick                  -- one state-machine tick in Open with a queued message
  | get                   -- the application calls `get_message()`
deriving Repr, Inhabited

def step (isApp : Bytes → Bool) (s : St) : Act → St
  | .chunk n => { s with recvStream := s.recvStream ++ s.wire.take n, wire := s.wire.drop n }
  | .worker =>
    let data := s.carry ++ s.recvStream
    let r := splitStream data.length data
    { s with recvStream := [], carry := r.2, queue := s.queue ++ r.1 }
  | .tick =>
    match s.queue with
    | [] => s
    | m :: rest =>
      if isApp m then { s with queue := rest, ticked := s.ticked ++ [m], deliverQ := s.deliverQ ++ [m] }
      else { s with queue := rest, ticked := s.ticked ++ [m], consumed := s.consumed ++ [m] }
  | .get =>
    match s.deliverQ with
    | [] => s
    | m :: rest => { s with deliverQ := rest, delivered := s.delivered ++ [m] }

def run (isApp : Bytes → Bool) (wire : Bytes) (as : List Act) : St := as.foldl (step isApp) (init wire)

end BV.Inbound
