/-! Hop-by-Hop / End-to-End identifier assignment of `DiameterRequest` (bromelia/base.py), after the
repair listed in known_findings.json (membership test and registration happen under one class-level
lock). Per registry: a thread reads 4 random bytes, then — atomically — either registers the value
and returns it, or finds it already registered and goes back to reading. The random source is an
arbitrary stream (repeats allowed); which thread gets which value is decided by the interleaving.
Requests and answers built from an explicit header never touch the registries. -/
namespace BV.Ident

/-- program counter of a thread creating one request: first the Hop-by-Hop, then the End-to-End id -/
inductive Pc
  | readH | commitH (r : Nat) | readE (h : Nat) | commitE (h r : Nat) | done (h e : Nat)
deriving Repr, DecidableEq, Inhabited

structure Sys where
  hbh : List Nat            -- `DiameterRequest.hop_by_hop_identifiers`
  e2e : List Nat            -- `DiameterRequest.end_to_end_identifiers`
  src : List Nat            -- what `os.urandom(4)` will return, in order
  thr : List Pc             -- one entry per creating thread
deriving Repr, Inhabited

/-- one atomic step of thread `t` (no step if the thread is done or the source is exhausted) -/
def stepThread (s : Sys) (t : Nat) : Sys :=
  match s.thr[t]? with
  | none => s
  | some pc =>
    match pc with
    | .readH => (match s.src with | [] => s | r :: rest => { s with src := rest, thr := s.thr.set t (.commitH r) })
    | .commitH r =>
      if r ∈ s.hbh then { s with thr := s.thr.set t .readH }
      else { s with hbh := s.hbh ++ [r], thr := s.thr.set t (.readE r) }
    | .readE h => (match s.src with | [] => s | r :: rest => { s with src := rest, thr := s.thr.set t (.commitE h r) })
    | .commitE h r =>
      if r ∈ s.e2e then { s with thr := s.thr.set t (.readE h) }
      else { s with e2e := s.e2e ++ [r], thr := s.thr.set t (.done h r) }
    | .done _ _ => s

/-- a schedule: which thread moves next; `spawn` starts another creating thread (a request created
    without explicit header); an explicit-header creation is a no-op on this state -/
inductive Act
  | step (t : Nat)
  | spawn
  | explicitHeader
deriving Repr, Inhabited

def act (s : Sys) : Act → Sys
  | .step t => stepThread s t
  | .spawn => { s with thr := s.thr ++ [.readH] }
  | .explicitHeader => s

def issuedH (s : Sys) : List Nat := s.thr.filterMap fun pc =>
  match pc with | .readE h => some h | .commitE h _ => some h | .done h _ => some h | _ => none

def issuedE (s : Sys) : List Nat := s.thr.filterMap fun pc =>
  match pc with | .done _ e => some e | _ => none

end BV.Ident
