import BromeliaVerif.Model.Ipv4
/-! Connection configuration (bromelia/_internal_utils.py `_convert_config_to_connection_obj`,
bromelia/config.py `Config`, and the YAML step `_convert_file_to_config`), after the repairs listed in
known_findings.json. A configuration is an insertion-ordered dictionary; values are abstracted to
what the validation looks at. -/
namespace BV.Config

/-- one application entry of APPLICATIONS: its keys, and whether every value is `bytes` -/
structure AppEntry where
  keys : List String
  allBytes : Bool
deriving Repr, DecidableEq, Inhabited

/-- configuration values as the validation sees them (`tag` identifies the value for reflection) -/
inductive CVal
  | str (s : String)
  | int (n : Int)
  | none
  | apps (entries : List AppEntry) (tag : Nat)       -- a list of dictionaries
  | other (tag : Nat)                                -- any other object (float, dict, list of non-dicts, …)
deriving Repr, DecidableEq, Inhabited

abbrev Cfg := List (String × CVal)

def mask : List String :=
  ["MODE", "TRANSPORT_TYPE", "APPLICATIONS", "LOCAL_NODE_HOSTNAME", "LOCAL_NODE_REALM", "LOCAL_NODE_IP_ADDRESS",
   "LOCAL_NODE_PORT", "PEER_NODE_HOSTNAME", "PEER_NODE_REALM", "PEER_NODE_IP_ADDRESS", "PEER_NODE_PORT", "WATCHDOG_TIMEOUT"]

inductive Err
  | invalidKey      -- InvalidConfigKey
  | invalidValue    -- InvalidConfigValue
  | incomplete      -- a key is missing (UnboundLocalError in the code; outside the property: complete configs)
deriving Repr, DecidableEq, Inhabited

/-- `ipaddress.IPv4Address(value)` accepts a dotted-quad string, or an integer below 2^32 -/
def ipOk : CVal → Bool
  | .str s => (Ipv4.parse s.toList).isSome
  | .int n => decide (0 ≤ n ∧ n < 2 ^ 32)
  | _ => false

def appsOk : CVal → Bool
  | .apps es _ => es.all fun e => (e.keys.any fun k => k == "vendor_id" || k == "app_id") && e.allBytes
  | .none => true                                   -- falsy values: `if value:` skips the checks
  | .str s => s.isEmpty
  | .int n => n == 0
  | .other _ => false                               -- a truthy value that is not a list of dictionaries

/-- validation of one item -/
def validKV (k : String) (v : CVal) : Bool :=
  if k == "MODE" then v == .str "CLIENT" || v == .str "SERVER"
  else if k == "TRANSPORT_TYPE" then v == .str "TCP" || v == .str "SCTP"
  else if k == "APPLICATIONS" then appsOk v
  else if k == "LOCAL_NODE_IP_ADDRESS" || k == "PEER_NODE_IP_ADDRESS" then ipOk v
  else if k == "WATCHDOG_TIMEOUT" then (match v with | .int _ => true | _ => false)
  else true

/-- the Connection tuple: every field is the configured value -/
structure Connection where
  mode : CVal
  transport : CVal
  applications : CVal
  localHost : CVal
  localRealm : CVal
  localIp : CVal
  localPort : CVal
  peerHost : CVal
  peerRealm : CVal
  peerIp : CVal
  peerPort : CVal
  watchdog : CVal
deriving Repr, DecidableEq, Inhabited

def get (c : Cfg) (k : String) : Option CVal := c.lookup k

/-- `_convert_config_to_connection_obj`: unknown keys first, then each item in insertion order, then
    the tuple is assembled from the values read -/
def convert (c : Cfg) : Except Err Connection :=
  if c.any (fun kv => !mask.contains kv.1) then .error .invalidKey
  else if c.any (fun kv => !validKV kv.1 kv.2) then .error .invalidValue
  else
    match get c "MODE", get c "TRANSPORT_TYPE", get c "APPLICATIONS", get c "LOCAL_NODE_HOSTNAME", get c "LOCAL_NODE_REALM",
          get c "LOCAL_NODE_IP_ADDRESS", get c "LOCAL_NODE_PORT", get c "PEER_NODE_HOSTNAME", get c "PEER_NODE_REALM",
          get c "PEER_NODE_IP_ADDRESS", get c "PEER_NODE_PORT", get c "WATCHDOG_TIMEOUT" with
    | some a, some b, some c3, some d, some e, some f, some g, some h, some i, some j, some k, some l =>
      .ok ⟨a, b, c3, d, e, f, g, h, i, j, k, l⟩
    | _, _, _, _, _, _, _, _, _, _, _, _ => .error .incomplete

/-- a complete configuration: exactly the twelve keys, each once -/
def complete (c : Cfg) : Prop := (c.map (·.1)).Perm mask

/-! ### YAML specs -/

structure Spec where
  mode : String                       -- as written (any case)
  transport : Option String           -- `transport_type`, optional
  applications : Nat                  -- tag of the resolved application list
  fields : List (String × CVal)       -- the nine remaining values, already keyed by their config names
deriving Repr, Inhabited

def upper (s : String) : String := s.toUpper

/-- `_convert_file_to_config` (after the repair: the transport default is per entry): one config per
    spec entry, in order; mode and transport upper-cased, TCP when no transport is given -/
def specToCfg (s : Spec) : Cfg :=
  [("MODE", .str (upper s.mode)), ("TRANSPORT_TYPE", .str (upper (s.transport.getD "tcp"))),
   ("APPLICATIONS", .apps [] s.applications)] ++ s.fields

def fileToCfgs (specs : List Spec) : List Cfg := specs.map specToCfg

end BV.Config
