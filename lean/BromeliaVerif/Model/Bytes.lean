/-! Big-endian fixed-width encodings over `List UInt8`. -/
namespace BV

abbrev Bytes := List UInt8

/-- big-endian, exactly `w` bytes, value taken mod 256^w -/
def be : (w : Nat) → Nat → Bytes
  | 0, _ => []
  | w+1, n => UInt8.ofNat (n / 256 ^ w % 256) :: be w (n % 256 ^ w)

def fromBE : Bytes → Nat
  | [] => 0
  | b :: bs => b.toNat * 256 ^ bs.length + fromBE bs

@[simp] theorem be_length (w n : Nat) : (be w n).length = w := by
  induction w generalizing n with
  | zero => rfl
  | succ w ih => simp [be, ih]

theorem fromBE_be (w n : Nat) (h : n < 256 ^ w) : fromBE (be w n) = n := by
  induction w generalizing n with
  | zero => simp [be, fromBE] at *; omega
  | succ w ih =>
    simp only [be, fromBE, be_length]
    have hpos : 0 < 256 ^ w := Nat.pow_pos (by decide)
    have h1 : n / 256 ^ w < 256 := by
      rw [Nat.div_lt_iff_lt_mul hpos]; rw [Nat.pow_succ] at h; omega
    rw [ih _ (Nat.mod_lt _ hpos)]
    have : (UInt8.ofNat (n / 256 ^ w % 256)).toNat = n / 256 ^ w := by
      simp [UInt8.toNat_ofNat']; omega
    rw [this]
    exact Nat.div_add_mod' n (256 ^ w)

theorem fromBE_lt (bs : Bytes) : fromBE bs < 256 ^ bs.length := by
  induction bs with
  | nil => simp [fromBE]
  | cons b bs ih =>
    simp only [fromBE, List.length_cons, Nat.pow_succ]
    have := b.toNat_lt
    have hb : b.toNat < 256 := by simpa using this
    have : b.toNat * 256 ^ bs.length ≤ 255 * 256 ^ bs.length := Nat.mul_le_mul_right _ (by omega)
    omega
end BV
