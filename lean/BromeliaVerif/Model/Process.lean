import BromeliaVerif.Model.Bytes
/-! Validity predicates of base-protocol messages (`bromelia/process.py`: ProcessCapabilityExchange,
ProcessDeviceWatchdog, ProcessDisconnectPeer), after the repair listed in known_findings.json: a
message is valid when every mandatory *category* of AVP is present and valid (not when the number
of hits adds up). AVPs are abstracted to what the predicates look at. -/
namespace BV.Process

/-- an AVP of an inbound base-protocol message, as the validity predicates see it -/
inductive PAvp
  | originHost (flagsOk lenOk : Bool) (data : Bytes)
  | originRealm (flagsOk lenOk : Bool) (data : Bytes)
  | hostIp
  | vendorId
  | productName
  | originStateId
  | resultCode (flagsOk lenOk : Bool)
  | disconnectCause (rebooting : Bool)
  | other
deriving Repr, DecidableEq, Inhabited

structure Peer where
  host : Bytes
  realm : Bytes
deriving Repr, DecidableEq, Inhabited

def hasValidOriginHost (p : Peer) (as : List PAvp) : Bool :=
  as.any fun a => match a with | .originHost f l d => f && l && d == p.host | _ => false
def hasValidOriginRealm (p : Peer) (as : List PAvp) : Bool :=
  as.any fun a => match a with | .originRealm f l d => f && l && d == p.realm | _ => false
def hasHostIp (as : List PAvp) : Bool := as.any fun a => match a with | .hostIp => true | _ => false
def hasVendorId (as : List PAvp) : Bool := as.any fun a => match a with | .vendorId => true | _ => false
def hasProductName (as : List PAvp) : Bool := as.any fun a => match a with | .productName => true | _ => false
def hasValidResultCode (as : List PAvp) : Bool := as.any fun a => match a with | .resultCode f l => f && l | _ => false
def hasRebooting (as : List PAvp) : Bool := as.any fun a => match a with | .disconnectCause r => r | _ => false
def countOriginState (as : List PAvp) : Nat := (as.filter fun a => match a with | .originStateId => true | _ => false).length

/-- the header flag byte must be exactly 0x80 for a request, 0x00 for an answer -/
def validCER (p : Peer) (flags : Nat) (as : List PAvp) : Bool :=
  flags == 0x80 && hasValidOriginHost p as && hasValidOriginRealm p as && hasHostIp as && hasVendorId as &&
  hasProductName as && decide (countOriginState as ≤ 7)

def validCEA (p : Peer) (flags : Nat) (as : List PAvp) : Bool :=
  flags == 0x00 && hasValidResultCode as && hasValidOriginHost p as && hasValidOriginRealm p as && hasHostIp as &&
  hasVendorId as && hasProductName as

def validDWR (p : Peer) (flags : Nat) (as : List PAvp) : Bool :=
  flags == 0x80 && hasValidOriginHost p as && hasValidOriginRealm p as && decide (countOriginState as ≤ 1)

def validDWA (p : Peer) (flags : Nat) (as : List PAvp) : Bool :=
  flags == 0x00 && hasValidResultCode as && hasValidOriginHost p as && hasValidOriginRealm p as &&
  decide (countOriginState as ≤ 1)

def validDPR (p : Peer) (flags : Nat) (as : List PAvp) : Bool :=
  flags == 0x80 && hasValidOriginHost p as && hasValidOriginRealm p as && hasRebooting as

def validDPA (p : Peer) (flags : Nat) (as : List PAvp) : Bool :=
  flags == 0x00 && hasValidResultCode as && hasValidOriginHost p as && hasValidOriginRealm p as

/-- `process_request` (local-consumption rule of an application request): with a Destination-Host AVP
    some AVP of the message must carry the local host name as its data; else with a
    Destination-Realm AVP some AVP must carry the local realm; with neither, the request is taken -/
structure Addressing where
  hasDestHost : Bool
  hasDestRealm : Bool
  anyLocalHost : Bool        -- some AVP's data equals the local host name
  anyLocalRealm : Bool
deriving Repr, DecidableEq, Inhabited

def okAddr (a : Addressing) : Bool :=
  if a.hasDestHost then a.anyLocalHost else if a.hasDestRealm then a.anyLocalRealm else true

end BV.Process
