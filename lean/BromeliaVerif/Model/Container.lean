/-! The AVP container of `DiameterMessage` (bromelia/base.py): the ordered list `_avps`, the named
view (`__dict__` entries `<name>_avp[__k]`) and the Message Length field, under every container
operation. AVP objects are abstracted to what the container needs: an identity, the base attribute
name derived from the class / definition, and the padded size `append` adds to the length.
Attribute names are modelled structurally as (base, suffix) — `origin_host_avp__2` is
("origin_host_avp", 2), suffix 0 = no suffix. -/
namespace BV.Container

structure Obj where
  id : Nat
  base : String
  size : Nat
deriving Repr, DecidableEq, Inhabited

abbrev Key := String × Nat

structure Cont where
  avps : List Obj                 -- `_avps`, in order
  names : List (Key × Nat)        -- named view: key ↦ object id, in `__dict__` insertion order
  length : Nat                    -- header Message Length
deriving Repr, DecidableEq, Inhabited

def empty : Cont := { avps := [], names := [], length := 20 }

inductive Err
  | keyError          -- `pop` of an undefined key (KeyError) / index out of range (IndexError)
  | lib               -- DiameterMessageError
  | noFreshName       -- unreachable: no unused suffix among |names|+1 candidates
deriving Repr, DecidableEq, Inhabited

def keys (c : Cont) : List Key := c.names.map (·.1)

/-- `append`'s naming rule (after the repair): the base name, or the smallest unused `base__k`, k ≥ 1 -/
def freshKey (ks : List Key) (base : String) : Option Key :=
  if (base, 0) ∉ ks then some (base, 0)
  else ((List.range (ks.length + 1)).map fun k => (base, k + 1)).find? (· ∉ ks)

def sizeSum (os : List Obj) : Nat := (os.map (·.size)).sum

/-- `append(avp)` -/
def append (c : Cont) (o : Obj) : Except Err Cont :=
  match freshKey (keys c) o.base with
  | none => .error .noFreshName
  | some k => .ok { avps := c.avps ++ [o], names := c.names ++ [(k, o.id)], length := c.length + o.size }

def extend (c : Cont) : List Obj → Except Err Cont
  | [] => .ok c
  | o :: os => match append c o with
    | .error e => .error e
    | .ok c' => extend c' os

/-- `pop(key)`: removes the object the name refers to (by identity), the name, and its size -/
def pop (c : Cont) (k : Key) : Except Err Cont :=
  if c.avps.isEmpty then .error .lib else
  match c.names.lookup k with
  | none => .error .keyError
  | some i =>
    match c.avps.find? (·.id == i) with
    | none => .error .keyError
    | some o => .ok { avps := c.avps.filter (·.id != i), names := c.names.filter (·.1 != k), length := c.length - o.size }

/-- `cleanup()`: drops list and named view, subtracts the sizes of the listed AVPs -/
def cleanup (c : Cont) : Cont := { avps := [], names := [], length := c.length - sizeSum c.avps }

/-- `msg.avps = [...]` -/
def setAvps (c : Cont) (os : List Obj) : Except Err Cont := extend (cleanup c) os

def refresh (c : Cont) : Cont := { c with length := 20 + sizeSum c.avps }

/-- every name bound to object `old` now refers to object `new` -/
def rebind (ns : List (Key × Nat)) (old new : Nat) : List (Key × Nat) :=
  ns.map fun p => if p.2 == old then (p.1, new) else p

/-- `msg[idx] = avp` (after the repair: rebinds the name of the replaced object, refreshes the length) -/
def setItem (c : Cont) (idx : Nat) (o : Obj) : Except Err Cont :=
  match c.avps[idx]? with
  | none => .error .keyError
  | some old =>
    .ok (refresh { c with avps := c.avps.set idx o, names := rebind c.names old.id o.id })

def hasKey (c : Cont) (k : Key) : Bool := !c.avps.isEmpty && (keys c).contains k

/-- `update_key(old, new)`: `__dict__[new] = __dict__.pop(old)` (the entry moves to the end) -/
def updateKey (c : Cont) (old new : Key) : Except Err Cont :=
  if !hasKey c old then .error .lib
  else if hasKey c new then .error .lib
  else match c.names.lookup old with
    | none => .error .lib
    | some i => .ok { c with names := c.names.filter (·.1 != old) ++ [(new, i)] }

/-- `update_avp(name, value)`: a new object of the same class replaces the named one in place -/
def updateAvp (c : Cont) (k : Key) (o : Obj) : Except Err Cont :=
  match c.names.lookup k with
  | none => .error .keyError
  | some i =>
    match c.avps.findIdx? (·.id == i) with
    | none => .error .keyError
    | some idx => setItem c idx o

/-- `update_avps` re-assigning data of a listed object in place (e.g. the regenerated Session-Id),
    followed by its final `refresh()` -/
def resize (c : Cont) (i newSize : Nat) : Cont :=
  refresh { c with avps := c.avps.map fun o => if o.id == i then { o with size := newSize } else o }

inductive Op
  | append (o : Obj)
  | extend (os : List Obj)
  | pop (k : Key)
  | cleanup
  | setAvps (os : List Obj)
  | setItem (idx : Nat) (o : Obj)
  | updateKey (old new : Key)
  | updateAvp (k : Key) (o : Obj)
  | refresh
  | resize (i newSize : Nat)
deriving Repr, Inhabited

/-- one operation; an operation that raises leaves the container unchanged -/
def apply (c : Cont) : Op → Cont
  | .append o => match append c o with | .ok c' => c' | .error _ => c
  | .extend os => match extend c os with | .ok c' => c' | .error _ => c
  | .pop k => match pop c k with | .ok c' => c' | .error _ => c
  | .cleanup => cleanup c
  | .setAvps os => match setAvps c os with | .ok c' => c' | .error _ => c
  | .setItem i o => match setItem c i o with | .ok c' => c' | .error _ => c
  | .updateKey a b => match updateKey c a b with | .ok c' => c' | .error _ => c
  | .updateAvp k o => match updateAvp c k o with | .ok c' => c' | .error _ => c
  | .refresh => refresh c
  | .resize i n => resize c i n

/-- objects handed to an operation -/
def Op.objs : Op → List Obj
  | .append o => [o] | .extend os => os | .setAvps os => os | .setItem _ o => [o] | .updateAvp _ o => [o]
  | _ => []

end BV.Container
