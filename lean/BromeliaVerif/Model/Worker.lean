import BromeliaVerif.Model.Parse
/-! One iteration of the receive worker `DiameterAssociation.recv_message_from_queue`
(bromelia/setup.py): take the association lock, take the bytes accumulated by the transport, decode
them, enqueue the messages; library decoding errors are logged and the stream is discarded; the lock
is released in a `finally`. A foreign exception would propagate and end the worker thread. -/
namespace BV.Worker
open BV BV.Dict BV.Parse

structure Out where
  alive : Bool               -- the worker thread continues with the next iteration
  lockHeld : Bool            -- `association.lock` still held after the iteration
  enqueued : List LMsg       -- messages put on `_recv_messages`, in order
deriving Inhabited

def step (dict : List Entry) (stream : Bytes) : Out :=
  match loadMsgs dict stream with
  | .ok ms => { alive := true, lockHeld := false, enqueued := ms }
  | .error (.std _) => { alive := false, lockHeld := false, enqueued := [] }   -- uncaught, `finally` runs
  | .error _ => { alive := true, lockHeld := false, enqueued := [] }           -- caught and logged

end BV.Worker
