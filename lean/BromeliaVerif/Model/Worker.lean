import BromeliaVerif.Model.Parse
import BromeliaVerif.Model.Inbound
/-! One iteration of the receive worker `DiameterAssociation.recv_message_from_queue`
(bromelia/setup.py): take the association lock, take the bytes accumulated by the transport, prepend
the bytes of the partial message carried over from the previous iteration, split off the complete
messages (`split_data_stream`), decode them, enqueue the messages; library decoding errors are logged
and the stream is discarded; the lock is released in a `finally`. A foreign exception would
propagate and end the worker thread. -/
namespace BV.Worker
open BV BV.Dict BV.Parse

structure Out where
  alive : Bool               -- the worker thread continues with the next iteration
  lockHeld : Bool            -- `association.lock` still held after the iteration
  enqueued : List LMsg       -- messages put on `_recv_messages`, in order
  carry : Bytes              -- `_recv_partial_stream` after the iteration
deriving Inhabited

/-- `split_data_stream`: (bytes of the complete messages, bytes of the trailing partial one); when what
    remains has a header whose length field is below 20 the whole stream is handed to the decoder
    (which rejects it) and nothing is carried -/
def splitData (s : Bytes) : Bytes × Bytes :=
  let r := Inbound.splitStream s.length s
  if 20 ≤ r.2.length ∧ Inbound.lenField r.2 < 20 then (s, []) else (r.1.flatten, r.2)

/-- what the iteration does with the decoder's verdict -/
def finish (r : Except Err (List LMsg)) (carry : Bytes) : Out :=
  match r with
  | .ok ms => { alive := true, lockHeld := false, enqueued := ms, carry := carry }
  | .error (.std _) => { alive := false, lockHeld := false, enqueued := [], carry := carry }   -- uncaught, `finally` runs
  | .error _ => { alive := true, lockHeld := false, enqueued := [], carry := carry }           -- caught and logged

def step (dict : List Entry) (carry stream : Bytes) : Out :=
  finish (loadMsgs dict (splitData (carry ++ stream)).1) (splitData (carry ++ stream)).2

end BV.Worker
