/-! Request/answer rendezvous of `Bromelia.send_message` and `Bromelia.handler_pending_answers`
(`bromelia/bromelia.py`, PendingAnswer / Worker.pending_answers), after the repair listed in
known_findings.json (the waiter is registered before the request is queued).

One record per request sent with `recv_answer=True`; requests carry pairwise distinct Hop-by-Hop
identifiers (C15), the registry is a dictionary keyed by that identifier, so a step of a caller or
of an answer-dispatch thread touches only the record of its identifier. Any number of answers may
arrive for an identifier (duplicates), each handled by its own dispatch thread; an answer can arrive
only after its request was handed to the worker. Answers for identifiers nobody waits for find no
entry and are dropped (`stray`). Every step below is one synchronisation operation of the code. -/
namespace BV.Pending

/-- program counter of the caller (`Bromelia.send_message`) -/
inductive CPc
  | start        -- before `insert_pending_answer`
  | registered   -- waiter in the registry, request not yet queued
  | waiting      -- request queued on the worker; in `recv_event.wait()`
  | woke         -- `recv_event.wait()` returned; before `recv_event.clear()`
  | cleared      -- before `stop_event.set()`
  | stopSet      -- before reading `p_answer.msg`
  | done         -- returned
deriving DecidableEq, Repr, Inhabited

/-- program counter of an answer-dispatch thread (`handler_pending_answers`) -/
inductive DPc
  | check        -- before `is_pending_answer`
  | found        -- before `get_pending_answer`
  | fetched      -- holds the waiter object; before `update_msg`
  | updated      -- before `recv_event.set()`
  | notified     -- in `stop_event.wait()`
  | released     -- before `pending_answers.pop`
  | done
  | dropped      -- no entry: the answer is discarded
  | crashed      -- `get_pending_answer` raised KeyError (entry popped by another dispatch thread)
deriving DecidableEq, Repr, Inhabited

/-- what the caller's `p_answer.msg` refers to -/
inductive Slot | request | answer (k : Nat)      -- the k-th answer that arrived for this identifier
deriving DecidableEq, Repr, Inhabited

structure Rec where
  cpc : CPc
  reg : Bool                 -- the identifier is a key of `pending_answers`
  recv : Bool                -- `recv_event`
  stop : Bool                -- `stop_event`
  slot : Slot                -- `p_answer.msg`
  disp : List DPc            -- one dispatch thread per answer that arrived, in arrival order
  result : Option Slot       -- what `send_message` returned
deriving DecidableEq, Repr, Inhabited

def Rec.init : Rec := { cpc := .start, reg := false, recv := false, stop := false, slot := .request, disp := [], result := none }

/-- the request has been handed to the worker (so the peer can answer it) -/
def Rec.sent (r : Rec) : Bool :=
  match r.cpc with | .start | .registered => false | _ => true

/-- one step of the caller, if enabled -/
def callerStep (r : Rec) : Option Rec :=
  match r.cpc with
  | .start => some { r with cpc := .registered, reg := true }
  | .registered => some { r with cpc := .waiting }
  | .waiting => if r.recv then some { r with cpc := .woke } else none
  | .woke => some { r with cpc := .cleared, recv := false }
  | .cleared => some { r with cpc := .stopSet, stop := true }
  | .stopSet => some { r with cpc := .done, result := some r.slot }
  | .done => none

/-- one step of dispatch thread `j`, if enabled -/
def dispStep (r : Rec) (j : Nat) : Option Rec :=
  match r.disp[j]? with
  | none => none
  | some pc =>
    match pc with
    | .check => some { r with disp := r.disp.set j (if r.reg then .found else .dropped) }
    | .found => some { r with disp := r.disp.set j (if r.reg then .fetched else .crashed) }
    | .fetched => some { r with slot := .answer j, disp := r.disp.set j .updated }
    | .updated => some { r with recv := true, disp := r.disp.set j .notified }
    | .notified => if r.stop then some { r with disp := r.disp.set j .released } else none
    | .released => some { r with reg := false, disp := r.disp.set j .done }
    | .done | .dropped | .crashed => none

inductive Act
  | caller (i : Nat)
  | arrive (i : Nat)         -- an answer carrying identifier i reaches `handler_pending_answers`
  | disp (i j : Nat)
  | newRequest               -- another application thread calls `send_message`
  | stray                    -- an answer nobody waits for: no entry, dropped, no record touched
deriving Repr, Inhabited

abbrev Sys := List Rec

def updAt (s : Sys) (i : Nat) (f : Rec → Option Rec) : Sys :=
  match s[i]? with
  | none => s
  | some r => match f r with
    | none => s                  -- not enabled: no step
    | some r' => s.set i r'

def act (s : Sys) : Act → Sys
  | .caller i => updAt s i callerStep
  | .arrive i => updAt s i fun r => if r.sent then some { r with disp := r.disp ++ [.check] } else none
  | .disp i j => updAt s i fun r => dispStep r j
  | .newRequest => s ++ [Rec.init]
  | .stray => s

def run (as : List Act) : Sys := as.foldl act []

/-- nothing in the record can move -/
def Rec.quiescent (r : Rec) : Bool :=
  (callerStep r).isNone && (List.range r.disp.length).all fun j => (dispStep r j).isNone

end BV.Pending
