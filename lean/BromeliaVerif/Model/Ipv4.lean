import BromeliaVerif.Model.Bytes
/-! IPv4 dotted-quad literals: recogniser and formatter (what `ipaddress.IPv4Address(str)` accepts in
Python ≥ 3.9.5: exactly four decimal octets 0..255, ASCII digits only, no leading zeros, at most
three digits each). Used by C19 (address validity) and C20 (Address AVP accessors). -/
namespace BV.Ipv4

def octet (s : List Char) : Option Nat :=
  if s.isEmpty || s.length > 3 then none
  else if !s.all Char.isDigit then none
  else if s.length > 1 && s.head? == some '0' then none
  else
    let n := s.foldl (fun acc c => acc * 10 + (c.toNat - '0'.toNat)) 0
    if n ≤ 255 then some n else none

/-- split at dots (like `str.split(".")`) -/
def splitDots (s : List Char) : List (List Char) :=
  s.foldr (fun c acc => if c == '.' then [] :: acc else
    match acc with
    | [] => [[c]]
    | h :: t => (c :: h) :: t) [[]]

def parse (s : List Char) : Option Bytes :=
  match splitDots s with
  | [a, b, c, d] =>
    match octet a, octet b, octet c, octet d with
    | some a, some b, some c, some d => some [UInt8.ofNat a, UInt8.ofNat b, UInt8.ofNat c, UInt8.ofNat d]
    | _, _, _, _ => none
  | _ => none

def format (b : Bytes) : String := ".".intercalate (b.map fun x => toString x.toNat)

end BV.Ipv4
