/-! Teardown of a connection (`PeerStateMachine.get_next_state`, `DiameterAssociation.close`,
`TcpConnection.close`, and the exit conditions of the four loops: state-machine thread, transport
thread `_run`, receive worker `recv_message_from_queue`, application consumer `get_message`), after
the repairs listed in known_findings.json. Every blocking operation inside the loops is a timed wait
or a lock that is always released, so a loop body always comes back to its loop condition. -/
namespace BV.Teardown

inductive Th | psm | transport | worker | consumer
deriving DecidableEq, Repr, Inhabited

/-- where a loop is: about to evaluate its condition, inside its (bounded) body, or finished -/
inductive Pos | top | body | exited
deriving DecidableEq, Repr, Inhabited

structure St where
  psmRunning : Bool        -- `PeerStateMachine.is_running`
  assocStop : Bool         -- `association._stop_threads`
  trNone : Bool            -- `association.transport is None`
  trConnected : Bool       -- `transport.is_connected`
  trStop : Bool            -- `transport._stop_threads`
  sockClosed : Bool
  registered : Bool        -- the socket is registered with the selector
  consumerWoken : Bool     -- `postprocess_recv_messages_ready` set by the forced close
  lockHeld : Bool          -- the association lock is held by the receive worker
  psm : Pos
  transport : Pos
  worker : Pos
  consumer : Pos
deriving DecidableEq, Repr, Inhabited

/-- an established connection with all four loops running -/
def up : St :=
  { psmRunning := true, assocStop := false, trNone := false, trConnected := true, trStop := false, sockClosed := false,
    registered := true, consumerWoken := false, lockHeld := false, psm := .top, transport := .top, worker := .top, consumer := .top }

/-- the tick that decides for Closed: `get_next_state(CLOSED)` from another state — `is_running = False`,
    `association.close()` (`_stop_threads`, `transport.close()`: unregister + close the socket,
    `transport._stop_threads`, `transport = None`) — executed by the state-machine thread -/
def teardown (s : St) : St :=
  { s with psmRunning := false, assocStop := true, trNone := true, trConnected := false, trStop := true, sockClosed := true,
           registered := false, consumerWoken := true }

def pos (s : St) : Th → Pos
  | .psm => s.psm | .transport => s.transport | .worker => s.worker | .consumer => s.consumer

/-- one step of a loop: evaluate the condition at the top, or finish the bounded body -/
def step (s : St) : Th → St
  | .psm => match s.psm with
    | .top => if s.psmRunning then { s with psm := .body } else { s with psm := .exited }
    | .body => { s with psm := .top }
    | .exited => s
  | .transport => match s.transport with
    | .top => if s.trConnected && !s.trStop then { s with transport := .body } else { s with transport := .exited }
    | .body => { s with transport := .top }                       -- `select(timeout=…)` returns
    | .exited => s
  | .worker => match s.worker with
    | .top => if !s.assocStop && !s.trNone then { s with worker := .body, lockHeld := true } else { s with worker := .exited }
    | .body =>
      -- timed wait, lock taken; `transport is None` → release and leave; else parse, release, loop
      if s.trNone then { s with worker := .exited, lockHeld := false } else { s with worker := .top, lockHeld := false }
    | .exited => s
  | .consumer => match s.consumer with
    | .top => if !s.assocStop then { s with consumer := .body } else { s with consumer := .exited }
    | .body => { s with consumer := .top }                        -- `Queue.get(timeout=1)` returns or times out
    | .exited => s

inductive Act
  | run (t : Th)
  | teardown
deriving Repr, Inhabited

def act (s : St) : Act → St
  | .run t => step s t
  | .teardown => teardown s

/-- the node is down: what `teardown` establishes -/
def Down (s : St) : Prop :=
  s.psmRunning = false ∧ s.assocStop = true ∧ s.trNone = true ∧ s.trConnected = false ∧ s.trStop = true ∧
  s.sockClosed = true ∧ s.registered = false

def allExited (s : St) : Prop := s.psm = .exited ∧ s.transport = .exited ∧ s.worker = .exited ∧ s.consumer = .exited

end BV.Teardown
