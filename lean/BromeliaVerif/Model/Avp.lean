import BromeliaVerif.Model.Bytes
/-! `DiameterAVP` (bromelia/base.py): the object state that `dump()` reads and the serialiser as the
code computes it — `length` from the data on every call, `if self.vendor_id:` / `if self.data:`
truthiness tests, `padding` property (`None` for empty data). A Vendor-ID given as bytes or int is
always four bytes, hence truthy: presence = `vendor.isSome`. -/
namespace BV

structure Avp where
  code : Nat
  flags : Nat
  vendor : Option Nat
  data : Bytes
deriving Repr, DecidableEq, Inhabited

/-- zero bytes needed to reach the next multiple of four (RFC 6733 §4) -/
def padLen (n : Nat) : Nat := (4 - n % 4) % 4

/-- the V bit of a flag byte (`flags & 0x80 != 0`) -/
def vbit (fl : Nat) : Bool := fl / 128 % 2 == 1

namespace Avp

def hdrLen (a : Avp) : Nat := if a.vendor.isSome then 12 else 8

/-- the `length` property: header plus data, padding excluded -/
def len (a : Avp) : Nat := a.hdrLen + a.data.length

/-- the `padding` property (as bytes; `None` ↦ `[]`) -/
def pyPadding (a : Avp) : Bytes :=
  if a.data.isEmpty then []
  else if a.data.length % 4 ≠ 0 then List.replicate (4 - a.data.length % 4) 0 else []

/-- `dump()`; `convert_to_3_bytes` raises OverflowError for a length ≥ 2^24 (hypothesis `WF`) -/
def dump (a : Avp) : Bytes :=
  be 4 a.code ++ be 1 a.flags ++ be 3 a.len ++
  (match a.vendor with | some v => be 4 v | none => []) ++
  (if a.data.isEmpty then [] else a.data) ++ a.pyPadding

/-- size `DiameterMessage.append` adds to the Message Length: `get_length()` plus
    `get_padding_length()` when that is truthy -/
def paddedLen (a : Avp) : Nat := a.len + a.pyPadding.length

/-- fields fit their widths, V flag agrees with the presence of a Vendor-ID -/
def WF (a : Avp) : Prop :=
  a.code < 2 ^ 32 ∧ a.flags < 256 ∧ (vbit a.flags = a.vendor.isSome) ∧
  a.vendor.getD 0 < 2 ^ 32 ∧ a.len < 2 ^ 24

instance (a : Avp) : Decidable a.WF := by unfold WF; infer_instance

end Avp
end BV
