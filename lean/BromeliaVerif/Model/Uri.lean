import BromeliaVerif.Model.Bytes
/-! The DiameterURI acceptance test of `DiameterURIType.parser_data` (bromelia/types.py): UTF-8
decode, then `re.fullmatch` of

  aaa[s]{0,1}://(?!\d\.)[a-zA-Z1-9_\-].{1,62}[a-zA-Z1-9_\-](\:\b(PORT)\b){0,1}
      (;transport=(tcp|udp|sctp)){0,1}(;protocol=(diameter|radius)){0,1}

with PORT = 1..49151 without leading zeros. A full match exists iff for some choice of the three
optional suffixes the remaining middle part is a "host": 3..64 characters, first and last in
`[a-zA-Z1-9_-]`, no newline inside, and not starting with a digit followed by a dot. The regular
expression engine itself (`re`) is trusted; this is its specification for this one pattern, tied by
the correspondence. -/
namespace BV.Uri

def edge (c : Char) : Bool :=
  ('a' ≤ c && c ≤ 'z') || ('A' ≤ c && c ≤ 'Z') || ('1' ≤ c && c ≤ '9') || c == '_' || c == '-'

/-- `\d` on a str pattern matches any Unicode decimal digit; ASCII digits are what the generators use -/
def isDigitPy (c : Char) : Bool := c.isDigit

def hostOk (h : List Char) : Bool :=
  3 ≤ h.length && h.length ≤ 64 &&
  (match h with
   | a :: b :: _ => edge a && !(isDigitPy a && b == '.')
   | _ => false) &&
  (match h.getLast? with | some z => edge z | none => false) &&
  (h.drop 1).dropLast.all (· != '\n')

def stripSuffix (suf s : List Char) : Option (List Char) :=
  if suf.length ≤ s.length ∧ s.drop (s.length - suf.length) = suf then some (s.take (s.length - suf.length)) else none

/-- `:PORT` at the end: digits without leading zero, value 1..49151; `\b` after `:` and after the
    port hold because a digit follows a non-word character and the port is followed by `;` or the end -/
def stripPort (s : List Char) : List (List Char) :=
  -- all ways to remove a trailing ":<port>"
  (List.range 6).filterMap fun k =>
    let n := k          -- number of digits, 1..5
    if n = 0 ∨ s.length < n + 1 then none else
    let digits := s.drop (s.length - n)
    let pre := s.take (s.length - n)
    if pre.getLast? == some ':' ∧ digits.all Char.isDigit ∧ digits.head? != some '0' then
      let v := digits.foldl (fun a c => a * 10 + (c.toNat - '0'.toNat)) 0
      if 1 ≤ v ∧ v ≤ 49151 then some pre.dropLast else none
    else none

def protos : List (List Char) := [[], ";protocol=diameter".toList, ";protocol=radius".toList]
def transports : List (List Char) := [[], ";transport=tcp".toList, ";transport=udp".toList, ";transport=sctp".toList]

def matchRest (r : List Char) : Bool :=
  protos.any fun p =>
    match stripSuffix p r with
    | none => false
    | some r1 =>
      transports.any fun t =>
        match stripSuffix t r1 with
        | none => false
        | some r2 => hostOk r2 || (stripPort r2).any hostOk

def accepts (s : List Char) : Bool :=
  match stripSuffix [] s with
  | _ =>
    let a := "aaa://".toList
    let b := "aaas://".toList
    (s.take a.length == a && matchRest (s.drop a.length)) ||
    (s.take b.length == b && matchRest (s.drop b.length))

/-- on wire bytes: `none` = not valid UTF-8 (`UnicodeDecodeError` in the code as pinned) -/
def acceptsBytes (d : Bytes) : Option Bool :=
  match String.fromUTF8? (ByteArray.mk d.toArray) with
  | some s => some (accepts s.toList)
  | none => none

end BV.Uri
