import BromeliaVerif.Model.Avp
/-! `DiameterHeader` and `DiameterMessage` (bromelia/base.py): header fields that are `None` are
omitted by `dump()`; the Message Length is maintained incrementally by `append` (unless the message
is being built by `load()`), recomputed by `refresh()`. -/
namespace BV

structure Header where
  version : Nat
  length : Nat
  flags : Nat
  cmd : Option Nat
  app : Option Nat
  hbh : Option Nat
  e2e : Option Nat
deriving Repr, DecidableEq, Inhabited

namespace Header
def optBE (w : Nat) : Option Nat → Bytes
  | some v => be w v
  | none => []

def dump (h : Header) : Bytes :=
  be 1 h.version ++ be 3 h.length ++ be 1 h.flags ++ optBE 3 h.cmd ++ optBE 4 h.app ++ optBE 4 h.hbh ++ optBE 4 h.e2e

/-- every field present and within its width -/
def WF (h : Header) : Prop :=
  h.version < 256 ∧ h.flags < 256 ∧ (∃ c, h.cmd = some c ∧ c < 2 ^ 24) ∧ (∃ a, h.app = some a ∧ a < 2 ^ 32) ∧
  (∃ x, h.hbh = some x ∧ x < 2 ^ 32) ∧ (∃ x, h.e2e = some x ∧ x < 2 ^ 32)
end Header

structure Msg where
  hdr : Header
  avps : List Avp
  loaded : Bool := false
deriving Repr, DecidableEq, Inhabited

namespace Msg
/-- `DiameterMessage(header)` with the default Message Length 20 -/
def new (h : Header) : Msg := { hdr := { h with length := 20 }, avps := [] }

/-- `append` (length bookkeeping only; the named view is modelled in `Container`) -/
def append (m : Msg) (a : Avp) : Msg :=
  { m with avps := m.avps ++ [a],
           hdr := if m.loaded then m.hdr else { m.hdr with length := m.hdr.length + a.paddedLen } }

def dump (m : Msg) : Bytes := m.hdr.dump ++ m.avps.flatMap Avp.dump

/-- `refresh()` -/
def refresh (m : Msg) : Msg :=
  { m with hdr := { m.hdr with length := 20 + (m.avps.map Avp.paddedLen).sum } }
end Msg
end BV
