import BromeliaVerif.Model.Avp
import BromeliaVerif.Model.ResultCode
/-! `decorate_answer(answer, request)` (bromelia/bromelia.py): what a route handler's answer is turned
into before it is sent. The answer is abstracted to the parts the function reads or writes: header
flags and identifiers, the Session-Id data, the Result-Code value, whether an Experimental-Result is
present, and the padded size of all other AVPs (for the Message Length). -/
namespace BV.Decorate
open BV BV.ResultCode

structure Ans where
  flags : Nat
  app : Option Nat
  hbh : Option Nat
  e2e : Option Nat
  session : Option Bytes          -- data of the Session-Id AVP, if the answer has one
  resultCode : Option Nat         -- value of the Result-Code AVP, if present
  hasExp : Bool                   -- Experimental-Result present
  rest : Nat                      -- padded size of the remaining AVPs (incl. Experimental-Result)
  length : Nat                    -- header Message Length
deriving Repr, DecidableEq, Inhabited

structure Req where
  app : Option Nat
  hbh : Option Nat
  e2e : Option Nat
  session : Option Bytes
deriving Repr, DecidableEq, Inhabited

inductive Err
  | header          -- DiameterHeaderError: the "answer" has the R bit set (library error)
deriving Repr, DecidableEq, Inhabited

def ebit (f : Nat) : Bool := f / 32 % 2 == 1
def rbit (f : Nat) : Bool := f / 128 % 2 == 1

/-- padded size of a Session-Id AVP (no vendor) with the given data -/
def sidSize (d : Bytes) : Nat := 8 + d.length + padLen d.length

/-- the Message Length that matches the content -/
def msgSize (a : Ans) : Nat :=
  20 + a.rest + (match a.session with | some d => sidSize d | none => 0) + (match a.resultCode with | some _ => 12 | none => 0)

def errorFamily (rc : Option Nat) : Bool :=
  match rc with
  | some n => fam 3 n || fam 4 n || fam 5 n
  | none => false

/-- step 1: identifiers and Application-ID are copied from the request -/
def copyIds (a : Ans) (r : Req) : Ans := { a with app := r.app, hbh := r.hbh, e2e := r.e2e }

/-- step 2: the request's Session-Id is written into the answer's Session-Id AVP — or, when the
    answer has none, a Session-Id AVP is put in front of its AVPs — then `refresh()` -/
def copySession (a : Ans) (r : Req) : Except Err Ans :=
  match r.session with
  | none => .ok a
  | some d => .ok { a with session := some d, length := msgSize { a with session := some d } }

/-- step 3: error flag from the Result-Code family; an E bit the handler set itself is kept
    (`set_error_bit(True)` refuses when the R bit is set) -/
def setError (a : Ans) : Except Err Ans :=
  if errorFamily a.resultCode then
    if ebit a.flags then .ok a
    else if rbit a.flags then .error .header else .ok { a with flags := a.flags + 32 }
  else .ok a

/-- step 4: a Result-Code is not sent alongside an Experimental-Result (`pop` adjusts the length) -/
def dropRc (a : Ans) : Ans :=
  if a.hasExp && a.resultCode.isSome then { a with resultCode := none, length := a.length - 12 } else a

def decorate (a : Ans) (r : Req) : Except Err Ans :=
  match copySession (copyIds a r) r with
  | .error e => .error e
  | .ok a2 =>
    match setError a2 with
    | .error e => .error e
    | .ok a3 => .ok (dropRc a3)

end BV.Decorate
