import BromeliaVerif.Model.DictTypes
import BromeliaVerif.Model.Avp
import BromeliaVerif.Model.Address
import BromeliaVerif.Model.Ipv4
import BromeliaVerif.Model.Time
import BromeliaVerif.Model.Tbcd
import BromeliaVerif.Model.Uri
/-! Typed constructors `cls(value)` of the dictionary classes (bromelia/types.py and the special
constructors), per data-type kind: which Python values are accepted, which data bytes result, which
error class is raised. The table in DESIGN.md Appendix D.1 is the prose version. Grouped from a
list of AVPs is here; Grouped from wire bytes is in `Model/Parse.lean`. -/
namespace BV.Dict
open BV

/-- Python values a constructor may be given (what the generators produce) -/
inductive PyVal
  | int (n : Int)
  | bool (b : Bool)
  | bytes (b : Bytes)
  | str (cps : List Nat)                      -- code points
  | none
  | float
  | datetime (y m d hh mm ss : Nat)            -- naive, valid civil instant
  | ip (fam : Nat) (packed : Bytes)            -- a str literal that `ipaddress` parses to (4|6, packed)
  | badip                                      -- a str that `ipaddress` rejects
  | other                                      -- dict / object / tuple …
deriving Repr, Inhabited

/-- exception classes: `lib` = defined in bromelia.exceptions, `std` = anything else -/
inductive PyErr
  | lib (name : String)
  | std (name : String)
deriving Repr, DecidableEq, Inhabited

inductive Built
  | ok (data : Bytes)
  | err (e : PyErr)
  | unmodelled                                 -- outside what the model covers (reported, not compared)
deriving Repr, Inhabited

def utf8 (cps : List Nat) : Bytes := (String.ofList (cps.map Char.ofNat)).toUTF8.toList

def startsWith (p s : Bytes) : Bool := s.take p.length == p

def ascii (s : String) : Bytes := s.toUTF8.toList

/-- data bytes built by the constructor of a class of kind `k` from a Python value
    (`values` = enumerators of an Enumerated class) -/
def construct (k : Kind) (values : List Nat) : PyVal → Built
  | v =>
  match k with
  | .octetString | .utf8String | .diameterIdentity | .eapPayload =>
    match v with
    | .bytes b => .ok b
    | .str s => if k == .eapPayload then .unmodelled else .ok (utf8 s)
    | .ip _ _ | .badip => .unmodelled         -- these are `str` values; generators use `.str` for string kinds
    | _ => if k == .eapPayload then .unmodelled else .err (.lib "DataTypeError")
  | .sessionId =>
    match v with
    | .bytes b => .ok b
    | .str _ => .unmodelled                    -- generated Session-Id: property C16
    | _ => .unmodelled
  | .diameterURI =>
    match v with
    | .bytes b => if Uri.acceptsBytes b == some true then .ok b else .err (.lib "DataTypeError")
    | .str s => if Uri.accepts (s.map Char.ofNat) then .ok (utf8 s) else .err (.lib "DataTypeError")
    | .ip _ _ | .badip => .unmodelled
    | _ => .err (.lib "DataTypeError")
  | .integer32 =>
    match v with
    | .bytes b => if b.length = 4 then .ok b else .err (.lib "DataTypeError")
    | _ => .unmodelled
  | .unsigned32 =>
    match v with
    | .int n => if 0 ≤ n ∧ n < 2 ^ 32 then .ok (be 4 n.toNat) else .err (.std "error")
    | .bool b => .ok (be 4 (if b then 1 else 0))
    | .bytes b => if b.length = 4 then .ok b else .err (.lib "DataTypeError")
    | _ => .err (.lib "DataTypeError")
  | .unsigned64 =>
    match v with
    | .int n => if 0 ≤ n ∧ n < 2 ^ 64 then .ok (be 8 n.toNat) else .err (.std "error")
    | .bool b => .ok (be 8 (if b then 1 else 0))
    | .bytes b => if b.length = 8 then .ok b else .err (.lib "DataTypeError")
    | _ => .err (.lib "DataTypeError")
  | .enumerated =>
    match v with
    | .bytes b => if b.length = 4 ∧ values.contains (fromBE b) then .ok b else .err (.lib "AVPAttributeValueError")
    | _ => .err (.lib "AVPAttributeValueError")
  | .address =>
    match v with
    | .ip 4 p => .ok (Address.mk .v4 p)
    | .ip _ p => .ok (Address.mk .v6 p)
    | .badip => .err (.std "ValueError")
    | .bytes b => if Address.fromBytesOk b then .ok b else .err (.lib "DataTypeError")
    | _ => .unmodelled
  | .framedIp =>
    match v with
    | .ip 4 p => .ok p
    | .ip _ _ => .err (.lib "DataTypeError")
    | _ => .unmodelled
  | .time =>
    match v with
    | .datetime y m d hh mm ss =>
      match Time.timeData (Spec.Ntp.days y m d) (hh * 3600 + mm * 60 + ss) with
      | some b => .ok b
      | none => .err (.std "error")
    | .bytes b => if b.length = 4 then .ok b else .err (.lib "DataTypeError")
    | _ => .err (.lib "DataTypeError")
  | .tbcd =>
    match v with
    | .int n => if 0 ≤ n then .ok (Tbcd.avpData n.toNat) else .unmodelled
    | .bytes b => .ok b
    | _ => .unmodelled
  | .grouped => .unmodelled                    -- handled by `constructGrouped`
  | .unmodelled => .unmodelled

/-- Grouped from a list of member AVPs: the data is the concatenation of the members' dumps; the
    mandatory member *codes* must all occur (the code compares codes only) -/
def constructGrouped (mandatory : List (Option Nat × Nat)) (members : List Avp) : Built :=
  if mandatory.all (fun m => members.any (fun a => a.code == m.2)) then
    .ok (members.flatMap Avp.dump)
  else .err (.lib "AVPAttributeValueError")

/-- the AVP object a dictionary class builds around constructed data -/
def instantiate (e : Entry) (data : Bytes) : Avp := { code := e.code, flags := e.flags, vendor := e.vendor, data := data }

end BV.Dict

namespace BV.Spec
open BV BV.Dict
/-- RFC 6733 §4.2/§4.3 data encoding of an in-domain value of each basic / derived type
    (`none` = the value is not in the type's domain) -/
def dataOf (k : Kind) (values : List Nat) : PyVal → Option Bytes
  | v =>
  match k, v with
  | .octetString, .bytes b | .utf8String, .bytes b | .diameterIdentity, .bytes b | .eapPayload, .bytes b
  | .sessionId, .bytes b | .tbcd, .bytes b => some b
  | .octetString, .str s | .utf8String, .str s | .diameterIdentity, .str s => some (utf8 s)
  | .integer32, .bytes b => if b.length = 4 then some b else none
  | .diameterURI, .bytes b => if Uri.acceptsBytes b == some true then some b else none
  | .diameterURI, .str s => if Uri.accepts (s.map Char.ofNat) then some (utf8 s) else none
  | .unsigned32, .int n => if 0 ≤ n ∧ n < 2 ^ 32 then some (be 4 n.toNat) else none
  | .unsigned32, .bytes b => if b.length = 4 then some b else none
  | .unsigned64, .int n => if 0 ≤ n ∧ n < 2 ^ 64 then some (be 8 n.toNat) else none
  | .unsigned64, .bytes b => if b.length = 8 then some b else none
  | .enumerated, .bytes b => if b.length = 4 ∧ values.contains (fromBE b) then some b else none
  | .address, .ip 4 p => if p.length = 4 then some (be 2 1 ++ p) else none
  | .address, .ip 6 p => if p.length = 16 then some (be 2 2 ++ p) else none
  | .address, .bytes b =>
    if (b.take 2 == be 2 1 ∧ b.length = 6) ∨ (b.take 2 == be 2 2 ∧ b.length = 18) then some b else none
  | .framedIp, .ip 4 p => if p.length = 4 then some p else none
  | .time, .datetime y m d hh mm ss =>
    let s := Ntp.seconds y m d hh mm ss
    if s < 2 ^ 32 then some (be 4 s) else none
  | .time, .bytes b => if b.length = 4 then some b else none
  | .tbcd, .int n => if 0 ≤ n then some (tbcdBytes (Nat.toDigits 10 n.toNat)) else none
  | _, _ => none
end BV.Spec
