/-! Types of the regenerated AVP dictionary table (`Gen/Dictionary.lean`). -/
namespace BV.Dict

/-- data-type kinds of `bromelia/types.py` plus the constructors that do not follow the regular
    template (recognised by the translator); `unmodelled` = a shape the translator does not know -/
inductive Kind
  | octetString | utf8String | diameterIdentity | diameterURI | integer32 | unsigned32 | unsigned64
  | enumerated | grouped | address | time | sessionId | tbcd | eapPayload | framedIp | unmodelled
deriving DecidableEq, Repr, Inhabited

/-- name of the published data type of a kind -/
def Kind.typeName : Kind → String
  | .octetString => "OctetString" | .utf8String => "UTF8String" | .diameterIdentity => "DiameterIdentity"
  | .diameterURI => "DiameterURI" | .integer32 => "Integer32" | .unsigned32 => "Unsigned32"
  | .unsigned64 => "Unsigned64" | .enumerated => "Enumerated" | .grouped => "Grouped"
  | .address => "Address" | .time => "Time" | .sessionId => "UTF8String" | .tbcd => "OctetString"
  | .eapPayload => "OctetString" | .framedIp => "Address" | .unmodelled => "?"

/-- the published type of a kind (special constructors publish the type they derive from) -/
def Kind.published : Kind → Kind
  | .sessionId => .utf8String | .tbcd => .octetString | .eapPayload => .octetString | .framedIp => .address
  | k => k

structure Entry where
  name : String
  /-- the class name read as a big-endian number (name equality on `Nat`) -/
  nameKey : Nat
  code : Nat
  vendor : Option Nat
  /-- default flag byte set by the constructor -/
  flags : Nat
  kind : Kind
  /-- Enumerated: the admissible 4-byte values, as numbers -/
  values : List Nat
  /-- Grouped: (vendor, code) of the mandatory members -/
  mandatory : List (Option Nat × Nat)
deriving DecidableEq, Repr, Inhabited

structure RefEntry where
  nameKey : Nat
  vendor : Option Nat
  code : Nat
  type : Kind
  flags : Nat
deriving DecidableEq, Repr

/-- key used by `DiameterAvpLoader`: a class without vendor is filed under Vendor-ID 0 -/
def Entry.key (e : Entry) : Nat × Nat := (e.vendor.getD 0, e.code)

/-- two rows describe the same AVP definition -/
def Entry.sameDef (a b : Entry) : Bool :=
  a.code == b.code && a.vendor == b.vendor && a.flags == b.flags && a.kind == b.kind &&
  a.values == b.values && a.mandatory == b.mandatory

/-- `loader.get_avp_class`: the table is filled in order, a later class overwrites an earlier one
    with the same key -/
def lookup (d : List Entry) (vendorKey code : Nat) : Option Entry :=
  (d.reverse.find? fun e => e.key == (vendorKey, code))

end BV.Dict
