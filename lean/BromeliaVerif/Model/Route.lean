import BromeliaVerif.Model.Decorate
/-! Request routing of the `Bromelia` application object (bromelia/bromelia.py): the route table
`application ↦ command ↦ handler` filled by the `route` decorator, and `callback_route`, which runs
the handler registered for the request's (Application-ID, command code) and sends exactly one
message: the decorated answer, or a DIAMETER_UNABLE_TO_COMPLY error answer when the handler raised
a standard exception or returned something that is not an answer. -/
namespace BV.Route
open BV BV.Decorate

/-- the route table: outer dictionary by application, inner by command code (insertion order kept) -/
abbrev Table := List (Nat × List (Nat × Nat))      -- app ↦ (cmd ↦ handler id)

/-- `d.update({k: …})` on an insertion-ordered dictionary: an existing key keeps its position -/
def upd {β : Type} (l : List (Nat × β)) (k : Nat) (f : β → β) (d : β) : List (Nat × β) :=
  if l.any (·.1 == k) then l.map (fun p => if p.1 == k then (k, f p.2) else p) else l ++ [(k, d)]

/-- `@app.route(application_id, command_code)` -/
def register (t : Table) (app cmd h : Nat) : Table :=
  upd t app (fun inner => upd inner cmd (fun _ => h) h) [(cmd, h)]

/-- `routes[application_id][command_code]` (`none` = KeyError) -/
def dispatch (t : Table) (app cmd : Nat) : Option Nat :=
  match t.lookup app with
  | none => none
  | some inner => inner.lookup cmd

/-- what a handler does with a request -/
inductive Outcome
  | answer (a : Ans)      -- returns a DiameterAnswer
  | none                  -- returns None
  | wrongType             -- returns something that is not a DiameterAnswer
  | stdException          -- raises an `Exception`
deriving Repr, Inhabited

/-- a request as the router sees it -/
structure Request where
  app : Nat
  cmd : Nat
  hbh : Nat
  e2e : Nat
  session : Option Bytes
  originHost : Option Bytes
  originRealm : Option Bytes
deriving Repr, Inhabited

/-- the UNABLE_TO_COMPLY answer built by `create_error_answer` -/
structure ErrorAnswer where
  cmd : Nat
  app : Nat
  hbh : Nat
  e2e : Nat
  session : Bytes
  resultCode : Nat
  originHost : Bytes           -- local node
  originRealm : Bytes
  destRealm : Bytes            -- the requester's Origin-Realm
  destHost : Bytes             -- the requester's Origin-Host
deriving Repr, DecidableEq, Inhabited

inductive Sent
  | decorated (a : Ans)
  | error (e : ErrorAnswer)
deriving Repr, Inhabited

structure Local where
  host : Bytes
  realm : Bytes
deriving Repr, Inhabited

inductive Failure
  | noRoute                   -- KeyError: nothing registered for the pair
  | decorate (e : Decorate.Err)
  | requestLacksAvp           -- AttributeError in create_error_answer: request without Session-Id / Origin AVPs
deriving Repr, Inhabited

structure Result where
  ran : Option Nat            -- the handler that ran
  sent : List Sent            -- messages handed to the worker's send queue
  failure : Option Failure
deriving Repr, Inhabited

def toReq (r : Request) : Req := ⟨some r.app, some r.hbh, some r.e2e, r.session⟩

def errorAnswer (l : Local) (r : Request) : Option ErrorAnswer :=
  match r.session, r.originHost, r.originRealm with
  | some s, some oh, some orr => some ⟨r.cmd, r.app, r.hbh, r.e2e, s, 5012, l.host, l.realm, orr, oh⟩
  | _, _, _ => none

/-- `callback_route(request)` -/
def callbackRoute (t : Table) (l : Local) (behaviour : Nat → Outcome) (r : Request) : Result :=
  match dispatch t r.app r.cmd with
  | none => ⟨none, [], some .noRoute⟩
  | some h =>
    match behaviour h with
    | .answer a =>
      (match decorate a (toReq r) with
       | .ok o => ⟨some h, [.decorated o], none⟩
       | .error e => ⟨some h, [], some (.decorate e)⟩)
    | _ =>
      match errorAnswer l r with
      | some e => ⟨some h, [.error e], none⟩
      | none => ⟨some h, [], some .requestLacksAvp⟩

end BV.Route
