import BromeliaVerif.Model.Bytes
/-! `TimeType` (bromelia/types.py): `diff = data - datetime(1900,1,1)`;
`timestamp = diff.days*24*60*60 + diff.seconds`; `struct.pack(">L", timestamp)`.
The decomposition of the difference into (days, seconds) is CPython's `datetime` (trusted; the
driver recomputes it from the civil date with `Spec.Ntp` and the correspondence compares). -/
namespace BV.Time

/-- `none` = `struct.error` (timestamp does not fit 32 bits) -/
def timeData (days secs : Nat) : Option Bytes :=
  if days * 86400 + secs < 2 ^ 32 then some (be 4 (days * 86400 + secs)) else none

end BV.Time

namespace BV.Spec.Ntp
/-- proleptic Gregorian calendar, counted from 1900-01-01 -/
def isLeap (y : Nat) : Bool := (y % 4 == 0 && y % 100 != 0) || y % 400 == 0

def daysInMonth (y m : Nat) : Nat :=
  if m = 2 then (if isLeap y then 29 else 28)
  else if m = 4 ∨ m = 6 ∨ m = 9 ∨ m = 11 then 30 else 31

def yearLen (y : Nat) : Nat := if isLeap y then 366 else 365

def daysBeforeYear (y : Nat) : Nat := ((List.range (y - 1900)).map fun k => yearLen (1900 + k)).sum

def daysBeforeMonth (y m : Nat) : Nat := ((List.range (m - 1)).map fun k => daysInMonth y (k + 1)).sum

def days (y m d : Nat) : Nat := daysBeforeYear y + daysBeforeMonth y m + (d - 1)

/-- whole seconds since 1900-01-01T00:00:00 of a civil instant -/
def seconds (y m d hh mm ss : Nat) : Nat := days y m d * 86400 + hh * 3600 + mm * 60 + ss

def validDate (y m d : Nat) : Bool := 1900 ≤ y && 1 ≤ m && m ≤ 12 && 1 ≤ d && d ≤ daysInMonth y m
end BV.Spec.Ntp
