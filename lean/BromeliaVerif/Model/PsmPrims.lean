import BromeliaVerif.Model.Psm
/-! Target language of the state-machine translator (`harness/gen_psm.py`, tie (a) for C06/C07/C08).

`Gen/PsmGen.lean` is regenerated from the `ast` of `bromelia/statemachine.py` on every run: every method of
the seven state classes (`run`, the `event_*` handlers, the `set_*_state` / `has_*` / `is_set_*` helpers) and
`PeerStateMachine.get_next_state` becomes one Lean definition over the run state `PS` below, built ONLY from
the primitives of this file. A primitive stands for one call or attribute access that leaves
`statemachine.py` (queues, transport flags, the validity predicates and answer templates of `process.py`, the
association); its meaning here is the meaning the hand model `Model/Psm.lean` gives it, and it is tied to the
code by the differential correspondence of C06/C07 as before. What the translation adds: the CONTROL
structure of every state class — which condition is tested in which order, which event runs, which helper is
called with which flags, where `self.msg` is read, what is returned — is no longer transcribed by hand but
read from the source, and `Properties/C06Gen.lean` proves, for every node state, that it agrees with
`Model/Psm.lean`. -/
namespace BV.PsmT
open BV.Psm

/-- the three validity predicates of `BaseMessageProcessor` -/
inductive Pred | cex | dw | dp
deriving Repr, DecidableEq, Inhabited

/-- verdicts of the validity predicates: an arbitrary function of predicate and message … -/
abbrev Verd := Pred → PMsg → Bool

/-- … about which only this is assumed: on the message kinds a predicate is meant for, it is the verdict the
abstract message carries (`PMsg.valid`). A translated method that asks the wrong predicate gets an
unconstrained answer, so the refinement proof fails. -/
def Sound (V : Verd) : Prop :=
  ∀ m : PMsg, ((m.kind = .cer ∨ m.kind = .cea) → V .cex m = m.valid) ∧
              ((m.kind = .dwr ∨ m.kind = .dwa) → V .dw m = m.valid) ∧
              ((m.kind = .dpr ∨ m.kind = .dpa) → V .dp m = m.valid)

/-- state of one `run()` / `get_next_state()` call -/
structure PS where
  n : Node
  next : St              -- `self.next_state` of the current state object
  name : St              -- `self.name` of the current state object
  msg : Option PMsg      -- `self.msg`
  err : Bool             -- an exception other than the one handled in the source escaped (thread dies)
  stuck : Bool           -- a blocking `get()` on an empty queue
  ret : Option St        -- value returned by `get_next_state`
  ans : Option Out       -- the local variable holding a created answer
deriving Repr, Inhabited

def PS.start (n : Node) (next name : St) (msg : Option PMsg) : PS :=
  { n, next, name, msg, err := false, stuck := false, ret := none, ans := none }

/-! ### conditions -/
def isClientMode (ps : PS) : Bool := ps.n.role == .client
def isServerMode (ps : PS) : Bool := ps.n.role == .server
def recvEmpty (ps : PS) : Bool := ps.n.recvq.isEmpty
def sendEmpty (ps : PS) : Bool := ps.n.sendq.isEmpty
def stateIsActive (ps : PS) : Bool := ps.n.active
def transportStopped (ps : PS) : Bool := peerGone ps.n
def assocConnected (ps : PS) : Bool := connected ps.n
def testConnection (ps : PS) : Bool := match ps.n.tr with | some t => t.connOk | none => false
def kindIs (k : Kind) (ps : PS) : Bool := match ps.msg with | some m => m.kind == k | none => false
def verdict (V : Verd) (p : Pred) (ps : PS) : Bool := match ps.msg with | some m => V p m | none => false
/-- `self.processor.check_message(self.msg)` raises ProcessRequestException -/
def checkRaises (ps : PS) : Bool := match ps.msg with | some m => m.kind == .appReq && !m.okAddr | none => false

/-! ### statements -/
/-- a use of `self.msg` as a message object: `None` has no header -/
def needMsg (ps : PS) : PS := match ps.msg with | some _ => ps | none => { ps with err := true }
def setNext (s : St) (ps : PS) : PS := { ps with next := s }
def setName (s : St) (ps : PS) : PS := { ps with name := s }
def setStopThreads (ps : PS) : PS := { ps with n := forceStop ps.n }
def setActive (ps : PS) : PS := { ps with n := { ps.n with active := true } }
def clearMsg (ps : PS) : PS := { ps with msg := none }
/-- `self.msg = self.get_message()`: blocking `Queue.get()` under the association lock -/
def getMessage (ps : PS) : PS :=
  match ps.n.recvq with
  | [] => { ps with stuck := true }
  | m :: rest => { ps with n := { ps.n with recvq := rest }, msg := some m }
/-- `create_answer(msg=self.msg)`: the template is chosen by command code alone -/
def createAnswer (ps : PS) : Option Out :=
  match ps.msg with
  | none => none
  | some m =>
    match m.kind with
    | .cer | .cea => some (.cea m.hbh m.e2e)
    | .dwr | .dwa => some (.dwa m.hbh m.e2e)
    | .dpr | .dpa => some (.dpa m.hbh m.e2e)
    | _ => none
/-- `self.send_message(msg=x)` -/
def sendMsg (o : Option Out) (ps : PS) : PS :=
  match o with
  | some o => { ps with n := send ps.n o }
  | none => { ps with err := true }
/-- `self.send_message()` -/
def sendFlush (ps : PS) : PS := { ps with n := flush ps.n }
/-- `self.notify_postprocess_message(self.msg)` -/
def notifyApp (ps : PS) : PS :=
  match ps.msg with
  | some m => { ps with n := { ps.n with delivered := ps.n.delivered ++ [m.id] } }
  | none => ps
def trackingEvents (ps : PS) : PS := { ps with n := trackEvents ps.n }
/-- `self.is_running = False` in `get_next_state` -/
def setNotRunning (ps : PS) : PS := { ps with n := { ps.n with running := false } }
/-- `self.association.close()`: flags, `transport.close()`, `transport = None`. (The `__is_connected()` guard at its
top raises when there is no connected transport; like the hand model this is not represented: C08's scenarios cover it.) -/
def assocClose (ps : PS) : PS :=
  { ps with n := { ps.n with active := false, stopThreads := true, tr := none, released := ps.n.released + 1 } }
def returnState (s : St) (ps : PS) : PS := { ps with ret := some s, n := { ps.n with st := s } }
def raiseErr (ps : PS) : PS := { ps with err := true }

/-! ### deep embedding: the translator emits DATA (terms of `Prog`), so that "the code as it is now has the control
structure of the reviewed reference translation" is a decidable equality checked by the kernel (`Properties/C06Gen.lean`),
while the refinement proof between the reference translation and the hand model is static (`Proofs/PsmRef.lean`). -/
inductive Cond
  | flag (b : Bool)                  -- a boolean parameter of a helper, instantiated at the call site
  | isClient | isServer | recvEmpty | sendEmpty | stateIsActive | transportStopped | assocConnected | testConnection
  | kindIs (k : Kind) | verdict (p : Pred) | checkRaises
  | nextIs (s : St)                  -- `next_state == K` in get_next_state (its argument is `current_state.next_state`)
  | nameIs (s : St)                  -- `self.current_state.name == K`
  | nameIsNext                       -- `self.current_state.name == next_state`
  | nextIn (l : List St)             -- `next_state in self.states`
  | not (c : Cond) | and (a b : Cond) | or (a b : Cond)
deriving Repr, DecidableEq, Inhabited

inductive Prim
  | needMsg | setNext (s : St) | setName (s : St) | setStopThreads | setActive | clearMsg | getMessage
  | makeAnswer                       -- `x = self.processor.create_answer(msg=self.msg)`
  | sendAnswer                       -- `self.send_message(msg=x)` with that local
  | sendBase (o : Out)
  | sendStale (t : String)           -- an answer TEMPLATE sent as it stands (identifiers of whatever request it answered last): outside the model
  | sendFlush | notifyApp | trackingEvents | setNotRunning | assocClose
  | returnState (s : St) | returnNext | raiseErr
deriving Repr, DecidableEq, Inhabited

inductive Prog
  | skip | prim (p : Prim) | seq (a b : Prog) | ite (c : Cond) (a b : Prog)
deriving Repr, DecidableEq, Inhabited

def Cond.eval (V : Verd) : Cond → PS → Bool
  | .flag b, _ => b
  | .isClient, ps => _root_.BV.PsmT.isClientMode ps | .isServer, ps => _root_.BV.PsmT.isServerMode ps
  | .recvEmpty, ps => _root_.BV.PsmT.recvEmpty ps | .sendEmpty, ps => _root_.BV.PsmT.sendEmpty ps
  | .stateIsActive, ps => _root_.BV.PsmT.stateIsActive ps | .transportStopped, ps => _root_.BV.PsmT.transportStopped ps
  | .assocConnected, ps => _root_.BV.PsmT.assocConnected ps | .testConnection, ps => _root_.BV.PsmT.testConnection ps
  | .kindIs k, ps => _root_.BV.PsmT.kindIs k ps | .verdict p, ps => _root_.BV.PsmT.verdict V p ps | .checkRaises, ps => _root_.BV.PsmT.checkRaises ps
  | .nextIs s, ps => ps.next == s | .nameIs s, ps => ps.name == s | .nameIsNext, ps => ps.name == ps.next
  | .nextIn l, ps => l.contains ps.next
  | .not c, ps => !(c.eval V ps) | .and a b, ps => a.eval V ps && b.eval V ps | .or a b, ps => a.eval V ps || b.eval V ps

def Prim.exec : Prim → PS → PS
  | .needMsg, ps => _root_.BV.PsmT.needMsg ps | .setNext s, ps => _root_.BV.PsmT.setNext s ps | .setName s, ps => _root_.BV.PsmT.setName s ps
  | .setStopThreads, ps => _root_.BV.PsmT.setStopThreads ps | .setActive, ps => _root_.BV.PsmT.setActive ps | .clearMsg, ps => _root_.BV.PsmT.clearMsg ps
  | .getMessage, ps => _root_.BV.PsmT.getMessage ps
  | .makeAnswer, ps => { ps with ans := _root_.BV.PsmT.createAnswer ps }
  | .sendAnswer, ps => _root_.BV.PsmT.sendMsg ps.ans ps
  | .sendBase o, ps => _root_.BV.PsmT.sendMsg (some o) ps
  | .sendStale _, ps => _root_.BV.PsmT.raiseErr ps | .sendFlush, ps => _root_.BV.PsmT.sendFlush ps | .notifyApp, ps => _root_.BV.PsmT.notifyApp ps
  | .trackingEvents, ps => _root_.BV.PsmT.trackingEvents ps | .setNotRunning, ps => _root_.BV.PsmT.setNotRunning ps | .assocClose, ps => _root_.BV.PsmT.assocClose ps
  | .returnState s, ps => _root_.BV.PsmT.returnState s ps | .returnNext, ps => _root_.BV.PsmT.returnState ps.next ps | .raiseErr, ps => _root_.BV.PsmT.raiseErr ps

def Prog.exec (V : Verd) : Prog → PS → PS
  | .skip, ps => ps
  | .prim p, ps => p.exec ps
  | .seq a b, ps => b.exec V (a.exec V ps)
  | .ite c a b, ps => if c.eval V ps then a.exec V ps else b.exec V ps

/-- the ghost fields of the hand model are bookkeeping of the proofs, not state of the code -/
def erase (n : Node) : Node := { n with cexOk := false, answered := [] }

end BV.PsmT
