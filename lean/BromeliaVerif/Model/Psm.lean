import BromeliaVerif.Model.Process
/-! The peer state machine (`bromelia/statemachine.py`): one tick = `current_state.run()` followed by
`get_next_state(next_state)` — the body of the loop of `PeerStateMachine.__start` — for all seven
state classes and both roles, after the repairs listed in known_findings.json. Inbound messages are
abstracted to what `run()` reads: command kind, the verdict of the validity predicate
(`Model/Process.lean`), whether an application request passes the local-consumption check, and the
identifiers. Environment actions are applied between ticks. -/
namespace BV.Psm

inductive Role | client | server
deriving Repr, DecidableEq, Inhabited

inductive St | closed | waitConnAck | waitICEA | opened | waitReturns | waitConnAckElect | closing
deriving Repr, DecidableEq, Inhabited

inductive Kind | cer | cea | dwr | dwa | dpr | dpa | appReq | appAns
deriving Repr, DecidableEq, Inhabited

/-- an inbound message on the receive queue -/
structure PMsg where
  kind : Kind
  valid : Bool          -- verdict of the validity predicate (base messages)
  okAddr : Bool         -- application request addressed to this node (`process_request` does not raise)
  hbh : Nat
  e2e : Nat
  id : Nat              -- identity, for tracking delivery
deriving Repr, DecidableEq, Inhabited

/-- a message written to (or queued for) the transport -/
inductive Out
  | cer | dwr | dpr
  | cea (hbh e2e : Nat) | dwa (hbh e2e : Nat) | dpa (hbh e2e : Nat)
  | app (id : Nat)
deriving Repr, DecidableEq, Inhabited

structure Transport where
  connected : Bool      -- `transport.is_connected`
  connOk : Bool         -- what `test_connection()` returns
  peerGone : Bool       -- `transport._stop_threads` (EOF / error seen by the transport)
  idle : Bool           -- no socket events and the idle counter has reached the watchdog timeout
deriving Repr, DecidableEq, Inhabited

structure Node where
  role : Role
  st : St
  running : Bool                 -- the state-machine loop is running
  active : Bool                  -- `association.state_is_active`
  tr : Option Transport          -- `none` once `association.close()` has released it
  recvq : List PMsg
  sendq : List Out
  emitted : List Out             -- written to the transport, in order
  delivered : List Nat           -- application messages handed to the application
  stopThreads : Bool             -- `association._stop_threads`
  released : Nat                 -- how often the transport has been closed
  cexOk : Bool                   -- ghost: the current connection went through a valid capabilities exchange
  answered : List PMsg           -- ghost: valid CER/DWR/DPR consumed in a state that answers them, in order
deriving Repr, DecidableEq, Inhabited

def init (role : Role) : Node :=
  { role, st := .closed, running := true, active := false,
    tr := some { connected := role == .server, connOk := true, peerGone := false, idle := false },
    recvq := [], sendq := [], emitted := [], delivered := [], stopThreads := false, released := 0, cexOk := false,
    answered := [] }

/-- `send_message(msg)`: queue it, then flush the whole send queue to the transport -/
def send (n : Node) (o : Out) : Node := { n with emitted := n.emitted ++ n.sendq ++ [o], sendq := [] }

/-- answer a base request: the answer template gets the request's identifiers and is flushed at once -/
def answer (n : Node) (m : PMsg) (o : Out) : Node := { (send n o) with answered := n.answered ++ [m] }
def flush (n : Node) : Node := { n with emitted := n.emitted ++ n.sendq, sendq := [] }

/-- `get_next_state(next)` -/
def goto (n : Node) (cur next : St) : Node :=
  if next == .closed && cur != .closed then
    -- leaving a connection: the loop stops, the association closes its transport
    { n with st := .closed, running := false, active := false, stopThreads := true, tr := none,
             released := n.released + 1, cexOk := false }
  else { n with st := next }

def peerGone (n : Node) : Bool := match n.tr with | some t => t.peerGone | none => false
def connected (n : Node) : Bool := match n.tr with | some t => t.connected | none => false

/-- set_closed_state(force=True): the association's threads are told to stop, consumers are woken -/
def forceStop (n : Node) : Node := { n with stopThreads := true }

/-- `Closed.run()`: the node after the run and the requested next state -/
def runClosed (n : Node) : Node × St :=
  match n.role with
  | .client => (n, .waitConnAck)
  | .server =>
    match n.recvq with
    | [] => (n, .closed)
    | m :: rest =>
      let n := { n with recvq := rest }
      if m.kind == .cer && m.valid then ({ (answer n m (.cea m.hbh m.e2e)) with active := true, cexOk := true }, .opened)
      else (n, .closed)

/-- first half of `WaitConnAck.run()`: the outcome of the connection attempt -/
def connAttempt (n : Node) : Node × St :=
  match n.tr with
  | some t => if t.connected then (if t.connOk then (send n .cer, St.waitICEA) else (n, St.closed)) else (n, St.waitConnAck)
  | none => (n, St.waitConnAck)

/-- second half (same tick): a queued message; a valid CER overrides the requested next state -/
def connRecv (r1 : Node × St) : Node × St :=
  match r1.1.recvq with
  | [] => r1
  | m :: rest =>
    let n2 := { r1.1 with recvq := rest }
    if m.kind == .cer && m.valid then ({ n2 with active := true }, .waitConnAckElect) else (n2, r1.2)

/-- `WaitConnAck.run()` -/
def runWaitConnAck (n : Node) : Node × St := connRecv (connAttempt n)

/-- `WaitInitiatorCEA.run()` -/
def runWaitICEA (n : Node) : Node × St :=
  if peerGone n then (n, .closed) else
  match n.recvq with
  | [] => (n, .waitICEA)
  | m :: rest =>
    let n := { n with recvq := rest }
    if m.kind == .cea then
      (if m.valid then ({ n with active := true, cexOk := true }, .opened) else (n, .waitICEA))
    else (n, .closed)                     -- I-Rcv-Non-CEA: a CER (no election on the initiator's connection) or anything else

/-- `tracking_events()`: an idle connection queues a watchdog request -/
def trackEvents (n : Node) : Node :=
  match n.tr with
  | some t => if t.idle then { n with sendq := n.sendq ++ [.dwr], tr := some { t with idle := false } } else n
  | none => n

/-- what Open does with the message at the head of the receive queue -/
def openRecv (n : Node) (m : PMsg) : Node × St :=
  match m.kind with
  | .dwr => if m.valid then (answer n m (.dwa m.hbh m.e2e), .opened) else (n, .opened)
  | .dwa => if m.valid then (n, .opened) else (n, .closing)
  | .dpr => (forceStop (if m.valid then answer n m (.dpa m.hbh m.e2e) else n), .closed)
  | .cer => if m.valid then (answer n m (.cea m.hbh m.e2e), .opened) else (n, .opened)
  | .cea => (n, .opened)
  | .dpa => (n, .opened)                  -- an unsolicited DPA is consumed, not handed to the application
  | .appAns => ({ n with delivered := n.delivered ++ [m.id] }, .opened)
  | .appReq => if m.okAddr then ({ n with delivered := n.delivered ++ [m.id] }, .opened) else (n, .opened)

/-- `Open.run()` -/
def runOpen (n0 : Node) : Node × St :=
  let n := trackEvents n0
  if peerGone n then (n, .closed)
  else if !n.active then (send n .dpr, .closing)
  else if !n.sendq.isEmpty then (flush n, .opened)
  else
    match n.recvq with
    | [] => (n, .opened)
    | m :: rest => openRecv { n with recvq := rest } m

/-- `Closing.run()` -/
def runClosing (n : Node) : Node × St :=
  if peerGone n then (forceStop n, .closed) else
  match n.recvq with
  | [] => (n, .closing)
  | m :: rest =>
    let n := { n with recvq := rest }
    if m.kind == .dpa then (forceStop n, .closed) else (n, .closing)

def runState (n : Node) : Node × St :=
  match n.st with
  | .closed => runClosed n
  | .waitConnAck => runWaitConnAck n
  | .waitICEA => runWaitICEA n
  | .opened => runOpen n
  | .closing => runClosing n
  | .waitReturns => (n, .waitReturns)
  | .waitConnAckElect => (n, .waitConnAckElect)

/-- one iteration of the loop: `run()` of the current state followed by `get_next_state` -/
def tick (n : Node) : Node :=
  if !n.running then n else goto (runState n).1 n.st (runState n).2

/-- environment actions between ticks -/
inductive Ev
  | tick
  | inject (m : PMsg)
  | connAck | connNack
  | localStop
  | peerDisc
  | idle
  | submit (id : Nat)
  | restart                      -- `Diameter.start()` again on the same node object (when Closed and stopped)
deriving Repr, Inhabited

def updTr (n : Node) (f : Transport → Transport) : Node := { n with tr := n.tr.map f }

def apply (n : Node) : Ev → Node
  | .tick => tick n
  | .inject m => { n with recvq := n.recvq ++ [m] }
  | .connAck => updTr n fun t => { t with connected := true, connOk := true }
  | .connNack => updTr n fun t => { t with connected := true, connOk := false }
  | .localStop => { n with active := false }
  | .peerDisc => updTr n fun t => { t with peerGone := true }
  | .idle => updTr n fun t => { t with idle := true }
  | .submit id => if connected n then { n with sendq := n.sendq ++ [.app id] } else n
  | .restart =>
    if n.st == .closed && !n.running then
      { (init n.role) with emitted := n.emitted, delivered := n.delivered, released := n.released, answered := n.answered }
    else n

def run (role : Role) (evs : List Ev) : Node := evs.foldl apply (init role)

end BV.Psm
