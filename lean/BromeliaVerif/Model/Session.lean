/-! Session-Id generation (`SessionHandler`, bromelia/_internal_utils.py), after the repair listed in
known_findings.json (the per-process counter is never reset). `init` is the number of seconds since
1900-01-01 taken once when the module is imported; every generation — from `SessionIdAVP(str)`,
`AcctMultiSessionIdAVP(str)`, a typed message built from an identity, or `update_avps` re-assigning
the origin in bulk (same or different identity) — increments the counter and returns
`identity;init;counter;bromelia`. -/
namespace BV.Session

structure St where
  init : Nat
  id : Nat
deriving Repr, DecidableEq, Inhabited

structure Sid where
  identity : List Char
  high : Nat
  low : Nat
deriving Repr, DecidableEq, Inhabited

inductive Op
  | gen (identity : List Char)                          -- `get_session_id(identity)`
  | bulk (identity : List Char) (previous : List Char)  -- `get_session_id(identity, previous)` from `update_avps`
deriving Repr, Inhabited

def Op.identity : Op → List Char
  | .gen i => i
  | .bulk i _ => i

def step (s : St) (op : Op) : St × Sid :=
  let s' := { s with id := s.id + 1 }
  (s', ⟨op.identity, s'.init, s'.id⟩)

/-- all Session-Ids generated along a history -/
def run : St → List Op → List Sid
  | _, [] => []
  | s, op :: ops => (step s op).2 :: run (step s op).1 ops

/-- the text of a Session-Id -/
def render (x : Sid) : List Char :=
  x.identity ++ [';'] ++ (Nat.repr x.high).toList ++ [';'] ++ (Nat.repr x.low).toList ++ ";bromelia".toList

end BV.Session
