import BromeliaVerif.Model.Dict
import BromeliaVerif.Model.Msg
/-! Decoders: `DiameterAVP.load`, `DiameterHeader.load`, `DiameterMessage.load` (bromelia/base.py) and
the re-construction of dictionary classes from wire data (`cls(avp.data)`, bromelia/types.py).

Reader style: `readN n s` is Python's `s[i:i+n]` followed by the `len(..) != n` check (for the flag
byte: the `IndexError` that the code turns into `AVPParsingError`). All of them end in the same
error, so the observable behaviour is the same as the index-based code. -/
namespace BV.Parse
open BV BV.Dict

inductive Err
  | parsing                 -- AVPParsingError
  | lib (name : String)     -- another class of bromelia.exceptions
  | std (name : String)     -- a foreign exception (a defect for C03)
  | unmodelled              -- the model does not cover this input (reported, not compared)
deriving Repr, DecidableEq, Inhabited

/-- exact-width reader -/
def readN (n : Nat) (s : Bytes) : Option (Bytes × Bytes) :=
  if n ≤ s.length then some (s.take n, s.drop n) else none

/-- one iteration of the `while` body of `DiameterAVP.load`, before class dispatch:
    the raw AVP and the rest of the stream (padding skipped, clamped at the end) -/
def parseOne (s : Bytes) : Except Err (Avp × Bytes) :=
  match readN 4 s with
  | none => .error .parsing
  | some (code, s1) =>
  match readN 1 s1 with
  | none => .error .parsing
  | some (fl, s2) =>
  match readN 3 s2 with
  | none => .error .parsing
  | some (len, s3) =>
    let boundary := fromBE len
    let flags := fromBE fl
    if vbit flags then
      match readN 4 s3 with
      | none => .error .parsing
      | some (vend, s4) =>
        if boundary < 12 then .error .parsing else
        match readN (boundary - 12) s4 with
        | none => .error .parsing
        | some (data, s5) =>
          .ok ({ code := fromBE code, flags, vendor := some (fromBE vend), data }, s5.drop (padLen boundary))
    else
      if boundary < 8 then .error .parsing else
      match readN (boundary - 8) s3 with
      | none => .error .parsing
      | some (data, s5) =>
        .ok ({ code := fromBE code, flags, vendor := none, data }, s5.drop (padLen boundary))

theorem readN_some {n : Nat} {s a r : Bytes} (h : readN n s = some (a, r)) :
    a.length = n ∧ r.length + n = s.length := by
  unfold readN at h
  split at h
  · simp only [Option.some.injEq, Prod.mk.injEq] at h
    obtain ⟨rfl, rfl⟩ := h
    simp [List.length_take, List.length_drop]; omega
  · cases h

/-- progress and size facts of one successful iteration: at least 8 bytes are consumed, the data and
    the rest are disjoint parts of the input -/
theorem parseOne_ok {s : Bytes} {a : Avp} {rest : Bytes} (h : parseOne s = .ok (a, rest)) :
    rest.length + 8 ≤ s.length ∧ a.data.length + 8 ≤ s.length ∧ rest.length + a.data.length + 8 ≤ s.length := by
  unfold parseOne at h
  split at h; · cases h
  rename_i code s1 h1
  split at h; · cases h
  rename_i fl s2 h2
  split at h; · cases h
  rename_i len s3 h3
  have e1 := readN_some h1; have e2 := readN_some h2; have e3 := readN_some h3
  simp only at h
  split at h
  · split at h; · cases h
    rename_i vend s4 h4
    have e4 := readN_some h4
    split at h; · cases h
    split at h; · cases h
    rename_i data s5 h5
    have e5 := readN_some h5
    simp only [Except.ok.injEq, Prod.mk.injEq] at h
    obtain ⟨rfl, rfl⟩ := h
    simp only [List.length_drop]; omega
  · split at h; · cases h
    split at h; · cases h
    rename_i data s5 h5
    have e5 := readN_some h5
    simp only [Except.ok.injEq, Prod.mk.injEq] at h
    obtain ⟨rfl, rfl⟩ := h
    simp only [List.length_drop]; omega

/-- a decoded AVP as the application sees it: the object state, the dictionary class it was
    materialised as (`none` = generic `DiameterAVP`), and — for Grouped classes — its members -/
inductive LAvp where
  | mk (avp : Avp) (cls : Option String) (kids : List LAvp)
deriving Repr, Inhabited

def LAvp.avp : LAvp → Avp | .mk a _ _ => a
def LAvp.cls : LAvp → Option String | .mk _ c _ => c
def LAvp.kids : LAvp → List LAvp | .mk _ _ k => k

/-- `cls(data)` for the non-Grouped kinds: does the constructor accept these wire bytes? -/
def acceptLeaf (k : Kind) (values : List Nat) (d : Bytes) : Except Err Unit :=
  match k with
  | .octetString | .utf8String | .diameterIdentity | .sessionId | .tbcd | .eapPayload | .framedIp => .ok ()
  | .integer32 | .unsigned32 | .time => if d.length = 4 then .ok () else .error (.lib "DataTypeError")
  | .unsigned64 => if d.length = 8 then .ok () else .error (.lib "DataTypeError")
  | .enumerated => if d.length = 4 ∧ values.contains (fromBE d) then .ok () else .error (.lib "AVPAttributeValueError")
  | .address => if Address.fromBytesOk d then .ok () else .error (.lib "DataTypeError")
  | .diameterURI => if Uri.acceptsBytes d == some true then .ok () else .error (.lib "DataTypeError")
  | .grouped => .error .unmodelled
  | .unmodelled => .error .unmodelled

/-- dispatch rule of `DiameterAVP.load` (after the vendor-presence repair): the class filed under
    (Vendor-ID or 0, code), provided the class has a vendor exactly when the wire AVP has one -/
def dispatch (dict : List Entry) (raw : Avp) : Option Entry :=
  match lookup dict (raw.vendor.getD 0) raw.code with
  | some e => if e.vendor.isSome == raw.vendor.isSome then some e else none
  | none => none

/-- re-construction of one raw AVP by its dictionary class (`cls(avp.data)`); `kids ()` is the result
    of re-parsing the data, consulted for Grouped classes only -/
def materialise (dict : List Entry) (raw : Avp) (kids : Unit → Except Err (List LAvp)) : Except Err LAvp :=
  match dispatch dict raw with
  | none => .ok (.mk raw none [])
  | some e =>
    if e.kind = .grouped then
      match kids () with
      | .error er => .error er
      | .ok ks =>
        if e.mandatory.all (fun m => ks.any (fun k => k.avp.code == m.2)) then
          .ok (.mk { code := e.code, flags := e.flags, vendor := e.vendor,
                     data := ks.flatMap (fun k => k.avp.dump) } (some e.name) ks)
        else .error (.lib "AVPAttributeValueError")
    else
      match acceptLeaf e.kind e.values raw.data with
      | .error er => .error er
      | .ok () => .ok (.mk { code := e.code, flags := e.flags, vendor := e.vendor, data := raw.data } (some e.name) [])

/-- `DiameterAVP.load`: parse, dispatch and re-construct AVP by AVP, in stream order (so the first
    failing AVP determines the error); a Grouped class re-parses its data and *rebuilds* it from the
    re-dumped members. Well-founded on the length of the stream: every iteration consumes at least 8
    bytes (`parseOne_ok`), and the data of an AVP is shorter than the stream it came from. -/
def loadAvps (dict : List Entry) (s : Bytes) : Except Err (List LAvp) :=
  if h0 : s = [] then .ok [] else
  match h : parseOne s with
  | .error e => .error e
  | .ok (raw, rest) =>
    match materialise dict raw (fun _ => loadAvps dict raw.data) with
    | .error er => .error er
    | .ok a =>
      match loadAvps dict rest with
      | .error er => .error er
      | .ok more => .ok (a :: more)
termination_by s.length
decreasing_by
  all_goals
    have := parseOne_ok h
    have : 0 < s.length := List.length_pos_iff.mpr h0
    omega

/-- `DiameterHeader.load` on exactly 20 bytes -/
def parseHeader (s : Bytes) : Header :=
  { version := fromBE (s.take 1), length := fromBE ((s.drop 1).take 3), flags := fromBE ((s.drop 4).take 1),
    cmd := some (fromBE ((s.drop 5).take 3)), app := some (fromBE ((s.drop 8).take 4)),
    hbh := some (fromBE ((s.drop 12).take 4)), e2e := some (fromBE ((s.drop 16).take 4)) }

structure LMsg where
  hdr : Header
  avps : List LAvp
deriving Repr, Inhabited

/-- `DiameterMessage.load` (after the length-guard repair): split by the Message Length field, which
    must be at least 20; each iteration consumes ≥ 20 bytes, so the loop terminates -/
def loadMsgs (dict : List Entry) (s : Bytes) : Except Err (List LMsg) :=
  if h0 : s = [] then .ok [] else
  if s.length < 20 then .error .parsing else
  let hdr := parseHeader (s.take 20)
  if hlen : hdr.length < 20 then .error .parsing else
  match loadAvps dict ((s.take hdr.length).drop 20) with
  | .error e => .error e
  | .ok avps =>
    match loadMsgs dict (s.drop hdr.length) with
    | .error e => .error e
    | .ok more => .ok ({ hdr, avps } :: more)
termination_by s.length
decreasing_by
  have : 0 < s.length := List.length_pos_iff.mpr h0
  have h20 : 20 ≤ (parseHeader (s.take 20)).length := Nat.le_of_not_lt hlen
  simp only [List.length_drop]; omega

/-- re-serialisation of a decoded message: the header as decoded (`loaded=True` keeps the wire
    length) followed by the dumps of the materialised AVPs -/
def LMsg.dump (m : LMsg) : Bytes := m.hdr.dump ++ m.avps.flatMap (fun a => a.avp.dump)

end BV.Parse
