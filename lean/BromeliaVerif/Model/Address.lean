import BromeliaVerif.Model.Bytes
/-! `AddressType` (bromelia/types.py): data = 2-byte address family ++ packed address; the accessors
`is_ipv4 / is_ipv6 / get_ip_address` look at `data[2:]` only and decide by its width
(`ipaddress.ip_address(bytes)`: 4 bytes ↦ IPv4, 16 bytes ↦ IPv6, anything else ↦ ValueError).
Text ↔ packed conversion is CPython's `ipaddress` (trusted; cross-checked for IPv4 by `Ipv4.parse`). -/
namespace BV.Address

inductive Fam | v4 | v6
deriving DecidableEq, Repr

def famCode : Fam → Bytes
  | .v4 => [0, 1]
  | .v6 => [0, 2]

def width : Fam → Nat
  | .v4 => 4
  | .v6 => 16

/-- data of an Address AVP built from a literal that `ipaddress` parsed as (family, packed) -/
def mk (f : Fam) (packed : Bytes) : Bytes := famCode f ++ packed

/-- family reported by the accessors; `none` = `ValueError` -/
def famOf (data : Bytes) : Option Fam :=
  if (data.drop 2).length = 4 then some .v4
  else if (data.drop 2).length = 16 then some .v6 else none

def packedOf (data : Bytes) : Bytes := data.drop 2

/-- construction from wire bytes (after the C10 repair): family 1 / 2 with the right width, anything
    else is rejected with the library's DataTypeError -/
def fromBytesOk (data : Bytes) : Bool :=
  (data.take 2 == [0, 1] && (data.drop 2).length == 4) ||
  (data.take 2 == [0, 2] && (data.drop 2).length == 16)

end BV.Address
