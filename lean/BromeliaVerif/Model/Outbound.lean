import BromeliaVerif.Model.Bytes
/-! Outbound pipeline (`DiameterAssociation.put_message_into_send_queue` / `send_message_from_queue`,
`TcpConnection._set_selector_events_mask` / `_run` / `write` / `_write`), after the repairs listed in
known_findings.json: the serialised stream is handed to the transport by appending it to a pending
buffer under the transport lock (not through the selector registration), a read event does not touch
pending output, and a message that does not fit the current batch stays at the head of the queue.

A message is its serialised bytes plus who submitted it. -/
namespace BV.Outbound

structure OMsg where
  thr : Nat            -- submitting thread (the state machine's own base messages: its own number)
  bytes : Bytes
deriving Repr, DecidableEq, Inhabited

structure St where
  accepted : List OMsg     -- ghost: every message accepted by `put_message_into_send_queue`, in order
  sendq : List OMsg        -- `_send_messages`
  pending : Bytes          -- handed to the transport, not yet in the send buffer
  sendbuf : Bytes          -- `_send_buffer`
  written : Bytes          -- what `sock.send` has accepted so far
  connected : Bool
deriving Repr, Inhabited

def init : St := { accepted := [], sendq := [], pending := [], sendbuf := [], written := [], connected := true }

def flat (ms : List OMsg) : Bytes := (ms.map (·.bytes)).flatten

/-- the batch taken by one `send_message_from_queue`: messages from the head of the queue while they
    fit in what is left of the limit; the first message is always taken -/
def takeBatch (limit : Nat) : (used : Nat) → List OMsg → List OMsg × List OMsg
  | _, [] => ([], [])
  | used, m :: rest =>
    if used = 0 ∨ m.bytes.length ≤ limit - used then
      let r := takeBatch limit (used + m.bytes.length) rest
      (m :: r.1, r.2)
    else ([], m :: rest)

inductive Act
  | submit (m : OMsg)          -- an application thread (or the state machine) queues a message
  | flush (limit : Nat)        -- state-machine thread: drain a batch and hand it to the transport
  | transfer                   -- transport thread, write event: pending output moves to the send buffer
  | write (n : Nat)            -- `sock.send` accepts n bytes (partial write when n < buffer size)
  | readEvent                  -- inbound data handled by the transport thread
  | disconnect
deriving Repr, Inhabited

def step (s : St) : Act → St
  | .submit m => if s.connected then { s with accepted := s.accepted ++ [m], sendq := s.sendq ++ [m] } else s
  | .flush limit =>
    let b := takeBatch limit 0 s.sendq
    { s with sendq := b.2, pending := s.pending ++ flat b.1 }
  | .transfer => { s with sendbuf := s.sendbuf ++ s.pending, pending := [] }
  | .write n => { s with written := s.written ++ s.sendbuf.take n, sendbuf := s.sendbuf.drop n }
  | .readEvent => s
  | .disconnect => { s with connected := false }

def run (as : List Act) : St := as.foldl step init

/-! ### write interest (`EVENT_WRITE` in the selector registration of the connection's socket)
`_set_selector_events_mask("rw", stream)` arms it when a batch is handed over; `write()` asks for `"r"` once the send
buffer is empty and `read()` always does, and the guard of `__set_selector_events_mask` turns `"r"` into `"rw"` while
the hand-over buffer or the send buffer holds bytes. Tracked next to the pipeline state. -/
def armedAfter (armed : Bool) (s : St) : Act → Bool
  | .flush limit => armed || !(takeBatch limit 0 s.sendq).1.isEmpty
  | .write n => if (s.sendbuf.drop n).isEmpty then !s.pending.isEmpty else armed
  | .readEvent => !s.pending.isEmpty || !s.sendbuf.isEmpty
  | _ => armed

def step2 (sa : St × Bool) (a : Act) : St × Bool := (step sa.1 a, armedAfter sa.2 sa.1 a)
def run2 (as : List Act) : St × Bool := as.foldl step2 (init, false)

end BV.Outbound
