import BromeliaVerif.Model.Bytes
/-! Result-code family predicates (bromelia/utils.py), hand model.

`fam k n` is the integer predicate `is_result_code_family_<k>xxx`; `objPred` is the answer-object
predicate `is_<k>xxx_*`: `none` when the answer has no Result-Code AVP, otherwise the integer
predicate applied to the big-endian value of the AVP's data. -/
namespace BV.ResultCode

/-- `k*1000 + 1 ≤ n < (k+1)*1000`, as the five functions are written -/
def fam (k n : Nat) : Bool := decide (k * 1000 + 1 ≤ n) && decide (n < (k + 1) * 1000)

/-- answer-object predicate: Result-Code data (if the AVP is present) ↦ Python's `None` / bool -/
def objPred (k : Nat) (rc : Option Bytes) : Option Bool :=
  rc.map fun d => fam k (fromBE d)

end BV.ResultCode

namespace BV.Spec
/-- the numeric family of the property statement -/
def inFamily (k n : Nat) : Prop := n / 1000 = k ∧ n % 1000 ≠ 0
instance (k n : Nat) : Decidable (inFamily k n) := by unfold inFamily; infer_instance
end BV.Spec
