/-! Types of the regenerated typed-command table (`Gen/Commands.lean`). -/
namespace BV.Command

structure Row where
  name : String
  nameKey : Nat
  /-- the constructor has the regular shape (`Diameter{Request,Answer}.__init__(command_code=…, application_id=…)`
      followed by `_load(self, locals())`, optionally preceded by the `if not <param>: raise` guard) -/
  modelled : Bool
  isRequest : Bool
  cmd : Nat
  /-- fixed Application-ID (`none`: not fixed by the class) -/
  app : Option Nat
  /-- the Application-ID is the value of this constructor parameter -/
  appParam : Option String
  needsAppParam : Bool
  /-- constructor parameters in declaration order (without `self`, `**kwargs`) -/
  params : List String
  /-- parameters whose default is `None` -/
  defaultNone : List String
  /-- key ↦ dictionary class (by `Entry.nameKey`) -/
  mandatory : List (String × Nat)
  optionals : List (String × Nat)
  /-- index of the request/answer partner class in the table -/
  partner : Option Nat
deriving Repr, Inhabited, DecidableEq

structure RefRow where
  nameKey : Nat
  isRequest : Bool
  cmd : Nat
  app : Option Nat
  appParam : Option String
  mandatoryKeys : List String
  /-- key ↦ (Vendor-ID or 0, AVP code) of the AVP that argument is to be carried by -/
  keyAvps : List (String × Nat × Nat)
deriving Repr, DecidableEq

end BV.Command
