import BromeliaVerif.Model.Bytes
/-! TBCD digit-string codec (`bromelia/utils.py: encode_to_tbcd / decode_from_tbcd`) and the data of
`MsisdnAVP` / `StnSrAVP` built from a number. Strings are `List Char`.

Modelled: the two `while` loops on strings that contain no special characters (`* # a b c` take the
`transform_bits` path of the code, which is outside the property and not modelled). -/
namespace BV.Tbcd

/-- `encode_to_tbcd`: swap each pair; a trailing single digit gets the filler in front. -/
def enc : List Char → List Char
  | a :: b :: rest => b :: a :: enc rest
  | [a] => ['f', a]
  | [] => []

/-- `decode_from_tbcd`; `none` = the `IndexError` of `bits[1]` on a lone `f`. -/
def dec : List Char → Option (List Char)
  | a :: b :: rest =>
    if a == 'f' || b == 'f' then some [b]
    else (dec rest).map fun r => b :: a :: r
  | [a] => if a == 'f' then none else some [a]
  | [] => some []

/-- value of one hexadecimal character as `bytes.fromhex` reads it (digits and `f` are all we need) -/
def nib (c : Char) : Nat :=
  if '0' ≤ c ∧ c ≤ '9' then c.toNat - '0'.toNat
  else if 'a' ≤ c ∧ c ≤ 'f' then c.toNat - 'a'.toNat + 10 else 0

/-- `bytes.fromhex` on an even-length hex string -/
def fromHex : List Char → Bytes
  | a :: b :: rest => UInt8.ofNat (nib a * 16 + nib b) :: fromHex rest
  | _ => []

/-- data of `MsisdnAVP(n)` / `StnSrAVP(n)` for an `int` n ≥ 0: `bytes.fromhex(encode_to_tbcd(str(n)))` -/
def avpData (n : Nat) : Bytes := fromHex (enc (Nat.toDigits 10 n))

end BV.Tbcd

namespace BV.Spec
/-- 3GPP TBCD octet i of a digit string: low nibble = digit 2i, high nibble = digit 2i+1, or the
    filler 0xF when the string ends (TS 29.002 TBCD-STRING). -/
def tbcdOctet (ds : List Char) (i : Nat) : Nat :=
  (match ds[2 * i + 1]? with | some d => BV.Tbcd.nib d | none => 15) * 16 + BV.Tbcd.nib (ds.getD (2 * i) '0')

def tbcdBytes (ds : List Char) : Bytes :=
  (List.range ((ds.length + 1) / 2)).map fun i => UInt8.ofNat (tbcdOctet ds i)
end BV.Spec
