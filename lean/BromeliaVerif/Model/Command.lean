import BromeliaVerif.Model.CommandTypes
import BromeliaVerif.Model.Dict
import BromeliaVerif.Model.Msg
/-! Typed command classes (`bromelia/lib/*/messages.py`): every constructor is
`Diameter{Request,Answer}.__init__(self, command_code=…, application_id=…)` followed by
`DiameterMessage._load(self, locals())`. `_load` walks the constructor's locals in declaration order
(keyword extras appended) and for each (name, value):
mandatory ∧ None → DiameterMessageError; mandatory/optional ∧ value → `cls(value)` appended;
neither ∧ value → must be a DiameterAVP object, appended as is; None otherwise skipped. -/
namespace BV.Command
open BV BV.Dict

/-- a value given for a constructor argument -/
inductive ArgVal
  | py (v : PyVal)                 -- a plain Python value handed to the AVP class
  | avpList (ms : List Avp)        -- a list of AVP objects (for Grouped classes)
  | avpObj (a : Avp)               -- a DiameterAVP object (extra keyword AVPs)
deriving Repr, Inhabited

structure Arg where
  key : String
  val : Option ArgVal               -- `none` = Python `None`
deriving Repr, Inhabited

inductive LoadErr
  | missingMandatory (key : String) -- DiameterMessageError
  | notAnAvp (key : String)         -- DiameterMessageError
  | avp (e : PyErr)                 -- raised by the AVP class constructor
  | unmodelled
deriving Repr, Inhabited

/-- `cls(value)` for the dictionary class with the given name key -/
def buildArg (dict : List Entry) (clsKey : Nat) (v : ArgVal) : Except LoadErr Avp :=
  match dict.find? (·.nameKey == clsKey) with
  | none => .error .unmodelled
  | some e =>
    match v with
    | .py pv =>
      if e.kind = .grouped then
        (match pv with
         | .bytes _ => .error .unmodelled      -- Grouped from wire bytes: see Model/Parse.lean
         | _ => .error (.avp (.lib "DataTypeError")))
      else
        match construct e.kind e.values pv with
        | .ok d => .ok (instantiate e d)
        | .err er => .error (.avp er)
        | .unmodelled => .error .unmodelled
    | .avpList ms =>
      if e.kind = .grouped then
        match constructGrouped e.mandatory ms with
        | .ok d => .ok (instantiate e d)
        | .err er => .error (.avp er)
        | .unmodelled => .error .unmodelled
      else .error .unmodelled
    | .avpObj _ => .error .unmodelled

/-- one step of the `_load` loop: the AVP appended for this argument, if any -/
def loadOne (dict : List Entry) (row : Row) (a : Arg) : Except LoadErr (Option Avp) :=
  match row.mandatory.lookup a.key with
  | some c =>
    (match a.val with
     | none => .error (.missingMandatory a.key)
     | some v => (buildArg dict c v).map some)
  | none =>
    match row.optionals.lookup a.key, a.val with
    | some c, some v => (buildArg dict c v).map some
    | some _, none => .ok none
    | none, some (.avpObj x) => .ok (some x)
    | none, some _ => .error (.notAnAvp a.key)
    | none, none => .ok none

/-- the `_load` loop: arguments in the order of `locals()`; the first failing one raises -/
def loadArgs (dict : List Entry) (row : Row) : List Arg → Except LoadErr (List Avp)
  | [] => .ok []
  | a :: rest =>
    match loadOne dict row a with
    | .error e => .error e
    | .ok r =>
      match loadArgs dict row rest with
      | .error e => .error e
      | .ok more => .ok (match r with | some x => x :: more | none => more)

/-- command flags set by the constructor: R from the class kind, P unless the Application-ID is the
    4-byte value 0 (`set_flag_by_app_id`; `None` is "not the default application") -/
def flagsOf (isRequest : Bool) (app : Option Nat) : Nat :=
  (if isRequest then 0x80 else 0) + (if app = some 0 then 0 else 0x40)

/-- the header built by the constructor (Message Length still 20) -/
def headerOf (row : Row) (app : Option Nat) (hbh e2e : Nat) : Header :=
  { version := 1, length := 20, flags := flagsOf row.isRequest app, cmd := some row.cmd, app := app,
    hbh := some hbh, e2e := some e2e }

/-- the built message: header, then one `append` per loaded AVP -/
def buildMsg (dict : List Entry) (row : Row) (app : Option Nat) (hbh e2e : Nat) (args : List Arg) : Except LoadErr Msg :=
  (loadArgs dict row args).map fun as => as.foldl Msg.append (Msg.new (headerOf row app hbh e2e))

end BV.Command
