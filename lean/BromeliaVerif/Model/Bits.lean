import BromeliaVerif.Model.Bytes
/-! `Unsigned32Type.is_bit_set / set_bit / unset_bit` (bromelia/types.py), hand model.
`d k` is `self.data[k]` (k = 0 is the most significant byte of the big-endian word). -/
namespace BV.Bits

/-- the big-endian word carried by four data bytes -/
def word (d : Nat → Nat) : Nat := d 0 * 2 ^ 24 + d 1 * 2 ^ 16 + d 2 * 2 ^ 8 + d 3

/-- byte k (0 = most significant) of a 32-bit word, as Python sees `data[k]` -/
def byteOf (w : Nat) (k : Nat) : Nat := w / 2 ^ (8 * (3 - k)) % 256

/-- `is_bit_set` over a byte accessor; `none` = `DiameterTypeError("Bit index out of range")` -/
def isBitSetD (d : Nat → Nat) (b : Nat) : Option Bool :=
  if b < 8 then some (d 3 &&& 2 ^ b != 0)
  else if b < 16 then some (d 2 &&& 2 ^ (b % 8) != 0)
  else if b < 24 then some (d 1 &&& 2 ^ (b % 8) != 0)
  else if b < 32 then some (d 0 &&& 2 ^ (b % 8) != 0)
  else none

/-- replace byte `k` of the accessor -/
def upd (d : Nat → Nat) (k v : Nat) : Nat → Nat := fun i => if i = k then v else d i

/-- `set_bit`: `none` = `DiameterTypeError` (already set, or index out of range); otherwise the new
    data bytes: the byte holding the bit is rewritten with `| 2 ** (bit % 8)` -/
def setBitD (d : Nat → Nat) (b : Nat) : Option (Nat → Nat) :=
  match isBitSetD d b with
  | none => none
  | some true => none
  | some false => some (upd d (3 - b / 8) (d (3 - b / 8) ||| 2 ^ (b % 8)))

/-- `unset_bit`: same with `^ 2 ** (bit % 8)`; `none` when the bit is already clear / out of range -/
def unsetBitD (d : Nat → Nat) (b : Nat) : Option (Nat → Nat) :=
  match isBitSetD d b with
  | none => none
  | some false => none
  | some true => some (upd d (3 - b / 8) (d (3 - b / 8) ^^^ 2 ^ (b % 8)))

/-- the byte accessor of four given data bytes -/
def acc4 (d0 d1 d2 d3 : Nat) : Nat → Nat := fun k => if k = 0 then d0 else if k = 1 then d1 else if k = 2 then d2 else d3

/-- word-level wrappers used by the driver -/
def isBitSet (w b : Nat) : Option Bool := isBitSetD (byteOf w) b
def setBit (w b : Nat) : Option Nat := (setBitD (byteOf w) b).map word
def unsetBit (w b : Nat) : Option Nat := (unsetBitD (byteOf w) b).map word

end BV.Bits
