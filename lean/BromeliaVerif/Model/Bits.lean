import BromeliaVerif.Model.Bytes
/-! `Unsigned32Type.is_bit_set / set_bit / unset_bit` (bromelia/types.py), hand model.
The four data bytes are the big-endian image of a word `w < 2^32`; `d k` is `self.data[k]`. -/
namespace BV.Bits

/-- byte k (0 = most significant) of a 32-bit word, as Python sees `data[k]` -/
def byteOf (w : Nat) (k : Nat) : Nat := w / 2 ^ (8 * (3 - k)) % 256

/-- `is_bit_set` over a byte accessor; `none` = `DiameterTypeError("Bit index out of range")` -/
def isBitSetD (d : Nat → Nat) (b : Nat) : Option Bool :=
  if b < 8 then some (d 3 &&& 2 ^ b != 0)
  else if b < 16 then some (d 2 &&& 2 ^ (b % 8) != 0)
  else if b < 24 then some (d 1 &&& 2 ^ (b % 8) != 0)
  else if b < 32 then some (d 0 &&& 2 ^ (b % 8) != 0)
  else none

def isBitSet (w b : Nat) : Option Bool := isBitSetD (byteOf w) b

/-- result of `set_bit` / `unset_bit`: the new word, or `none` = `DiameterTypeError`.
    The code rewrites one data byte with `| 2**(bit%8)` resp. `^ 2**(bit%8)`. -/
def setBit (w b : Nat) : Option Nat :=
  match isBitSet w b with
  | none => none
  | some true => none
  | some false => some (w ||| 2 ^ b)

def unsetBit (w b : Nat) : Option Nat :=
  match isBitSet w b with
  | none => none
  | some false => none
  | some true => some (w ^^^ 2 ^ b)

/-- byte-level version of what the code does: replace byte `3 - b/8` by `f (old byte) (2^(b%8))` -/
def updByte (f : Nat → Nat → Nat) (w b : Nat) : Nat :=
  let k := 3 - b / 8
  let nb := f (byteOf w k) (2 ^ (b % 8))
  w - byteOf w k * 2 ^ (8 * (3 - k)) + nb * 2 ^ (8 * (3 - k))

def setBitBytes (w b : Nat) : Option Nat :=
  match isBitSet w b with
  | none => none
  | some true => none
  | some false => some (updByte (· ||| ·) w b)

def unsetBitBytes (w b : Nat) : Option Nat :=
  match isBitSet w b with
  | none => none
  | some false => none
  | some true => some (updByte (· ^^^ ·) w b)

end BV.Bits
