import BromeliaVerif.Model.Dict
import BromeliaVerif.Proofs.Tbcd
namespace BV.Dict
open BV BV.Spec

/-- the value's RFC encoding, with Python's `bool` counted as the integers 0 / 1 -/
def dataOf' (k : Kind) (vs : List Nat) : PyVal → Option Bytes
  | .bool b => if k = .unsigned32 ∨ k = .unsigned64 then dataOf k vs (.int (if b then 1 else 0)) else none
  | v => dataOf k vs v

theorem address_mk_v4 (p : Bytes) : Address.mk .v4 p = be 2 1 ++ p := by simp [Address.mk, Address.famCode, be]
theorem address_mk_v6 (p : Bytes) : Address.mk .v6 p = be 2 2 ++ p := by simp [Address.mk, Address.famCode, be]

set_option maxRecDepth 2000 in
theorem construct_sound_string (vs : List Nat) (v : PyVal) (d : Bytes) :
    (construct .octetString vs v = .ok d → dataOf' .octetString vs v = some d) ∧
    (construct .utf8String vs v = .ok d → dataOf' .utf8String vs v = some d) ∧
    (construct .diameterIdentity vs v = .ok d → dataOf' .diameterIdentity vs v = some d) := by
  refine ⟨?_, ?_, ?_⟩ <;> intro h <;> cases v <;> simp_all [construct, dataOf', dataOf]

set_option maxRecDepth 2000 in
theorem construct_sound_bytes (vs : List Nat) (v : PyVal) (d : Bytes) :
    (construct .eapPayload vs v = .ok d → dataOf' .eapPayload vs v = some d) ∧
    (construct .sessionId vs v = .ok d → dataOf' .sessionId vs v = some d) ∧
    (construct .integer32 vs v = .ok d → dataOf' .integer32 vs v = some d) ∧
    (construct .enumerated vs v = .ok d → dataOf' .enumerated vs v = some d) := by
  refine ⟨?_, ?_, ?_, ?_⟩ <;> intro h <;> cases v <;> simp_all [construct, dataOf', dataOf] <;>
    (try (split at h <;> simp_all))

set_option maxRecDepth 2000 in
theorem construct_sound_uint (vs : List Nat) (v : PyVal) (d : Bytes) :
    (construct .unsigned32 vs v = .ok d → dataOf' .unsigned32 vs v = some d) ∧
    (construct .unsigned64 vs v = .ok d → dataOf' .unsigned64 vs v = some d) := by
  refine ⟨?_, ?_⟩ <;> intro h <;> cases v <;> simp_all [construct, dataOf', dataOf] <;>
    (try (split at h <;> simp_all)) <;> (try (split <;> simp_all))

theorem fromBytesOk_iff (b : Bytes) (h : Address.fromBytesOk b = true) :
    (b.take 2 == be 2 1 ∧ b.length = 6) ∨ (b.take 2 == be 2 2 ∧ b.length = 18) := by
  unfold Address.fromBytesOk at h
  simp only [Bool.or_eq_true, Bool.and_eq_true, beq_iff_eq, List.length_drop] at h
  have e1 : be 2 1 = [0, 1] := by decide
  have e2 : be 2 2 = [0, 2] := by decide
  rcases h with ⟨a, c⟩ | ⟨a, c⟩
  · left; rw [e1]; refine ⟨by simpa using a, ?_⟩
    have : 2 ≤ b.length := by
      have := congrArg List.length a; simp at this; omega
    omega
  · right; rw [e2]; refine ⟨by simpa using a, ?_⟩
    have : 2 ≤ b.length := by
      have := congrArg List.length a; simp at this; omega
    omega

/-- what the harness / CPython guarantee about structured values: an address literal parsed by
    `ipaddress` is IPv4 with 4 packed bytes or IPv6 with 16 -/
def PyVal.valid : PyVal → Prop
  | .ip f p => (f = 4 ∧ p.length = 4) ∨ (f = 6 ∧ p.length = 16)
  | _ => True

set_option maxRecDepth 4000 in
theorem construct_sound_address (vs : List Nat) (v : PyVal) (d : Bytes) (hv : v.valid)
    (h : construct .address vs v = .ok d) : dataOf' .address vs v = some d := by
  cases v with
  | ip f p =>
    simp only [PyVal.valid] at hv
    rcases hv with ⟨rfl, hp⟩ | ⟨rfl, hp⟩
    · simp only [construct] at h; cases h
      simp [dataOf', dataOf, hp, address_mk_v4]
    · simp only [construct] at h; cases h
      simp [dataOf', dataOf, hp, address_mk_v6]
  | bytes b =>
    simp only [construct] at h
    split at h
    · rename_i hok
      cases h
      have := fromBytesOk_iff _ hok
      simp only [dataOf', dataOf]
      rcases this with ⟨a, c⟩ | ⟨a, c⟩
      · simp [a, c]
      · simp [a, c]
    · cases h
  | _ => simp_all [construct]

set_option maxRecDepth 4000 in
theorem construct_sound_framedIp (vs : List Nat) (v : PyVal) (d : Bytes) (hv : v.valid)
    (h : construct .framedIp vs v = .ok d) : dataOf' .framedIp vs v = some d := by
  cases v with
  | ip f p =>
    simp only [PyVal.valid] at hv
    rcases hv with ⟨rfl, hp⟩ | ⟨rfl, hp⟩
    · simp only [construct] at h; cases h; simp [dataOf', dataOf, hp]
    · simp [construct] at h
  | _ => simp_all [construct]

set_option maxRecDepth 4000 in
theorem construct_sound_time (vs : List Nat) (v : PyVal) (d : Bytes)
    (h : construct .time vs v = .ok d) : dataOf' .time vs v = some d := by
  cases v with
  | datetime y m dd hh mm ss =>
    simp only [construct, Time.timeData] at h
    have e : Ntp.seconds y m dd hh mm ss = Ntp.days y m dd * 86400 + (hh * 3600 + mm * 60 + ss) := by
      unfold Ntp.seconds; omega
    simp only [dataOf', dataOf, e]
    split at h
    · rename_i hlt; cases h; simp [hlt]
    · cases h
  | bytes b =>
    simp only [construct] at h
    split at h
    · cases h; simp_all [dataOf', dataOf]
    · cases h
  | _ => simp_all [construct]

set_option maxRecDepth 4000 in
theorem construct_sound_tbcd (vs : List Nat) (v : PyVal) (d : Bytes)
    (h : construct .tbcd vs v = .ok d) : dataOf' .tbcd vs v = some d := by
  cases v with
  | int n =>
    simp only [construct] at h
    split at h
    · rename_i hn; cases h
      simp only [dataOf', dataOf, hn, ↓reduceIte, Tbcd.avpData]
      -- the octets of the encoding are the TBCD octets (proved in Properties/C18; restated here)
      congr 1
      exact (BV.C18.fromHex_enc _).symm
    · cases h
  | bytes b => simp_all [construct, dataOf', dataOf]
  | _ => simp_all [construct]

set_option maxRecDepth 4000 in
theorem construct_sound_uri (vs : List Nat) (v : PyVal) (d : Bytes)
    (h : construct .diameterURI vs v = .ok d) : dataOf' .diameterURI vs v = some d := by
  cases v <;> simp_all [construct, dataOf', dataOf] <;> (try (split at h <;> simp_all))

/-- all kinds together -/
theorem construct_sound (k : Kind) (vs : List Nat) (v : PyVal) (d : Bytes) (hv : v.valid)
    (h : construct k vs v = .ok d) : dataOf' k vs v = some d := by
  cases k with
  | octetString => exact (construct_sound_string vs v d).1 h
  | utf8String => exact (construct_sound_string vs v d).2.1 h
  | diameterIdentity => exact (construct_sound_string vs v d).2.2 h
  | diameterURI => exact construct_sound_uri vs v d h
  | integer32 => exact (construct_sound_bytes vs v d).2.2.1 h
  | unsigned32 => exact (construct_sound_uint vs v d).1 h
  | unsigned64 => exact (construct_sound_uint vs v d).2 h
  | enumerated => exact (construct_sound_bytes vs v d).2.2.2 h
  | grouped => simp [construct] at h
  | address => exact construct_sound_address vs v d hv h
  | time => exact construct_sound_time vs v d h
  | sessionId => exact (construct_sound_bytes vs v d).2.1 h
  | tbcd => exact construct_sound_tbcd vs v d h
  | eapPayload => exact (construct_sound_bytes vs v d).1 h
  | framedIp => exact construct_sound_framedIp vs v d hv h
  | unmodelled => simp [construct] at h

/-- widths: integer, enumerated and time data are exactly 4 (8) bytes; an address is family ++ packed -/
theorem dataOf_width (k : Kind) (vs : List Nat) (v : PyVal) (d : Bytes) (h : dataOf k vs v = some d) :
    (k = .unsigned32 ∨ k = .integer32 ∨ k = .enumerated ∨ k = .time → d.length = 4) ∧
    (k = .unsigned64 → d.length = 8) ∧
    (k = .address → d.length = 6 ∨ d.length = 18) := by
  refine ⟨?_, ?_, ?_⟩
  · rintro (rfl | rfl | rfl | rfl) <;> cases v <;> simp_all [dataOf] <;>
      first
      | (obtain ⟨h1, rfl⟩ := h; first | exact h1 | exact h1.1)
      | (obtain ⟨_, rfl⟩ := h; simp)
      | (split at h <;> simp_all <;> (subst h; simp))
      | skip
  · rintro rfl; cases v <;> simp_all [dataOf] <;>
      first
      | (obtain ⟨h1, rfl⟩ := h; exact h1)
      | (obtain ⟨_, rfl⟩ := h; simp)
      | skip
  · rintro rfl
    cases v with
    | bytes b =>
      simp only [dataOf] at h
      split at h
      · rename_i hc; cases h
        rcases hc with ⟨_, c⟩ | ⟨_, c⟩
        · left; exact c
        · right; exact c
      · cases h
    | ip f p =>
      by_cases h4 : f = 4
      · subst h4; simp only [dataOf] at h
        split at h
        · rename_i hp; cases h; left; simp [hp]
        · cases h
      · by_cases h6 : f = 6
        · subst h6; simp only [dataOf] at h
          split at h
          · rename_i hp; cases h; right; simp [hp]
          · cases h
        · simp only [dataOf] at h
          split at h <;> simp_all
    | _ => simp_all [dataOf]

/-- Grouped from a list: accepted only with every mandatory member code present, and then the data
    is the concatenation of the members' encodings -/
theorem constructGrouped_sound (mand : List (Option Nat × Nat)) (members : List Avp) (d : Bytes)
    (h : constructGrouped mand members = .ok d) :
    d = members.flatMap Avp.dump ∧ ∀ m ∈ mand, ∃ a ∈ members, a.code = m.2 := by
  unfold constructGrouped at h
  split at h
  · rename_i hall
    cases h
    refine ⟨rfl, ?_⟩
    intro m hm
    have := List.all_eq_true.mp hall m hm
    obtain ⟨a, ha, hc⟩ := List.any_eq_true.mp this
    exact ⟨a, ha, by simpa using hc⟩
  · cases h

end BV.Dict
