import BromeliaVerif.Spec.Decode
import BromeliaVerif.Proofs.Parse
namespace BV.Spec
open BV BV.Dict BV.Parse

/-- the raw AVP on the wire for a content node -/
def root : Content → Avp
  | .leaf c f v d => ⟨c, f, v, d⟩
  | .grouped c f v ks => ⟨c, f, v, encList ks⟩

theorem enc_eq_root_dump (t : Content) : enc t = (root t).dump := by
  cases t <;> simp [enc, root, Avp.dump_eq_encAvp]

theorem dispatch_key (dict : List Entry) (raw : Avp) : dispatch dict raw = dispatch dict (key raw.code raw.vendor) := rfl

theorem dispatch_some {dict : List Entry} {raw : Avp} {e : Entry} (h : dispatch dict raw = some e) :
    e.code = raw.code ∧ e.vendor = raw.vendor := by
  unfold dispatch at h
  split at h
  · rename_i e' hl
    split at h
    · rename_i hp
      simp only [Option.some.injEq] at h; subst h
      unfold lookup at hl
      have := List.find?_some hl
      simp only [Entry.key, beq_iff_eq, Prod.mk.injEq] at this
      obtain ⟨hv, hc⟩ := this
      refine ⟨hc, ?_⟩
      cases hev : e'.vendor <;> cases hrv : raw.vendor <;> simp_all
    · cases h
  · cases h

theorem fieldsOk_WF {c f : Nat} {v : Option Nat} {d : Bytes} (h : fieldsOk c f v d.length = true) :
    (Avp.mk c f v d).WF := by
  unfold fieldsOk at h
  simp only [Bool.and_eq_true, decide_eq_true_eq, beq_iff_eq] at h
  obtain ⟨⟨⟨⟨h1, h2⟩, h3⟩, h4⟩, h5⟩ := h
  refine ⟨h1, h2, h3, h4, ?_⟩
  unfold Avp.len; rw [hdrLen_eq]; exact h5

theorem good_root_WF (dict : List Entry) (t : Content) (h : good dict t = true) : (root t).WF := by
  cases t with
  | leaf c f v d =>
    simp only [good, Bool.and_eq_true] at h
    exact fieldsOk_WF h.1
  | grouped c f v ks =>
    simp only [good, Bool.and_eq_true] at h
    exact fieldsOk_WF h.1.1

theorem obs_code (dict : List Entry) (t : Content) : (obs dict t).avp.code = rootCode t := by
  cases t with
  | leaf c f v d =>
    simp only [obs, rootCode]
    split
    · rfl
    · rename_i e he; exact (dispatch_some he).1
  | grouped c f v ks =>
    simp only [obs, rootCode]
    split
    · rfl
    · rename_i e he
      split <;> exact (dispatch_some he).1

theorem any_obsList (dict : List Entry) (ks : List Content) (m : Nat) :
    (obsList dict ks).any (fun k => k.avp.code == m) = ks.any (fun k => rootCode k == m) := by
  induction ks with
  | nil => simp [obsList]
  | cons k ks ih => simp [obsList, obs_code, ih]

mutual
  /-- decoding the encoding of a good content tree, followed by any rest, yields its observation -/
  theorem load_enc_one (dict : List Entry) : ∀ (t : Content) (rest : Bytes), good dict t = true →
      loadAvps dict (enc t ++ rest) = consRes (obs dict t) (loadAvps dict rest)
    | .leaf c f v d, rest, hg => by
      have hwf := good_root_WF dict _ hg
      have hp := parseOne_dump (root (.leaf c f v d)) rest hwf
      rw [enc_eq_root_dump]
      rw [loadAvps_step dict _ _ _ (by simp [dump_ne_nil]) hp]
      simp only [good, Bool.and_eq_true] at hg
      have hdk : dispatch dict ⟨c, f, v, d⟩ = dispatch dict (key c v) := rfl
      simp only [materialise, root, obs, hdk]
      cases hd : dispatch dict (key c v) with
      | none => rfl
      | some e =>
        rw [hd] at hg
        simp only [bne_iff_ne, ne_eq, Bool.and_eq_true, decide_eq_true_eq] at hg
        obtain ⟨_, hk, hl⟩ := hg
        have hk' : ¬ e.kind = .grouped := by simpa using hk
        simp only [hk', ↓reduceIte]
        unfold leafOk at hl
        split at hl
        · rename_i u hu
          cases u
          simp only [hu]
        · cases hl
    | .grouped c f v ks, rest, hg => by
      have hwf := good_root_WF dict _ hg
      have hp := parseOne_dump (root (.grouped c f v ks)) rest hwf
      rw [enc_eq_root_dump]
      rw [loadAvps_step dict _ _ _ (by simp [dump_ne_nil]) hp]
      simp only [good, Bool.and_eq_true] at hg
      obtain ⟨⟨_, hgl⟩, hdsp⟩ := hg
      have ih := load_enc_list dict ks hgl
      have hdk : dispatch dict ⟨c, f, v, encList ks⟩ = dispatch dict (key c v) := rfl
      simp only [materialise, root, obs, hdk]
      cases hd : dispatch dict (key c v) with
      | none => rfl
      | some e =>
        rw [hd] at hdsp
        simp only at hdsp
        by_cases hk : e.kind = .grouped
        · simp only [hk, ↓reduceIte] at hdsp ⊢
          rw [ih]
          simp only
          have : (e.mandatory.all fun m => (obsList dict ks).any fun k => k.avp.code == m.2) = true := by
            rw [← hdsp]; congr 1; funext m; exact any_obsList dict ks m.2
          simp only [this, ↓reduceIte]
        · simp only [hk, ↓reduceIte] at hdsp ⊢
          unfold leafOk at hdsp
          split at hdsp
          · rename_i u hu
            cases u
            simp only [hu]
          · cases hdsp
  theorem load_enc_list (dict : List Entry) : ∀ ts : List Content, goodList dict ts = true →
      loadAvps dict (encList ts) = .ok (obsList dict ts)
    | [], _ => by simp [encList, obsList, loadAvps_nil]
    | t :: ts, hg => by
      simp only [goodList, Bool.and_eq_true] at hg
      simp only [encList, obsList]
      rw [load_enc_one dict t (encList ts) hg.1, load_enc_list dict ts hg.2]
      rfl
end

end BV.Spec
