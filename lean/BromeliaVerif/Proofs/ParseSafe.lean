import BromeliaVerif.Proofs.Parse
namespace BV.Parse
open BV BV.Dict

/-- an error of the model that is not a foreign (non-library) exception -/
def Err.notStd : Err → Prop
  | .std _ => False
  | _ => True

theorem parseOne_error {s : Bytes} {e : Err} (h : parseOne s = .error e) : e = .parsing := by
  unfold parseOne at h
  split at h; · cases h; rfl
  split at h; · cases h; rfl
  split at h; · cases h; rfl
  simp only at h
  split at h
  · split at h; · cases h; rfl
    split at h; · cases h; rfl
    split at h; · cases h; rfl
    cases h
  · split at h; · cases h; rfl
    split at h; · cases h; rfl
    cases h

theorem acceptLeaf_error {k : Kind} {vs : List Nat} {d : Bytes} {e : Err} (h : acceptLeaf k vs d = .error e) :
    e.notStd := by
  unfold acceptLeaf at h
  repeat' split at h
  all_goals first | (cases h; trivial) | cases h

theorem materialise_error {dict : List Entry} {raw : Avp} {kids : Unit → Except Err (List LAvp)} {e : Err}
    (hk : ∀ e', kids () = .error e' → e'.notStd) (h : materialise dict raw kids = .error e) : e.notStd := by
  unfold materialise at h
  split at h
  · cases h
  · split at h
    · split at h
      · rename_i er hkr
        cases h; exact hk _ hkr
      · split at h
        · cases h
        · cases h; trivial
    · split at h
      · rename_i er her
        cases h; exact acceptLeaf_error her
      · cases h

/-- ∀ byte strings: the AVP decoder returns AVPs or fails with a library error — never a foreign
    exception. (Termination is part of the definition: `loadAvps` is accepted by well-founded
    recursion on the length of the stream.) -/
theorem loadAvps_safe (dict : List Entry) : ∀ (n : Nat) (s : Bytes), s.length ≤ n → ∀ e, loadAvps dict s = .error e → e.notStd := by
  intro n
  induction n with
  | zero =>
    intro s hs e h
    have : s = [] := List.eq_nil_of_length_eq_zero (by omega)
    subst this; rw [loadAvps_nil] at h; cases h
  | succ n ih =>
    intro s hs e h
    by_cases h0 : s = []
    · subst h0; rw [loadAvps_nil] at h; cases h
    · cases hp : parseOne s with
      | error pe =>
        rw [loadAvps_error dict s pe h0 hp] at h
        cases h; rw [parseOne_error hp]; trivial
      | ok pr =>
        obtain ⟨raw, rest⟩ := pr
        have hlen := parseOne_ok hp
        rw [loadAvps_step dict s raw rest h0 hp] at h
        split at h
        · rename_i er hm
          cases h
          exact materialise_error (fun e' he' => ih raw.data (by omega) e' he') hm
        · unfold consRes at h
          split at h
          · rename_i er hr; cases h; exact ih rest (by omega) _ hr
          · cases h

theorem loadAvps_errors_are_library (dict : List Entry) (s : Bytes) (e : Err) (h : loadAvps dict s = .error e) : e.notStd :=
  loadAvps_safe dict s.length s (Nat.le_refl _) e h

mutual
  /-- number of AVP objects in a decoded forest, members of Grouped AVPs included -/
  def nodes : LAvp → Nat
    | .mk _ _ kids => 1 + nodesList kids
  def nodesList : List LAvp → Nat
    | [] => 0
    | k :: ks => nodes k + nodesList ks
end

theorem materialise_nodes {dict : List Entry} {raw : Avp} {kids : Unit → Except Err (List LAvp)} {a : LAvp} {b : Nat}
    (hk : ∀ ks, kids () = .ok ks → nodesList ks ≤ b) (h : materialise dict raw kids = .ok a) : nodes a ≤ 1 + b := by
  unfold materialise at h
  split at h
  · cases h; simp [nodes, nodesList]
  · split at h
    · split at h
      · cases h
      · rename_i ks hks
        split at h
        · cases h; simp only [nodes]; have := hk _ hks; omega
        · cases h
    · split at h
      · cases h
      · cases h; simp [nodes, nodesList]

/-- output bound: the number of decoded AVP objects (all nesting levels; this is also the number of
    loop iterations of a successful decode) is at most a eighth of the input length -/
theorem loadAvps_nodes_bound (dict : List Entry) : ∀ (n : Nat) (s : Bytes), s.length ≤ n → ∀ as, loadAvps dict s = .ok as →
    8 * nodesList as ≤ s.length := by
  intro n
  induction n with
  | zero =>
    intro s hs as h
    have : s = [] := List.eq_nil_of_length_eq_zero (by omega)
    subst this; rw [loadAvps_nil] at h; cases h; simp [nodesList]
  | succ n ih =>
    intro s hs as h
    by_cases h0 : s = []
    · subst h0; rw [loadAvps_nil] at h; cases h; simp [nodesList]
    · cases hp : parseOne s with
      | error pe => rw [loadAvps_error dict s pe h0 hp] at h; cases h
      | ok pr =>
        obtain ⟨raw, rest⟩ := pr
        have hlen := parseOne_ok hp
        rw [loadAvps_step dict s raw rest h0 hp] at h
        split at h
        · cases h
        · rename_i a hm
          unfold consRes at h
          split at h
          · cases h
          · rename_i more hr
            cases h
            have h1 := ih rest (by omega) _ hr
            have h2 : nodes a ≤ 1 + raw.data.length / 8 :=
              materialise_nodes (fun ks hks => by have := ih raw.data (by omega) ks hks; omega) hm
            simp only [nodesList]
            omega

theorem loadMsgs_nil' (dict : List Entry) : loadMsgs dict [] = .ok [] := by rw [loadMsgs]; simp

/-- message splitter: library errors only, and at most one message per 20 input bytes -/
theorem loadMsgs_safe (dict : List Entry) : ∀ (n : Nat) (s : Bytes), s.length ≤ n →
    (∀ e, loadMsgs dict s = .error e → e.notStd) ∧ (∀ ms, loadMsgs dict s = .ok ms → 20 * ms.length ≤ s.length) := by
  intro n
  induction n with
  | zero =>
    intro s hs
    have : s = [] := List.eq_nil_of_length_eq_zero (by omega)
    subst this; rw [loadMsgs_nil']
    exact ⟨fun e h => (by cases h), fun ms h => (by cases h; simp)⟩
  | succ n ih =>
    intro s hs
    by_cases h0 : s = []
    · subst h0; rw [loadMsgs_nil']
      exact ⟨fun e h => (by cases h), fun ms h => (by cases h; simp)⟩
    · rw [loadMsgs]
      simp only [h0, ↓reduceDIte]
      split
      · exact ⟨fun e h => (by cases h; trivial), fun ms h => (by cases h)⟩
      · split
        · exact ⟨fun e h => (by cases h; trivial), fun ms h => (by cases h)⟩
        · rename_i hl20 hlen
          have hpos : 0 < s.length := List.length_pos_iff.mpr h0
          split
          · rename_i er ha
            exact ⟨fun e h => (by cases h; exact loadAvps_errors_are_library dict _ _ ha), fun ms h => (by cases h)⟩
          · rename_i avps ha
            have hrec := ih (s.drop (parseHeader (s.take 20)).length) (by simp only [List.length_drop]; omega)
            split
            · rename_i er hr
              exact ⟨fun e h => (by cases h; exact hrec.1 _ hr), fun ms h => (by cases h)⟩
            · rename_i more hr
              refine ⟨fun e h => (by cases h), fun ms h => ?_⟩
              cases h
              have := hrec.2 _ hr
              simp only [List.length_drop] at this
              simp only [List.length_cons]
              omega

end BV.Parse
