import BromeliaVerif.Model.PsmPrims
/-! A verified normaliser for translated state-machine programs: the comparison `code = reference` of
`Properties/C06Gen.lean` is made on normal forms, so that edits which only regroup statements, instantiate a helper's boolean
flags, drop an `if` whose branches are equal (a log line) or double a negation do not change the compared term.
Static (independent of /repo). -/
namespace BV.PsmT

def Cond.norm : Cond → Cond
  | .not c =>
    match c.norm with
    | .flag b => .flag (!b)
    | .not d => d
    | c' => .not c'
  | .and a b =>
    match a.norm, b.norm with
    | .flag true, b' => b'
    | .flag false, _ => .flag false
    | a', .flag true => a'
    | a', b' => .and a' b'
  | .or a b =>
    match a.norm, b.norm with
    | .flag false, b' => b'
    | .flag true, _ => .flag true
    | a', .flag false => a'
    | a', b' => .or a' b'
  | c => c

theorem Cond.norm_eval (V : Verd) (c : Cond) (ps : PS) : c.norm.eval V ps = c.eval V ps := by
  induction c with
  | not c ih =>
    simp only [Cond.norm]
    split <;> simp_all [Cond.eval] <;> (rw [← ih]; simp [Cond.eval])
  | and a b iha ihb =>
    simp only [Cond.norm]
    split <;> simp_all [Cond.eval] <;> (first | (rw [← iha, ← ihb]; simp [Cond.eval]) | (rw [← iha]; simp [Cond.eval]) | (rw [← ihb]; simp [Cond.eval]))
  | or a b iha ihb =>
    simp only [Cond.norm]
    split <;> simp_all [Cond.eval] <;> (first | (rw [← iha, ← ihb]; simp [Cond.eval]) | (rw [← iha]; simp [Cond.eval]) | (rw [← ihb]; simp [Cond.eval]))
  | _ => rfl

/-- sequential composition of two normalised programs, right-nested, without `skip` -/
def Prog.app : Prog → Prog → Prog
  | .skip, q => q
  | .seq a b, q => .seq a (Prog.app b q)
  | p, .skip => p
  | p, q => .seq p q

theorem Prog.app_exec (V : Verd) (p q : Prog) (ps : PS) : (Prog.app p q).exec V ps = q.exec V (p.exec V ps) := by
  induction p generalizing ps with
  | skip => simp [Prog.app, Prog.exec]
  | seq a b _ ihb => simp [Prog.app, Prog.exec, ihb]
  | prim x => cases q <;> simp [Prog.app, Prog.exec]
  | ite c a b _ _ => cases q <;> simp [Prog.app, Prog.exec]

def Prog.norm : Prog → Prog
  | .skip => .skip
  | .prim p => .prim p
  | .seq a b => Prog.app a.norm b.norm
  | .ite c a b =>
    match c.norm with
    | .flag true => a.norm
    | .flag false => b.norm
    | c' => if a.norm = b.norm then a.norm else .ite c' a.norm b.norm

theorem Prog.norm_exec (V : Verd) (p : Prog) (ps : PS) : p.norm.exec V ps = p.exec V ps := by
  induction p generalizing ps with
  | skip => rfl
  | prim x => rfl
  | seq a b iha ihb => simp [Prog.norm, Prog.exec, Prog.app_exec, iha, ihb]
  | ite c a b iha ihb =>
    have hc := Cond.norm_eval V c ps
    simp only [Prog.norm]
    split
    · rename_i h; rw [h] at hc; simp [Prog.exec, ← hc, Cond.eval, iha]
    · rename_i h; rw [h] at hc; simp [Prog.exec, ← hc, Cond.eval, ihb]
    · split
      · rename_i h
        simp only [Prog.exec]
        split
        · exact iha ps
        · rw [h]; exact ihb ps
      · simp [Prog.exec, hc, iha, ihb]

/-- programs with the same normal form run the same -/
theorem Prog.exec_congr_norm (V : Verd) (p q : Prog) (h : p.norm = q.norm) (ps : PS) : p.exec V ps = q.exec V ps := by
  rw [← Prog.norm_exec V p, ← Prog.norm_exec V q, h]

end BV.PsmT
