import BromeliaVerif.Model.Tbcd
namespace BV.C18
open BV BV.Tbcd

theorem tbcdBytes_cons2 (a b : Char) (rest : List Char) :
    Spec.tbcdBytes (a :: b :: rest) = UInt8.ofNat (nib b * 16 + nib a) :: Spec.tbcdBytes rest := by
  unfold Spec.tbcdBytes
  have : ((a :: b :: rest).length + 1) / 2 = (rest.length + 1) / 2 + 1 := by simp; omega
  rw [this, List.range_succ_eq_map, List.map_cons, List.map_map]
  have hhead : Spec.tbcdOctet (a :: b :: rest) 0 = nib b * 16 + nib a := by simp [Spec.tbcdOctet]
  have htail : ∀ i, Spec.tbcdOctet (a :: b :: rest) (i + 1) = Spec.tbcdOctet rest i := by
    intro i
    simp only [Spec.tbcdOctet]
    have e1 : 2 * (i + 1) + 1 = (2 * i + 1) + 1 + 1 := by omega
    have e2 : 2 * (i + 1) = (2 * i) + 1 + 1 := by omega
    rw [e1, e2]; simp
  rw [hhead]
  congr 1

/-- the octets of the encoding are the 3GPP TBCD octets of the digit string -/
theorem fromHex_enc : ∀ s : List Char, fromHex (enc s) = Spec.tbcdBytes s
  | [] => rfl
  | [a] => by simp [enc, fromHex, Spec.tbcdBytes, Spec.tbcdOctet, List.range_succ_eq_map]; decide
  | a :: b :: rest => by rw [tbcdBytes_cons2, ← fromHex_enc rest]; simp [enc, fromHex]

end BV.C18
