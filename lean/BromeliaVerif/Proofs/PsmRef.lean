import BromeliaVerif.Model.PsmRef
/-! STATIC refinement proof: the reference translation of `bromelia/statemachine.py` (`Model/PsmRef.lean`, the output
of `harness/gen_psm.py` on the reviewed tree) refines the hand model `Model/Psm.lean`, for EVERY node state, every sound
verdict function and every leftover value of `self.next_state` / `self.name` / `self.msg`. Nothing here depends on /repo;
what depends on /repo is `Gen/PsmGen.lean` and the equality `Gen = Ref` decided in `Properties/C06Gen.lean`. -/
namespace BV.PsmRefProof
open BV.Psm BV.PsmT BV.PsmRef

/-- `run()` of the state class registered for `n.st`, started with arbitrary leftovers, ends without an escaped
exception, without blocking, with `self.name` = its own state, and with the node and the requested next state of the
hand model (up to the ghost fields) -/
def Refines (run : St → Prog) (V : Verd) (n : Node) (nx nm : St) (mg : Option PMsg) : Prop :=
    let r := (run n.st).exec V (PS.start n nx nm mg)
    r.err = false ∧ r.stuck = false ∧ r.ret = none ∧ r.name = n.st ∧ r.next = (runState n).2 ∧
      erase r.n = erase (runState n).1

set_option linter.unusedSimpArgs false

macro "psm_simp" : tactic => `(tactic|
  simp [runProg, Prog.exec, Prim.exec, Cond.eval,
      Closed_run, Closed_set_closed_state, Closed_event_start, Closed_set_wait_conn_ack_state, Closed_has_recv_queue_message,
      Closed_event_responder_conn_cer, Closed_set_open_state,
      Closing_set_closing_state, Closing_is_set_release_signal_from_peer, Closing_set_closed_state, Closing_event_peer_disc,
      Closing_has_recv_queue_message, Closing_event_rcv_dpa, Closing_run,
      Open_run, Open_set_open_state, Open_is_set_release_signal_from_peer, Open_set_closed_state, Open_event_open_peer_disc,
      Open_is_set_release_signal_from_local, Open_set_closing_state, Open_event_stop, Open_has_send_queue_message,
      Open_event_send_message, Open_has_recv_queue_message, Open_event_open_rcv_dwr, Open_event_open_rcv_dwa,
      Open_event_open_rcv_dpr, Open_event_open_rcv_cer, Open_event_open_rcv_cea, Open_event_open_rcv_dpa,
      Open_event_open_rcv_message,
      WaitConnAck_set_wait_conn_ack_state, WaitConnAck_set_wait_initiator_cea_state, WaitConnAck_event_initiator_rcv_conn_ack,
      WaitConnAck_set_closed_state, WaitConnAck_event_initiator_rcv_conn_nack, WaitConnAck_has_recv_queue_message,
      WaitConnAck_set_wait_conn_ack_elect_state, WaitConnAck_event_responder_conn_cer, WaitConnAck_run,
      WaitConnAckElect_set_wait_conn_ack_elect_state, WaitConnAckElect_run,
      WaitInitiatorCEA_set_wait_initiator_cea_state, WaitInitiatorCEA_is_set_release_signal_from_peer,
      WaitInitiatorCEA_set_closed_state, WaitInitiatorCEA_event_initiator_peer_disc, WaitInitiatorCEA_has_recv_queue_message,
      WaitInitiatorCEA_set_open_state, WaitInitiatorCEA_event_open_rcv_cea, WaitInitiatorCEA_event_initiator_rcv_non_cea,
      WaitInitiatorCEA_run, WaitReturns_set_wait_returns_state, WaitReturns_run,
      PS.start, runState, runClosed, runWaitConnAck, connAttempt, connRecv, runWaitICEA, runOpen, openRecv, runClosing,
      trackEvents, peerGone, connected, forceStop, answer, send, flush, erase,
      isClientMode, isServerMode, recvEmpty, sendEmpty, stateIsActive, transportStopped, assocConnected, testConnection,
      kindIs, verdict, checkRaises, needMsg, setNext, setName, setStopThreads, setActive, clearMsg, getMessage, createAnswer,
      sendMsg, sendFlush, notifyApp, trackingEvents])

/-- the head message of the receive queue: its kind, validity and addressing bits made concrete -/
macro "psm_msg" hV:ident : tactic => `(tactic| (
      rename_i m rest
      rcases m with ⟨kind, valid, okAddr, hbh, e2e, id⟩
      have h := $hV ⟨kind, valid, okAddr, hbh, e2e, id⟩
      cases kind <;> simp at h <;> cases valid <;> cases okAddr <;> psm_simp <;> simp_all))

theorem closed_refines (V : Verd) (hV : Sound V) (n : Node) (nx nm : St) (mg : Option PMsg) (hs : n.st = .closed) :
    Refines runProg V n nx nm mg := by
  rcases n with ⟨role, st, running, active, tr, recvq, sendq, emitted, delivered, stopThreads, released, cexOk, answered⟩
  simp only at hs
  subst hs
  unfold Refines
  cases role <;> cases recvq <;> try psm_simp
  all_goals psm_msg hV

set_option maxHeartbeats 1000000 in
theorem waitConnAck_refines (V : Verd) (hV : Sound V) (n : Node) (nx nm : St) (mg : Option PMsg) (hs : n.st = .waitConnAck) :
    Refines runProg V n nx nm mg := by
  rcases n with ⟨role, st, running, active, tr, recvq, sendq, emitted, delivered, stopThreads, released, cexOk, answered⟩
  simp only at hs
  subst hs
  unfold Refines
  rcases tr with _ | ⟨c1, c2, pg, idle⟩
  · cases recvq <;> try psm_simp
    all_goals psm_msg hV
  · cases c1 <;> cases c2 <;> cases recvq <;> try psm_simp
    all_goals psm_msg hV

theorem waitICEA_refines (V : Verd) (hV : Sound V) (n : Node) (nx nm : St) (mg : Option PMsg) (hs : n.st = .waitICEA) :
    Refines runProg V n nx nm mg := by
  rcases n with ⟨role, st, running, active, tr, recvq, sendq, emitted, delivered, stopThreads, released, cexOk, answered⟩
  simp only at hs
  subst hs
  unfold Refines
  rcases tr with _ | ⟨c1, c2, pg, idle⟩
  · cases recvq <;> try psm_simp
    all_goals psm_msg hV
  · cases pg <;> cases recvq <;> try psm_simp
    all_goals psm_msg hV

set_option maxHeartbeats 2000000 in
theorem open_refines (V : Verd) (hV : Sound V) (n : Node) (nx nm : St) (mg : Option PMsg) (hs : n.st = .opened) :
    Refines runProg V n nx nm mg := by
  rcases n with ⟨role, st, running, active, tr, recvq, sendq, emitted, delivered, stopThreads, released, cexOk, answered⟩
  simp only at hs
  subst hs
  unfold Refines
  rcases tr with _ | ⟨c1, c2, pg, idle⟩
  · cases active <;> cases sendq <;> cases recvq <;> try psm_simp
    all_goals psm_msg hV
  · cases pg <;> cases idle <;> cases active <;> cases sendq <;> cases recvq <;> try psm_simp
    all_goals psm_msg hV

theorem closing_refines (V : Verd) (hV : Sound V) (n : Node) (nx nm : St) (mg : Option PMsg) (hs : n.st = .closing) :
    Refines runProg V n nx nm mg := by
  rcases n with ⟨role, st, running, active, tr, recvq, sendq, emitted, delivered, stopThreads, released, cexOk, answered⟩
  simp only at hs
  subst hs
  unfold Refines
  rcases tr with _ | ⟨c1, c2, pg, idle⟩
  · cases recvq <;> try psm_simp
    all_goals psm_msg hV
  · cases pg <;> cases recvq <;> try psm_simp
    all_goals psm_msg hV

theorem dead_states_refine (V : Verd) (n : Node) (nx nm : St) (mg : Option PMsg)
    (hs : n.st = .waitReturns ∨ n.st = .waitConnAckElect) : Refines runProg V n nx nm mg := by
  rcases n with ⟨role, st, running, active, tr, recvq, sendq, emitted, delivered, stopThreads, released, cexOk, answered⟩
  simp only at hs
  unfold Refines
  rcases hs with hs | hs <;> subst hs <;> psm_simp

/-- MAIN (static): `run()` of every state class of the reference translation refines the hand model -/
theorem ref_run_refines (V : Verd) (hV : Sound V) (n : Node) (nx nm : St) (mg : Option PMsg) :
    Refines runProg V n nx nm mg := by
  cases hs : n.st
  · exact closed_refines V hV n nx nm mg hs
  · exact waitConnAck_refines V hV n nx nm mg hs
  · exact waitICEA_refines V hV n nx nm mg hs
  · exact open_refines V hV n nx nm mg hs
  · exact dead_states_refine V n nx nm mg (Or.inl hs)
  · exact dead_states_refine V n nx nm mg (Or.inr hs)
  · exact closing_refines V hV n nx nm mg hs

/-- `get_next_state(next_state)` of the reference translation is `goto` of the hand model: never raises, returns the
state object of the state the node is then in -/
theorem ref_next_refines (V : Verd) (ps : PS) (he : ps.err = false) :
    let r := nextProg.exec V ps
    r.err = false ∧ r.stuck = ps.stuck ∧ erase r.n = erase (goto ps.n ps.name ps.next) ∧ r.ret = some r.n.st := by
  rcases ps with ⟨n, next, name, msg, err, stuck, ret, ans⟩
  simp only at he
  subst he
  cases next <;> cases name <;>
    simp [nextProg, PeerStateMachine_get_next_state, stateKeys, Prog.exec, Prim.exec, Cond.eval, goto, returnState,
      setNotRunning, assocClose, raiseErr, erase]

end BV.PsmRefProof
