import BromeliaVerif.Model.Bits
namespace BV.Bits

theorem and_two_pow_eq (x j : Nat) : x &&& 2 ^ j = if x.testBit j then 2 ^ j else 0 := by
  apply Nat.eq_of_testBit_eq
  intro i
  rw [Nat.testBit_and, Nat.testBit_two_pow]
  by_cases hij : j = i
  · subst hij; cases h : x.testBit j <;> simp [Nat.testBit_two_pow_self]
  · cases h : x.testBit j <;> simp [hij, Nat.testBit_two_pow_of_ne hij]

theorem and_two_pow_ne_zero (x j : Nat) : (x &&& 2 ^ j != 0) = x.testBit j := by
  rw [and_two_pow_eq]
  cases h : x.testBit j <;> simp

theorem testBit_byte (w s j : Nat) (hj : j < 8) : (w / 2 ^ s % 256).testBit j = w.testBit (s + j) := by
  have : (256 : Nat) = 2 ^ 8 := by decide
  rw [this, Nat.testBit_mod_two_pow, Nat.testBit_div_two_pow]
  simp [hj, Nat.add_comm]

/-- bytes of a word built from four bytes -/
theorem byteOf_word (d : Nat → Nat) (hd : ∀ k, k < 4 → d k < 256) (k : Nat) (hk : k < 4) :
    byteOf (word d) k = d k := by
  have h0 := hd 0 (by omega); have h1 := hd 1 (by omega)
  have h2 := hd 2 (by omega); have h3 := hd 3 (by omega)
  unfold byteOf word
  have : k = 0 ∨ k = 1 ∨ k = 2 ∨ k = 3 := by omega
  rcases this with rfl | rfl | rfl | rfl <;> simp <;> omega

/-- bit `8*(3-k)+j` of the word is bit j of byte k -/
theorem testBit_word (d : Nat → Nat) (hd : ∀ k, k < 4 → d k < 256) (k j : Nat) (hk : k < 4) (hj : j < 8) :
    (word d).testBit (8 * (3 - k) + j) = (d k).testBit j := by
  rw [← testBit_byte _ _ _ hj]
  have := byteOf_word d hd k hk
  unfold byteOf at this
  rw [this]

theorem word_lt (d : Nat → Nat) (hd : ∀ k, k < 4 → d k < 256) : word d < 2 ^ 32 := by
  have h0 := hd 0 (by omega); have h1 := hd 1 (by omega)
  have h2 := hd 2 (by omega); have h3 := hd 3 (by omega)
  unfold word; omega

/-- every bit index below 32 decomposes as 8*(3-k)+j -/
theorem idx_decomp (i : Nat) (hi : i < 32) : i = 8 * (3 - (3 - i / 8)) + i % 8 ∧ 3 - i / 8 < 4 ∧ i % 8 < 8 := by
  omega

theorem isBitSetD_eq (d : Nat → Nat) (hd : ∀ k, k < 4 → d k < 256) (b : Nat) (hb : b < 32) :
    isBitSetD d b = some ((word d).testBit b) := by
  obtain ⟨e, hk, hj⟩ := idx_decomp b hb
  have key := testBit_word d hd (3 - b / 8) (b % 8) hk hj
  rw [← e] at key
  unfold isBitSetD
  have h8 : b / 8 = 0 ∨ b / 8 = 1 ∨ b / 8 = 2 ∨ b / 8 = 3 := by omega
  rcases h8 with h | h | h | h
  · have : b < 8 := by omega
    have hm : b % 8 = b := by omega
    simp only [this, ↓reduceIte]; rw [and_two_pow_ne_zero, key, h, hm]
  · have h1 : ¬ b < 8 := by omega
    have h2 : b < 16 := by omega
    simp only [h1, h2, ↓reduceIte]; rw [and_two_pow_ne_zero, key, h]
  · have h1 : ¬ b < 8 := by omega
    have h2 : ¬ b < 16 := by omega
    have h3 : b < 24 := by omega
    simp only [h1, h2, h3, ↓reduceIte]; rw [and_two_pow_ne_zero, key, h]
  · have h1 : ¬ b < 8 := by omega
    have h2 : ¬ b < 16 := by omega
    have h3 : ¬ b < 24 := by omega
    simp only [h1, h2, h3, hb, ↓reduceIte]; rw [and_two_pow_ne_zero, key, h]

theorem upd_lt (d : Nat → Nat) (hd : ∀ k, k < 4 → d k < 256) (k v : Nat) (hv : v < 256) :
    ∀ i, i < 4 → upd d k v i < 256 := by
  intro i hi; unfold upd; split
  · exact hv
  · exact hd i hi

/-- bits of the word after one byte has been replaced -/
theorem testBit_word_upd (d : Nat → Nat) (hd : ∀ k, k < 4 → d k < 256) (k v : Nat) (hk : k < 4) (hv : v < 256)
    (i : Nat) (hi : i < 32) :
    (word (upd d k v)).testBit i =
      if 3 - i / 8 = k then v.testBit (i % 8) else (word d).testBit i := by
  obtain ⟨e, hk', hj⟩ := idx_decomp i hi
  have a := testBit_word (upd d k v) (upd_lt d hd k v hv) (3 - i / 8) (i % 8) hk' hj
  have b := testBit_word d hd (3 - i / 8) (i % 8) hk' hj
  rw [← e] at a b
  rw [a, b]; unfold upd
  split <;> rfl

end BV.Bits
