import BromeliaVerif.Model.Container
namespace BV.Container

def ids (c : Cont) : List Nat := c.avps.map (·.id)
def refs (c : Cont) : List Nat := c.names.map (·.2)

/-- coherence of named view, AVP list and Message Length -/
structure Coherent (c : Cont) : Prop where
  ids_nodup : (ids c).Nodup
  keys_nodup : (keys c).Nodup
  refs_nodup : (refs c).Nodup                       -- one name per AVP object
  refs_iff : ∀ i, i ∈ refs c ↔ i ∈ ids c             -- names refer exactly to the listed objects
  length_eq : c.length = 20 + sizeSum c.avps          -- Message Length = header + padded sizes

theorem coherent_empty : Coherent empty := by
  constructor <;> simp [empty, ids, keys, refs, sizeSum]

theorem nodup_map_inj {α β : Type} {f : α → β} : ∀ {l : List α}, (l.map f).Nodup → ∀ {a b : α}, a ∈ l → b ∈ l → f a = f b → a = b
  | [], _, _, _, ha, _, _ => by cases ha
  | x :: xs, hn, a, b, ha, hb, he => by
    simp only [List.map_cons, List.nodup_cons] at hn
    rcases List.mem_cons.mp ha with rfl | ha' <;> rcases List.mem_cons.mp hb with rfl | hb'
    · rfl
    · exact absurd (List.mem_map.mpr ⟨b, hb', he.symm⟩) hn.1
    · exact absurd (List.mem_map.mpr ⟨a, ha', he⟩) hn.1
    · exact nodup_map_inj hn.2 ha' hb' he

theorem freshKey_spec {ks : List Key} {b : String} {k : Key} (h : freshKey ks b = some k) : k ∉ ks ∧ k.1 = b := by
  unfold freshKey at h
  split at h
  · rename_i hn; cases h; exact ⟨hn, rfl⟩
  · have hp := List.find?_some h
    have hm := List.mem_of_find?_eq_some h
    simp only [decide_eq_true_eq] at hp
    obtain ⟨j, _, rfl⟩ := List.mem_map.mp hm
    exact ⟨hp, rfl⟩

theorem sizeSum_append (a b : List Obj) : sizeSum (a ++ b) = sizeSum a + sizeSum b := by
  simp [sizeSum, List.map_append, List.sum_append]

theorem append_coherent {c c' : Cont} {o : Obj} (hc : Coherent c) (hf : o.id ∉ ids c) (h : append c o = .ok c') :
    Coherent c' ∧ c'.avps = c.avps ++ [o] := by
  unfold append at h
  split at h
  · cases h
  · rename_i k hk
    cases h
    obtain ⟨hk1, _⟩ := freshKey_spec hk
    refine ⟨⟨?_, ?_, ?_, ?_, ?_⟩, rfl⟩
    · simp only [ids, List.map_append, List.map_cons, List.map_nil]
      rw [List.nodup_append]
      exact ⟨hc.ids_nodup, by simp, by intro a ha b hb; simp at hb; subst hb; intro e; subst e; exact hf ha⟩
    · simp only [keys, List.map_append, List.map_cons, List.map_nil]
      rw [List.nodup_append]
      exact ⟨hc.keys_nodup, by simp, by intro a ha b hb; simp at hb; subst hb; intro e; subst e; exact hk1 ha⟩
    · simp only [refs, List.map_append, List.map_cons, List.map_nil]
      rw [List.nodup_append]
      refine ⟨hc.refs_nodup, by simp, ?_⟩
      intro a ha b hb; simp at hb; subst hb; intro e; subst e
      exact hf ((hc.refs_iff _).mp ha)
    · intro i
      simp only [refs, ids, List.map_append, List.map_cons, List.map_nil, List.mem_append, List.mem_singleton]
      have := hc.refs_iff i
      simp only [refs, ids] at this
      rw [this]
    · show c.length + o.size = 20 + sizeSum (c.avps ++ [o])
      rw [sizeSum_append, hc.length_eq]; simp [sizeSum]; omega

theorem sizeSum_filter_ne (l : List Obj) (o : Obj) (hn : (l.map (·.id)).Nodup) (ho : o ∈ l) :
    sizeSum (l.filter (·.id != o.id)) + o.size = sizeSum l := by
  induction l with
  | nil => cases ho
  | cons x xs ih =>
    simp only [List.map_cons, List.nodup_cons] at hn
    rcases List.mem_cons.mp ho with rfl | hx
    · have : xs.filter (·.id != o.id) = xs := by
        apply List.filter_eq_self.mpr
        intro y hy; simp only [bne_iff_ne, ne_eq]; intro e
        exact hn.1 (List.mem_map.mpr ⟨y, hy, e⟩)
      simp [List.filter_cons, this, sizeSum]; omega
    · have hne : x.id ≠ o.id := by
        intro e; exact hn.1 (List.mem_map.mpr ⟨o, hx, e.symm⟩)
      have := ih hn.2 hx
      simp only [List.filter_cons, bne_iff_ne, ne_eq, hne, not_false_eq_true, decide_true, ↓reduceIte]
      simp only [sizeSum, List.map_cons, List.sum_cons] at this ⊢
      omega

theorem lookup_mem {α β : Type} [BEq α] [LawfulBEq α] {l : List (α × β)} {k : α} {v : β} (h : l.lookup k = some v) : (k, v) ∈ l := by
  induction l with
  | nil => cases h
  | cons x xs ih =>
    obtain ⟨a, b⟩ := x
    simp only [List.lookup_cons] at h
    split at h
    · rename_i he; cases h; simp at he; subst he; simp
    · exact List.mem_cons_of_mem _ (ih h)

theorem pop_coherent {c c' : Cont} {k : Key} (hc : Coherent c) (h : pop c k = .ok c') :
    Coherent c' ∧ c'.avps.Sublist c.avps := by
  unfold pop at h
  split at h; · cases h
  split at h; · cases h
  rename_i i hi
  split at h; · cases h
  rename_i o ho
  cases h
  have hoid : o.id = i := by simpa using List.find?_some ho
  have hom := List.mem_of_find?_eq_some ho
  have hki := lookup_mem hi
  refine ⟨⟨?_, ?_, ?_, ?_, ?_⟩, List.filter_sublist⟩
  · simp only [ids]
    exact (List.Nodup.sublist (List.Sublist.map _ List.filter_sublist) hc.ids_nodup)
  · simp only [keys]
    exact (List.Nodup.sublist (List.Sublist.map _ List.filter_sublist) hc.keys_nodup)
  · simp only [refs]
    exact (List.Nodup.sublist (List.Sublist.map _ List.filter_sublist) hc.refs_nodup)
  · intro j
    simp only [refs, ids, List.mem_map, List.mem_filter, bne_iff_ne, ne_eq]
    constructor
    · rintro ⟨⟨k', j'⟩, ⟨hm, hk'⟩, rfl⟩
      have hj : j' ∈ ids c := (hc.refs_iff j').mp (List.mem_map.mpr ⟨(k', j'), hm, rfl⟩)
      obtain ⟨p, hp, hpj⟩ := List.mem_map.mp hj
      refine ⟨p, ⟨hp, ?_⟩, hpj⟩
      intro e
      -- j' = i would make (k', i) and (k, i) two names of the same object
      have hji : j' = i := by rw [← hpj, e]
      subst hji
      have h1 : (k', j') ∈ c.names := hm
      have : k' = k := by
        -- refs nodup: the pair with second component i is unique
        have hn := hc.refs_nodup
        simp only [refs] at hn
        have := nodup_map_inj hn h1 hki rfl
        simp only [Prod.mk.injEq, and_true] at this
        exact this
      exact hk' this
    · rintro ⟨p, ⟨hp, hne⟩, rfl⟩
      have : p.id ∈ refs c := (hc.refs_iff _).mpr (List.mem_map.mpr ⟨p, hp, rfl⟩)
      obtain ⟨⟨k', j'⟩, hm, hj⟩ := List.mem_map.mp this
      simp only at hj; subst hj
      refine ⟨(k', p.id), ⟨hm, ?_⟩, rfl⟩
      intro e; subst e
      -- keys nodup: (k', p.id) and (k', i) are the same entry
      have hn := hc.keys_nodup
      simp only [keys] at hn
      have := nodup_map_inj hn hm hki rfl
      simp only [Prod.mk.injEq, true_and] at this
      exact hne this
  · have := sizeSum_filter_ne c.avps o hc.ids_nodup hom
    rw [hoid] at this
    show c.length - o.size = 20 + sizeSum (c.avps.filter (·.id != i))
    rw [hc.length_eq]; omega

theorem cleanup_coherent {c : Cont} (hc : Coherent c) : Coherent (cleanup c) := by
  constructor <;> simp [cleanup, ids, keys, refs, sizeSum]
  have := hc.length_eq; simp [sizeSum] at this; omega

theorem refresh_coherent {c : Cont} (hc : Coherent c) : Coherent (refresh c) :=
  ⟨hc.ids_nodup, hc.keys_nodup, hc.refs_nodup, hc.refs_iff, rfl⟩

/-- `extend` with objects that are new and pairwise distinct -/
theorem extend_coherent : ∀ (os : List Obj) {c c' : Cont}, Coherent c → (∀ o ∈ os, o.id ∉ ids c) → (os.map (·.id)).Nodup →
    extend c os = .ok c' → Coherent c' ∧ c'.avps = c.avps ++ os
  | [], c, c', hc, _, _, h => by simp [extend] at h; subst h; exact ⟨hc, by simp⟩
  | o :: os, c, c', hc, hf, hn, h => by
    simp only [extend] at h
    split at h
    · cases h
    · rename_i c1 h1
      obtain ⟨hc1, ha1⟩ := append_coherent hc (hf o (by simp)) h1
      simp only [List.map_cons, List.nodup_cons] at hn
      have hf1 : ∀ x ∈ os, x.id ∉ ids c1 := by
        intro x hx
        simp only [ids, ha1, List.map_append, List.map_cons, List.map_nil, List.mem_append, List.mem_singleton, not_or]
        refine ⟨hf x (List.mem_cons_of_mem _ hx), ?_⟩
        intro e; exact hn.1 (List.mem_map.mpr ⟨x, hx, e⟩)
      obtain ⟨hc', ha'⟩ := extend_coherent os hc1 hf1 hn.2 h
      exact ⟨hc', by rw [ha', ha1]; simp⟩

theorem setAvps_coherent {c c' : Cont} {os : List Obj} (hc : Coherent c) (hn : (os.map (·.id)).Nodup)
    (h : setAvps c os = .ok c') : Coherent c' ∧ c'.avps = os := by
  unfold setAvps at h
  have := extend_coherent os (cleanup_coherent hc) (by intro o _; simp [ids, cleanup]) hn h
  exact ⟨this.1, by rw [this.2]; simp [cleanup]⟩

theorem mem_set {α : Type} (l : List α) (i : Nat) (a x : α) (h : x ∈ l.set i a) : x = a ∨ x ∈ l := by
  induction l generalizing i with
  | nil => simp at h
  | cons y ys ih =>
    cases i with
    | zero => simp only [List.set_cons_zero, List.mem_cons] at h; rcases h with h | h; exact .inl h; exact .inr (List.mem_cons_of_mem _ h)
    | succ j =>
      simp only [List.set_cons_succ, List.mem_cons] at h
      rcases h with h | h
      · exact .inr (by simp [h])
      · rcases ih j h with h | h
        · exact .inl h
        · exact .inr (List.mem_cons_of_mem _ h)

/-- ids after replacing position `idx` -/
theorem ids_set (l : List Obj) (idx : Nat) (old o : Obj) (hget : l[idx]? = some old) (hn : (l.map (·.id)).Nodup)
    (hf : o.id ∉ l.map (·.id)) :
    ((l.set idx o).map (·.id)).Nodup ∧
    ∀ i, i ∈ (l.set idx o).map (·.id) ↔ (i = o.id ∨ (i ∈ l.map (·.id) ∧ i ≠ old.id)) := by
  induction l generalizing idx with
  | nil => simp at hget
  | cons x xs ih =>
    simp only [List.map_cons, List.nodup_cons, List.mem_cons, not_or] at hn hf
    cases idx with
    | zero =>
      simp only [List.getElem?_cons_zero, Option.some.injEq] at hget; subst hget
      simp only [List.set_cons_zero, List.map_cons, List.nodup_cons, List.mem_cons]
      refine ⟨⟨hf.2, hn.2⟩, ?_⟩
      intro i
      constructor
      · rintro (h | h)
        · exact .inl h
        · exact .inr ⟨.inr h, by intro e; subst e; exact hn.1 h⟩
      · rintro (h | ⟨h | h, hne⟩)
        · exact .inl h
        · exact absurd h hne
        · exact .inr h
    | succ j =>
      simp only [List.getElem?_cons_succ] at hget
      obtain ⟨ih1, ih2⟩ := ih j hget hn.2 hf.2
      have hold : old.id ∈ xs.map (·.id) := List.mem_map.mpr ⟨old, List.mem_of_getElem? hget, rfl⟩
      simp only [List.set_cons_succ, List.map_cons, List.nodup_cons, List.mem_cons]
      refine ⟨⟨?_, ih1⟩, ?_⟩
      · intro hx
        rcases (ih2 x.id).mp hx with h | ⟨h, _⟩
        · exact hf.1 h.symm
        · exact hn.1 h
      · intro i
        constructor
        · rintro (h | h)
          · subst h; exact .inr ⟨.inl rfl, by intro e; rw [e] at hn; exact hn.1 hold⟩
          · rcases (ih2 i).mp h with h | ⟨h, hne⟩
            · exact .inl h
            · exact .inr ⟨.inr h, hne⟩
        · rintro (h | ⟨h | h, hne⟩)
          · exact .inr ((ih2 i).mpr (.inl h))
          · exact .inl h
          · exact .inr ((ih2 i).mpr (.inr ⟨h, hne⟩))

theorem keys_rebind (ns : List (Key × Nat)) (a b : Nat) : (rebind ns a b).map (·.1) = ns.map (·.1) := by
  simp only [rebind, List.map_map]
  apply List.map_congr_left
  intro p _
  simp only [Function.comp]; split <;> rfl

theorem refs_rebind (ns : List (Key × Nat)) (a b : Nat) :
    (rebind ns a b).map (·.2) = (ns.map (·.2)).map (fun i => if i == a then b else i) := by
  simp only [rebind, List.map_map]
  apply List.map_congr_left
  intro p _
  simp only [Function.comp]; split <;> rfl

theorem nodup_map_rename (l : List Nat) (a b : Nat) (hn : l.Nodup) (hb : b ∉ l) :
    (l.map (fun i => if i == a then b else i)).Nodup := by
  induction l with
  | nil => simp
  | cons x xs ih =>
    simp only [List.nodup_cons, List.mem_cons, not_or] at hn hb
    simp only [List.map_cons, List.nodup_cons]
    refine ⟨?_, ih hn.2 hb.2⟩
    intro hm
    obtain ⟨y, hy, he⟩ := List.mem_map.mp hm
    by_cases hx : x = a <;> by_cases hy' : y = a <;> simp [hx, hy'] at he
    · subst hx; subst hy'; exact hn.1 hy
    · exact hb.2 (he ▸ hy)
    · exact hb.1 he
    · subst he; exact hn.1 hy

theorem setItem_coherent {c c' : Cont} {idx : Nat} {o : Obj} (hc : Coherent c) (hf : o.id ∉ ids c)
    (h : setItem c idx o = .ok c') : Coherent c' ∧ c'.avps = c.avps.set idx o := by
  unfold setItem at h
  split at h; · cases h
  rename_i old hget
  cases h
  obtain ⟨hs1, hs2⟩ := ids_set c.avps idx old o hget hc.ids_nodup hf
  have hnr : o.id ∉ refs c := fun hr => hf ((hc.refs_iff _).mp hr)
  have hold : old.id ∈ ids c := List.mem_map.mpr ⟨old, List.mem_of_getElem? hget, rfl⟩
  refine ⟨⟨hs1, ?_, ?_, ?_, rfl⟩, rfl⟩
  · show ((rebind c.names old.id o.id).map (·.1)).Nodup
    rw [keys_rebind]; exact hc.keys_nodup
  · show ((rebind c.names old.id o.id).map (·.2)).Nodup
    rw [refs_rebind]; exact nodup_map_rename _ _ _ hc.refs_nodup hnr
  · intro i
    show i ∈ (rebind c.names old.id o.id).map (·.2) ↔ i ∈ (c.avps.set idx o).map (·.id)
    rw [refs_rebind, hs2 i]
    constructor
    · intro hm
      obtain ⟨y, hy, he⟩ := List.mem_map.mp hm
      by_cases hy' : y = old.id
      · simp [hy'] at he; exact .inl he.symm
      · simp [hy'] at he; subst he
        exact .inr ⟨(hc.refs_iff _).mp hy, hy'⟩
    · rintro (h | ⟨h, hne⟩)
      · subst h
        exact List.mem_map.mpr ⟨old.id, (hc.refs_iff _).mpr hold, by simp⟩
      · exact List.mem_map.mpr ⟨i, (hc.refs_iff _).mpr h, by simp [hne]⟩

theorem updateKey_coherent {c c' : Cont} {old new : Key} (hc : Coherent c) (h : updateKey c old new = .ok c') :
    Coherent c' ∧ c'.avps = c.avps := by
  unfold updateKey at h
  split at h; · cases h
  rename_i hold
  split at h; · cases h
  rename_i hnew
  split at h; · cases h
  rename_i i hi
  cases h
  have hki := lookup_mem hi
  have hne : c.avps.isEmpty = false := by
    simp only [hasKey, Bool.not_eq_true, Bool.and_eq_false_iff, Bool.not_eq_false'] at hold
    cases he : c.avps.isEmpty <;> simp_all
  have hnk : new ∉ keys c := by
    simp only [hasKey, hne, Bool.not_false, Bool.true_and, Bool.not_eq_true] at hnew
    intro hm; simp [List.contains_iff_mem, hm] at hnew
  refine ⟨⟨hc.ids_nodup, ?_, ?_, ?_, hc.length_eq⟩, rfl⟩
  · simp only [keys, List.map_append, List.map_cons, List.map_nil]
    rw [List.nodup_append]
    refine ⟨List.Nodup.sublist (List.Sublist.map _ List.filter_sublist) hc.keys_nodup, by simp, ?_⟩
    intro a ha b hb; simp at hb; subst hb; intro e; subst e
    obtain ⟨p, hp, hpe⟩ := List.mem_map.mp ha
    exact hnk (List.mem_map.mpr ⟨p, (List.mem_filter.mp hp).1, hpe⟩)
  · simp only [refs, List.map_append, List.map_cons, List.map_nil]
    rw [List.nodup_append]
    refine ⟨List.Nodup.sublist (List.Sublist.map _ List.filter_sublist) hc.refs_nodup, by simp, ?_⟩
    intro a ha b hb; simp at hb; subst hb; intro e; subst e
    obtain ⟨p, hp, hpe⟩ := List.mem_map.mp ha
    obtain ⟨hpm, hpk⟩ := List.mem_filter.mp hp
    have hn := hc.refs_nodup
    simp only [refs] at hn
    have := nodup_map_inj hn hpm hki hpe
    simp only [bne_iff_ne, ne_eq] at hpk
    exact hpk (by rw [this])
  · intro j
    show j ∈ refs { avps := c.avps, names := List.filter (fun x => x.fst != old) c.names ++ [(new, i)], length := c.length } ↔ j ∈ ids c
    rw [← hc.refs_iff j]
    simp only [refs, List.map_append, List.map_cons, List.map_nil, List.mem_append, List.mem_singleton, List.mem_map,
      List.mem_filter, bne_iff_ne, ne_eq]
    constructor
    · rintro (⟨p, ⟨hp, _⟩, rfl⟩ | rfl)
      · exact ⟨p, hp, rfl⟩
      · exact ⟨(old, j), hki, rfl⟩
    · rintro ⟨p, hp, rfl⟩
      by_cases hk : p.1 = old
      · right
        have hn := hc.keys_nodup
        simp only [keys] at hn
        have := nodup_map_inj hn hp hki hk
        rw [this]
      · left; exact ⟨p, ⟨hp, hk⟩, rfl⟩

theorem updateAvp_coherent {c c' : Cont} {k : Key} {o : Obj} (hc : Coherent c) (hf : o.id ∉ ids c)
    (h : updateAvp c k o = .ok c') : Coherent c' ∧ c'.avps.length = c.avps.length := by
  unfold updateAvp at h
  split at h; · cases h
  split at h; · cases h
  rename_i idx _
  obtain ⟨h1, h2⟩ := setItem_coherent hc hf h
  exact ⟨h1, by rw [h2]; simp⟩

theorem resize_coherent {c : Cont} (hc : Coherent c) (i n : Nat) : Coherent (resize c i n) := by
  have hid : ids (resize c i n) = ids c := by
    simp only [ids, resize, refresh, List.map_map]
    apply List.map_congr_left
    intro o _; simp only [Function.comp]; split <;> rfl
  exact ⟨by rw [hid]; exact hc.ids_nodup, hc.keys_nodup, hc.refs_nodup, by intro j; rw [hid]; exact hc.refs_iff j, rfl⟩

/-- the objects an operation brings in are new to the container and pairwise distinct -/
def Op.fresh (c : Cont) (op : Op) : Prop :=
  (∀ o ∈ op.objs, o.id ∉ ids c) ∧ (op.objs.map (·.id)).Nodup

/-- every operation preserves coherence (an operation that raises leaves the container unchanged) -/
theorem apply_coherent (c : Cont) (op : Op) (hc : Coherent c) (hf : op.fresh c) : Coherent (apply c op) := by
  cases op with
  | append o =>
    simp only [apply]
    split
    · rename_i c' h; exact (append_coherent hc (hf.1 o (by simp [Op.objs])) h).1
    · exact hc
  | extend os =>
    simp only [apply]
    split
    · rename_i c' h; exact (extend_coherent os hc hf.1 hf.2 h).1
    · exact hc
  | pop k =>
    simp only [apply]
    split
    · rename_i c' h; exact (pop_coherent hc h).1
    · exact hc
  | cleanup => exact cleanup_coherent hc
  | setAvps os =>
    simp only [apply]
    split
    · rename_i c' h; exact (setAvps_coherent hc hf.2 h).1
    · exact hc
  | setItem i o =>
    simp only [apply]
    split
    · rename_i c' h; exact (setItem_coherent hc (hf.1 o (by simp [Op.objs])) h).1
    · exact hc
  | updateKey a b =>
    simp only [apply]
    split
    · rename_i c' h; exact (updateKey_coherent hc h).1
    · exact hc
  | updateAvp k o =>
    simp only [apply]
    split
    · rename_i c' h; exact (updateAvp_coherent hc (hf.1 o (by simp [Op.objs])) h).1
    · exact hc
  | refresh => exact refresh_coherent hc
  | resize i n => exact resize_coherent hc i n

/-- freshness along a whole history: each operation's objects are new w.r.t. the state it is applied to -/
def freshRun : Cont → List Op → Prop
  | _, [] => True
  | c, op :: ops => op.fresh c ∧ freshRun (apply c op) ops

/-- coherence after every operation sequence -/
theorem run_coherent : ∀ (ops : List Op) (c : Cont), Coherent c → freshRun c ops → Coherent (ops.foldl apply c)
  | [], c, hc, _ => hc
  | op :: ops, c, hc, hf => run_coherent ops (apply c op) (apply_coherent c op hc hf.1) hf.2

end BV.Container
