import BromeliaVerif.Proofs.Decode
namespace BV.Spec
open BV BV.Dict BV.Parse

mutual
  /-- re-serialising the decoded object gives the encoding of the normalised content -/
  theorem obs_dump (dict : List Entry) : ∀ t : Content, (obs dict t).avp.dump = enc (norm dict t)
    | .leaf c f v d => by
      simp only [obs, norm]
      cases hd : dispatch dict (key c v) with
      | none => simp [LAvp.avp, enc, Avp.dump_eq_encAvp]
      | some e =>
        have := dispatch_some hd
        simp only [key] at this
        simp [LAvp.avp, enc, Avp.dump_eq_encAvp, this.1, this.2]
    | .grouped c f v ks => by
      simp only [obs, norm]
      cases hd : dispatch dict (key c v) with
      | none => simp [LAvp.avp, enc, Avp.dump_eq_encAvp]
      | some e =>
        have := dispatch_some hd
        simp only [key] at this
        by_cases hk : e.kind = .grouped
        · simp only [hk, ↓reduceIte]
          show (Avp.mk e.code e.flags e.vendor ((obsList dict ks).flatMap fun k => k.avp.dump)).dump = _
          rw [Avp.dump_eq_encAvp, obsList_dump dict ks, this.1, this.2]
          simp [enc]
        · simp [hk, LAvp.avp, enc, Avp.dump_eq_encAvp, this.1, this.2]
  theorem obsList_dump (dict : List Entry) : ∀ ts : List Content,
      (obsList dict ts).flatMap (fun k => k.avp.dump) = encList (normList dict ts)
    | [] => by simp [obsList, normList, encList]
    | t :: ts => by simp [obsList, normList, encList, List.flatMap_cons, obs_dump dict t, obsList_dump dict ts]
end

mutual
  /-- under the guard (every known AVP carries its default flags) normalisation is the identity -/
  theorem norm_faithful (dict : List Entry) : ∀ t : Content, faithful dict t = true → norm dict t = t
    | .leaf c f v d, h => by
      simp only [faithful] at h
      simp only [norm]
      cases hd : dispatch dict (key c v) with
      | none => rfl
      | some e => rw [hd] at h; simp only [beq_iff_eq] at h; simp [h]
    | .grouped c f v ks, h => by
      simp only [faithful] at h
      simp only [norm]
      cases hd : dispatch dict (key c v) with
      | none => rfl
      | some e =>
        rw [hd] at h
        simp only [Bool.and_eq_true, beq_iff_eq] at h
        by_cases hk : e.kind = .grouped
        · simp only [hk, ↓reduceIte] at h ⊢
          rw [normList_faithful dict ks h.2, h.1]
        · simp only [hk, ↓reduceIte]; rw [h.1]
  theorem normList_faithful (dict : List Entry) : ∀ ts : List Content, faithfulList dict ts = true → normList dict ts = ts
    | [], _ => rfl
    | t :: ts, h => by
      simp only [faithfulList, Bool.and_eq_true] at h
      simp only [normList, norm_faithful dict t h.1, normList_faithful dict ts h.2]
end

/-! ### messages -/

structure WireMsg where
  hf : HeaderFields
  body : List Content
deriving Inhabited

def WireMsg.enc (m : WireMsg) : Bytes := encMsg m.hf m.body

def goodMsg (dict : List Entry) (m : WireMsg) : Prop :=
  m.hf.version < 256 ∧ m.hf.flags < 256 ∧ m.hf.cmd < 2 ^ 24 ∧ m.hf.app < 2 ^ 32 ∧ m.hf.hbh < 2 ^ 32 ∧ m.hf.e2e < 2 ^ 32 ∧
  goodList dict m.body = true ∧ 20 + (encList m.body).length < 2 ^ 24

/-- the decoded message object: header fields as on the wire, Message Length = size, AVPs observed -/
def obsMsg (dict : List Entry) (m : WireMsg) : LMsg :=
  { hdr := { version := m.hf.version, length := 20 + (encList m.body).length, flags := m.hf.flags,
             cmd := some m.hf.cmd, app := some m.hf.app, hbh := some m.hf.hbh, e2e := some m.hf.e2e },
    avps := obsList dict m.body }

theorem encHeader_length (h : HeaderFields) (n : Nat) : (encHeader h n).length = 20 := by
  simp [encHeader]

theorem parseHeader_enc (h : HeaderFields) (n : Nat)
    (h1 : h.version < 256) (h2 : h.flags < 256) (h3 : h.cmd < 2 ^ 24) (h4 : h.app < 2 ^ 32)
    (h5 : h.hbh < 2 ^ 32) (h6 : h.e2e < 2 ^ 32) (hn : n < 2 ^ 24) :
    parseHeader (encHeader h n) =
      { version := h.version, length := n, flags := h.flags, cmd := some h.cmd, app := some h.app,
        hbh := some h.hbh, e2e := some h.e2e } := by
  unfold parseHeader
  have e0 : encHeader h n = be 1 h.version ++ (be 3 n ++ (be 1 h.flags ++ (be 3 h.cmd ++ (be 4 h.app ++ (be 4 h.hbh ++ be 4 h.e2e))))) := by
    simp [encHeader]
  have f1 : fromBE ((encHeader h n).take 1) = h.version := by
    rw [e0, List.take_left' (by simp)]; exact fromBE_be 1 _ (by simpa using h1)
  have f2 : fromBE (((encHeader h n).drop 1).take 3) = n := by
    rw [e0, List.drop_left' (by simp), List.take_left' (by simp)]; exact fromBE_be 3 _ (by simpa using hn)
  have f3 : fromBE (((encHeader h n).drop 4).take 1) = h.flags := by
    have e : encHeader h n = (be 1 h.version ++ be 3 n) ++ (be 1 h.flags ++ (be 3 h.cmd ++ (be 4 h.app ++ (be 4 h.hbh ++ be 4 h.e2e)))) := by
      rw [e0]; simp
    rw [e, List.drop_left' (by simp), List.take_left' (by simp)]; exact fromBE_be 1 _ (by simpa using h2)
  have f4 : fromBE (((encHeader h n).drop 5).take 3) = h.cmd := by
    have e : encHeader h n = (be 1 h.version ++ be 3 n ++ be 1 h.flags) ++ (be 3 h.cmd ++ (be 4 h.app ++ (be 4 h.hbh ++ be 4 h.e2e))) := by
      rw [e0]; simp
    rw [e, List.drop_left' (by simp), List.take_left' (by simp)]; exact fromBE_be 3 _ (by simpa using h3)
  have f5 : fromBE (((encHeader h n).drop 8).take 4) = h.app := by
    have e : encHeader h n = (be 1 h.version ++ be 3 n ++ be 1 h.flags ++ be 3 h.cmd) ++ (be 4 h.app ++ (be 4 h.hbh ++ be 4 h.e2e)) := by
      rw [e0]; simp
    rw [e, List.drop_left' (by simp), List.take_left' (by simp)]; exact fromBE_be 4 _ (by simpa using h4)
  have f6 : fromBE (((encHeader h n).drop 12).take 4) = h.hbh := by
    have e : encHeader h n = (be 1 h.version ++ be 3 n ++ be 1 h.flags ++ be 3 h.cmd ++ be 4 h.app) ++ (be 4 h.hbh ++ be 4 h.e2e) := by
      rw [e0]; simp
    rw [e, List.drop_left' (by simp), List.take_left' (by simp)]; exact fromBE_be 4 _ (by simpa using h5)
  have f7 : fromBE (((encHeader h n).drop 16).take 4) = h.e2e := by
    have e : encHeader h n = (be 1 h.version ++ be 3 n ++ be 1 h.flags ++ be 3 h.cmd ++ be 4 h.app ++ be 4 h.hbh) ++ (be 4 h.e2e ++ []) := by
      rw [e0]; simp
    rw [e, List.drop_left' (by simp), List.take_left' (by simp)]; exact fromBE_be 4 _ (by simpa using h6)
  rw [f1, f2, f3, f4, f5, f6, f7]

/-- combine the first decoded message with the result for the rest -/
def consMsg (m : LMsg) (r : Except Err (List LMsg)) : Except Err (List LMsg) :=
  match r with
  | .error e => .error e
  | .ok more => .ok (m :: more)

theorem loadMsgs_nil (dict : List Entry) : loadMsgs dict [] = .ok [] := by
  rw [loadMsgs]; simp

/-- decoding one encoded message followed by any rest -/
theorem loadMsgs_enc_one (dict : List Entry) (m : WireMsg) (rest : Bytes) (hg : goodMsg dict m) :
    loadMsgs dict (m.enc ++ rest) = consMsg (obsMsg dict m) (loadMsgs dict rest) := by
  obtain ⟨h1, h2, h3, h4, h5, h6, hb, hn⟩ := hg
  have hw : m.enc = encHeader m.hf (20 + (encList m.body).length) ++ encList m.body := rfl
  have hlen : (m.enc ++ rest).length = 20 + (encList m.body).length + rest.length := by
    rw [hw]; simp [encHeader_length]; omega
  have hne : m.enc ++ rest ≠ [] := by
    intro h; have := congrArg List.length h; rw [hlen] at this; simp at this
  have htake : (m.enc ++ rest).take 20 = encHeader m.hf (20 + (encList m.body).length) := by
    rw [hw, List.append_assoc, List.take_left' (encHeader_length _ _)]
  have hph := parseHeader_enc m.hf (20 + (encList m.body).length) h1 h2 h3 h4 h5 h6 hn
  rw [loadMsgs]
  simp only [hne, ↓reduceDIte, htake, hph]
  have : ¬ (m.enc ++ rest).length < 20 := by rw [hlen]; omega
  simp only [this, ↓reduceIte]
  have : ¬ (20 + (encList m.body).length < 20) := by omega
  simp only [this, ↓reduceDIte]
  have hbody : ((m.enc ++ rest).take (20 + (encList m.body).length)).drop 20 = encList m.body := by
    have : 20 + (encList m.body).length = m.enc.length := by rw [hw]; simp [encHeader_length]
    rw [this, List.take_left' rfl, hw, List.drop_left' (encHeader_length _ _)]
  have hrest : (m.enc ++ rest).drop (20 + (encList m.body).length) = rest := by
    have : 20 + (encList m.body).length = m.enc.length := by rw [hw]; simp [encHeader_length]
    rw [this, List.drop_left' rfl]
  rw [hbody, hrest, load_enc_list dict m.body hb]
  simp only [obsMsg, consMsg]
  cases loadMsgs dict rest <;> rfl

/-- every stream of concatenated good messages decodes to exactly one object per message, in order -/
theorem loadMsgs_enc (dict : List Entry) : ∀ ms : List WireMsg, (∀ m ∈ ms, goodMsg dict m) →
    loadMsgs dict (ms.flatMap WireMsg.enc) = .ok (ms.map (obsMsg dict))
  | [], _ => by simp [loadMsgs_nil]
  | m :: ms, h => by
    simp only [List.flatMap_cons, List.map_cons]
    rw [loadMsgs_enc_one dict m _ (h m (by simp)), loadMsgs_enc dict ms (fun x hx => h x (by simp [hx]))]
    rfl

/-- re-serialising a decoded message gives the encoding of the normalised content -/
theorem obsMsg_dump (dict : List Entry) (m : WireMsg) :
    (obsMsg dict m).dump = encMsg m.hf (normList dict m.body) ∨
    (obsMsg dict m).dump = encHeader m.hf (20 + (encList m.body).length) ++ encList (normList dict m.body) := by
  right
  simp only [LMsg.dump, obsMsg, obsList_dump]
  simp [Header.dump, Header.optBE, encHeader]

end BV.Spec
