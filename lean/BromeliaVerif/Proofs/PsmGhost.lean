import BromeliaVerif.Model.PsmPrims
/-! The ghost fields of the hand model (`cexOk`, `answered`) are written but never read by `run()` / `get_next_state` /
the environment actions: behaviour is invariant under `erase`. Static (independent of /repo). -/
namespace BV.PsmGhost
open BV.Psm BV.PsmT

set_option linter.unusedSimpArgs false

def reghost (n : Node) (c : Bool) (a : List PMsg) : Node := { n with cexOk := c, answered := a }

theorem erase_eq_iff (a b : Node) : erase a = erase b ↔ b = reghost a b.cexOk b.answered := by
  rcases a with ⟨r1, s1, ru1, ac1, t1, rq1, sq1, e1, d1, st1, re1, c1, an1⟩
  rcases b with ⟨r2, s2, ru2, ac2, t2, rq2, sq2, e2, d2, st2, re2, c2, an2⟩
  simp [erase, reghost]
  constructor
  · rintro ⟨h1, h2, h3, h4, h5, h6, h7, h8, h9, h10, h11⟩; simp_all
  · rintro ⟨h1, h2, h3, h4, h5, h6, h7, h8, h9, h10, h11⟩; simp_all

macro "ghost_simp" : tactic => `(tactic|
  simp [reghost, runState, runClosed, runWaitConnAck, connAttempt, connRecv, runWaitICEA, runOpen, openRecv, runClosing,
      trackEvents, peerGone, connected, forceStop, answer, send, flush, erase])

macro "ghost_msg" : tactic => `(tactic| (
      rename_i m rest
      rcases m with ⟨kind, valid, okAddr, hbh, e2e, id⟩
      cases kind <;> cases valid <;> cases okAddr <;> ghost_simp))

set_option maxHeartbeats 2000000 in
theorem runState_ghost (n : Node) (c : Bool) (a : List PMsg) :
    erase (runState (reghost n c a)).1 = erase (runState n).1 ∧ (runState (reghost n c a)).2 = (runState n).2 := by
  rcases n with ⟨role, st, running, active, tr, recvq, sendq, emitted, delivered, stopThreads, released, cexOk, answered⟩
  cases st
  · cases role <;> cases recvq <;> try ghost_simp
    all_goals ghost_msg
  · rcases tr with _ | ⟨c1, c2, pg, idle⟩
    · cases recvq <;> try ghost_simp
      all_goals ghost_msg
    · cases c1 <;> cases c2 <;> cases recvq <;> try ghost_simp
      all_goals ghost_msg
  · rcases tr with _ | ⟨c1, c2, pg, idle⟩
    · cases recvq <;> try ghost_simp
      all_goals ghost_msg
    · cases pg <;> cases recvq <;> try ghost_simp
      all_goals ghost_msg
  · rcases tr with _ | ⟨c1, c2, pg, idle⟩
    · cases active <;> cases sendq <;> cases recvq <;> try ghost_simp
      all_goals ghost_msg
    · cases pg <;> cases idle <;> cases active <;> cases sendq <;> cases recvq <;> try ghost_simp
      all_goals ghost_msg
  · ghost_simp
  · ghost_simp
  · rcases tr with _ | ⟨c1, c2, pg, idle⟩
    · cases recvq <;> try ghost_simp
      all_goals ghost_msg
    · cases pg <;> cases recvq <;> try ghost_simp
      all_goals ghost_msg

theorem goto_ghost (n : Node) (c : Bool) (a : List PMsg) (cur nxt : St) :
    erase (goto (reghost n c a) cur nxt) = erase (goto n cur nxt) := by
  unfold goto reghost erase
  split <;> rfl

theorem erase_goto_congr (x y : Node) (cur nxt : St) (h : erase x = erase y) :
    erase (goto x cur nxt) = erase (goto y cur nxt) := by
  rw [(erase_eq_iff x y).1 h, goto_ghost]

theorem tick_congr (x y : Node) (h : erase x = erase y) : erase (tick x) = erase (tick y) := by
  have hy := (erase_eq_iff x y).1 h
  have h1 := runState_ghost x y.cexOk y.answered
  rw [← hy] at h1
  have hrun : y.running = x.running := by rw [hy]; rfl
  have hst : y.st = x.st := by rw [hy]; rfl
  unfold tick
  rw [hrun, hst, h1.2]
  split
  · exact h
  · exact (erase_goto_congr _ _ _ _ h1.1).symm

theorem apply_congr (x y : Node) (e : Ev) (h : erase x = erase y) : erase (apply x e) = erase (apply y e) := by
  cases e with
  | tick => exact tick_congr x y h
  | submit id =>
    rw [(erase_eq_iff x y).1 h]
    have hc : connected (reghost x y.cexOk y.answered) = connected x := rfl
    simp only [apply, hc]
    cases connected x <;> simp [reghost, erase]
  | restart =>
    rw [(erase_eq_iff x y).1 h]
    have h1 : (reghost x y.cexOk y.answered).st = x.st := rfl
    have h2 : (reghost x y.cexOk y.answered).running = x.running := rfl
    simp only [apply, h1, h2]
    split <;> simp [reghost, erase, init]
  | _ =>
    rw [(erase_eq_iff x y).1 h]
    simp [apply, reghost, updTr, erase]

end BV.PsmGhost
