import BromeliaVerif.Model.Msg
import BromeliaVerif.Spec.Rfc6733
namespace BV
open BV.Spec

theorem pyPadding_eq (a : Avp) : a.pyPadding = List.replicate (padLen a.data.length) 0 := by
  unfold Avp.pyPadding padLen
  by_cases h : a.data = []
  · simp [h]
  · have : a.data.isEmpty = false := by cases hd : a.data <;> simp_all
    simp only [this, Bool.false_eq_true, ↓reduceIte]
    split
    · congr 1; omega
    · have : (4 - a.data.length % 4) % 4 = 0 := by omega
      simp [this]

theorem pyPadding_length (a : Avp) : a.pyPadding.length = padLen a.data.length := by
  rw [pyPadding_eq]; simp

theorem data_if_empty (d : Bytes) : (if d.isEmpty then [] else d) = d := by
  cases d <;> simp

theorem hdrLen_eq (a : Avp) : a.hdrLen = (match a.vendor with | some _ => 12 | none => 8) := by
  unfold Avp.hdrLen; cases a.vendor <;> simp

/-- the serialiser as coded equals the RFC reference encoder on the same fields -/
theorem Avp.dump_eq_encAvp (a : Avp) : a.dump = encAvp a.code a.flags a.vendor a.data := by
  unfold Avp.dump encAvp Avp.len
  rw [pyPadding_eq, data_if_empty, hdrLen_eq]
  cases a.vendor <;> rfl

theorem Avp.dump_length (a : Avp) : a.dump.length = a.hdrLen + a.data.length + padLen a.data.length := by
  rw [Avp.dump_eq_encAvp, hdrLen_eq]; unfold encAvp
  cases a.vendor <;> simp <;> omega

theorem Avp.paddedLen_eq (a : Avp) : a.paddedLen = a.dump.length := by
  rw [Avp.dump_length]; unfold Avp.paddedLen Avp.len; rw [pyPadding_length]

theorem padded_mod4 (n : Nat) : (n + padLen n) % 4 = 0 := by unfold padLen; omega

theorem Avp.dump_length_mod4 (a : Avp) : a.dump.length % 4 = 0 := by
  rw [Avp.dump_length]; unfold Avp.hdrLen padLen; split <;> omega

theorem flatMap_dump_length (as : List Avp) : (as.flatMap Avp.dump).length = (as.map Avp.paddedLen).sum := by
  induction as with
  | nil => rfl
  | cons a as ih => simp [List.flatMap_cons, ih, Avp.paddedLen_eq]

theorem flatMap_dump_mod4 (as : List Avp) : (as.flatMap Avp.dump).length % 4 = 0 := by
  induction as with
  | nil => rfl
  | cons a as ih =>
    simp only [List.flatMap_cons, List.length_append]
    have := Avp.dump_length_mod4 a; omega

end BV
