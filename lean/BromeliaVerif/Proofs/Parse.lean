import BromeliaVerif.Model.Parse
import BromeliaVerif.Proofs.Avp
namespace BV.Parse
open BV BV.Dict BV.Spec

theorem readN_append' (n : Nat) (a r : Bytes) (h : a.length = n) : readN n (a ++ r) = some (a, r) := by
  subst h; simp [readN]

theorem padLen_add8 (n : Nat) : padLen (8 + n) = padLen n := by unfold padLen; omega
theorem padLen_add12 (n : Nat) : padLen (12 + n) = padLen n := by unfold padLen; omega

/-- one AVP: parsing its dump (followed by anything) gives back exactly its fields and the rest -/
theorem parseOne_dump (a : Avp) (rest : Bytes) (h : a.WF) :
    parseOne (a.dump ++ rest) = .ok (a, rest) := by
  obtain ⟨hc, hf, hv, hvend, hlen⟩ := h
  rw [Avp.dump_eq_encAvp]
  rcases a with ⟨code, flags, vendor, data⟩
  simp only [Avp.len, Avp.hdrLen] at hc hf hv hvend hlen
  cases vendor with
  | none =>
    simp only [Option.isSome_none] at hv
    simp only [Option.isSome_none, Bool.false_eq_true, ↓reduceIte] at hlen
    simp only [encAvp, List.nil_append, List.append_assoc]
    unfold parseOne
    rw [readN_append' 4 _ _ (by simp)]; simp only
    rw [readN_append' 1 _ _ (by simp)]; simp only
    rw [readN_append' 3 _ _ (by simp)]; simp only
    rw [fromBE_be 1 _ (by omega), fromBE_be 3 _ (by omega), fromBE_be 4 _ (by omega), hv]
    simp only [Bool.false_eq_true, ↓reduceIte]
    have : ¬ (8 + data.length < 8) := by omega
    simp only [this, ↓reduceIte]
    rw [readN_append' _ _ _ (by omega)]; simp only
    rw [padLen_add8]
    simp
  | some v =>
    simp only [Option.isSome_some] at hv
    simp only [Option.isSome_some, ↓reduceIte] at hlen
    simp only [Option.getD_some] at hvend
    simp only [encAvp, List.append_assoc]
    unfold parseOne
    rw [readN_append' 4 _ _ (by simp)]; simp only
    rw [readN_append' 1 _ _ (by simp)]; simp only
    rw [readN_append' 3 _ _ (by simp)]; simp only
    rw [fromBE_be 1 _ (by omega), fromBE_be 3 _ (by omega), fromBE_be 4 _ (by omega), hv]
    simp only [↓reduceIte]
    rw [readN_append' 4 _ _ (by simp)]; simp only
    have : ¬ (12 + data.length < 12) := by omega
    simp only [this, ↓reduceIte]
    rw [readN_append' _ _ _ (by omega)]; simp only
    rw [padLen_add12, fromBE_be 4 _ (by omega)]
    simp

theorem dump_ne_nil (a : Avp) : a.dump ≠ [] := by
  intro h
  have := congrArg List.length h
  rw [Avp.dump_length] at this
  unfold Avp.hdrLen at this; split at this <;> simp at this

/-- combine the result for the first AVP with the result for the rest of the stream -/
def consRes (a : LAvp) (r : Except Err (List LAvp)) : Except Err (List LAvp) :=
  match r with
  | .error e => .error e
  | .ok more => .ok (a :: more)

/-- unfolding of the well-founded definition at a non-empty stream whose first AVP parses -/
theorem loadAvps_step (dict : List Entry) (s : Bytes) (raw : Avp) (rest : Bytes)
    (hs : s ≠ []) (hp : parseOne s = .ok (raw, rest)) :
    loadAvps dict s =
      match materialise dict raw (fun _ => loadAvps dict raw.data) with
      | .error er => .error er
      | .ok a => consRes a (loadAvps dict rest) := by
  rw [loadAvps]
  simp only [hs, ↓reduceDIte]
  split
  · rename_i e he; rw [hp] at he; cases he
  · rename_i raw' rest' he
    rw [hp] at he
    simp only [Except.ok.injEq, Prod.mk.injEq] at he
    obtain ⟨rfl, rfl⟩ := he
    cases materialise dict raw fun _ => loadAvps dict raw.data with
    | error e => rfl
    | ok a => simp only [consRes]; cases loadAvps dict rest <;> rfl

theorem loadAvps_nil (dict : List Entry) : loadAvps dict [] = .ok [] := by
  rw [loadAvps]; simp

theorem loadAvps_error (dict : List Entry) (s : Bytes) (e : Err) (hs : s ≠ []) (hp : parseOne s = .error e) :
    loadAvps dict s = .error e := by
  rw [loadAvps]
  simp only [hs, ↓reduceDIte]
  split
  · rename_i e' he; rw [hp] at he; cases he; rfl
  · rename_i he; rw [hp] at he; cases he

end BV.Parse
