import BromeliaVerif.Model.Pending
/-! C14 — a waiting sender gets its own answer, matched by Hop-by-Hop id, and always wakes.
Over the model of the rendezvous (`Model/Pending.lean`): any number of callers, any number of
answers per identifier (duplicates), stray answers, every interleaving of callers and answer-dispatch
threads at the granularity of single synchronisation operations. -/
namespace BV.C14
open BV.Pending

def early : DPc → Bool | .check | .found | .fetched | .dropped | .crashed => true | _ => false
def hasNotified : DPc → Bool | .notified | .released | .done => true | _ => false
def lost : DPc → Bool | .dropped | .crashed => true | _ => false
def finished : DPc → Bool | .done | .dropped | .crashed => true | _ => false
def isAnswer : Slot → Bool | .answer _ => true | .request => false
def afterWait : CPc → Bool | .woke | .cleared | .stopSet | .done => true | _ => false
def stopped : CPc → Bool | .stopSet | .done => true | _ => false

/-- invariant of one record -/
structure LInv (r : Rec) : Prop where
  unsent_quiet : r.sent = false → r.disp = [] ∧ r.recv = false ∧ r.slot = .request
  reg_start : r.cpc = .start → r.reg = false
  reg_until_stop : r.cpc ≠ .start → r.stop = false → r.reg = true
  stop_iff : r.stop = stopped r.cpc
  lost_after_stop : r.disp.any lost = true → r.stop = true
  released_after_stop : r.disp.any (· == .released) = true → r.stop = true
  request_slot : r.slot = .request → r.disp.all early = true ∧ r.recv = false ∧ afterWait r.cpc = false
  notified_wakes : r.disp.any hasNotified = true → r.cpc = .waiting → r.recv = true
  result_done : r.result.isSome = (r.cpc == .done)
  result_answer : ∀ v, r.result = some v → isAnswer v = true

theorem linv_init : LInv Rec.init := by
  constructor <;> simp [Rec.init, Rec.sent, stopped, afterWait]

theorem all_set {p : DPc → Bool} : ∀ (l : List DPc) (j : Nat) (x : DPc), l.all p = true → p x = true → (l.set j x).all p = true := by
  intro l
  induction l with
  | nil => intro j x h _; simpa using h
  | cons a as ih =>
    intro j x h hx
    simp only [List.all_cons, Bool.and_eq_true] at h
    cases j with
    | zero => simp [List.set, hx, h.2]
    | succ k => simp only [List.set_cons_succ, List.all_cons, Bool.and_eq_true]; exact ⟨h.1, ih k x h.2 hx⟩

theorem any_set {q : DPc → Bool} : ∀ (l : List DPc) (j : Nat) (x : DPc), (l.set j x).any q = true → q x = true ∨ l.any q = true := by
  intro l
  induction l with
  | nil => intro j x h; simp at h
  | cons a as ih =>
    intro j x h
    cases j with
    | zero =>
      simp only [List.set_cons_zero, List.any_cons, Bool.or_eq_true] at h ⊢
      rcases h with h | h
      · exact .inl h
      · exact .inr (.inr h)
    | succ k =>
      simp only [List.set_cons_succ, List.any_cons, Bool.or_eq_true] at h ⊢
      rcases h with h | h
      · exact .inr (.inl h)
      · rcases ih k x h with h | h
        · exact .inl h
        · exact .inr (.inr h)

theorem any_of_get {q : DPc → Bool} : ∀ (l : List DPc) (j : Nat) (d : DPc), l[j]? = some d → q d = true → l.any q = true := by
  intro l j d h hq
  exact List.any_eq_true.mpr ⟨d, List.mem_of_getElem? h, hq⟩

theorem all_get {p : DPc → Bool} (l : List DPc) (j : Nat) (d : DPc) (h : l[j]? = some d) (ha : l.all p = true) : p d = true :=
  List.all_eq_true.mp ha d (List.mem_of_getElem? h)

theorem rd_step {r : Rec} (hi : LInv r) {a b : CPc} (hc : r.cpc = a) (ha : a ≠ .done) (hb : b ≠ .done) :
    r.result.isSome = (b == .done) := by
  have h0 := hi.result_done
  rw [hc] at h0
  rw [h0]
  cases a <;> cases b <;> first | (exfalso; exact ha rfl) | (exfalso; exact hb rfl) | decide

theorem caller_inv (r r' : Rec) (h : callerStep r = some r') (hi : LInv r) : LInv r' := by
  unfold callerStep at h
  cases hc : r.cpc <;> simp only [hc] at h
  · -- start → registered
    cases h
    have hs : r.sent = false := by simp [Rec.sent, hc]
    obtain ⟨h1, h2, h3⟩ := hi.unsent_quiet hs
    have hst : r.stop = false := by have := hi.stop_iff; simpa [hc, stopped] using this
    refine ⟨fun _ => ⟨h1, h2, h3⟩, by simp, fun _ _ => rfl, by simpa [stopped] using hst, ?_, ?_, ?_, ?_,
      rd_step hi hc (by simp) (by simp), hi.result_answer⟩
    · intro h; simp [h1] at h
    · intro h; simp [h1] at h
    · intro _; exact ⟨by simp [h1], h2, by simp [afterWait]⟩
    · intro h; simp [h1] at h
  · -- registered → waiting
    cases h
    have hs : r.sent = false := by simp [Rec.sent, hc]
    obtain ⟨h1, h2, h3⟩ := hi.unsent_quiet hs
    have hst : r.stop = false := by have := hi.stop_iff; simpa [hc, stopped] using this
    have hreg := hi.reg_until_stop (by simp [hc]) hst
    refine ⟨by simp [Rec.sent], by simp, fun _ _ => hreg, by simpa [stopped] using hst, ?_, ?_, ?_, ?_,
      rd_step hi hc (by simp) (by simp), hi.result_answer⟩
    · intro h; simp [h1] at h
    · intro h; simp [h1] at h
    · intro _; exact ⟨by simp [h1], h2, by simp [afterWait]⟩
    · intro h; simp [h1] at h
  · -- waiting → woke (needs recv)
    split at h
    · rename_i hrecv
      cases h
      have hst : r.stop = false := by have := hi.stop_iff; simpa [hc, stopped] using this
      have hslot : r.slot ≠ .request := by
        intro e; have := (hi.request_slot e).2.1; simp [hrecv] at this
      refine ⟨by simp [Rec.sent], by simp, ?_, by simpa [stopped] using hst, hi.lost_after_stop, hi.released_after_stop, ?_, by simp,
        rd_step hi hc (by simp) (by simp), hi.result_answer⟩
      · intro _ hs; exact hi.reg_until_stop (by simp [hc]) hs
      · intro e; exact absurd e hslot
    · cases h
  · -- woke → cleared
    cases h
    have hst : r.stop = false := by have := hi.stop_iff; simpa [hc, stopped] using this
    have hslot : r.slot ≠ .request := by
      intro e; have := (hi.request_slot e).2.2; simp [hc, afterWait] at this
    refine ⟨by simp [Rec.sent], by simp, ?_, by simpa [stopped] using hst, hi.lost_after_stop, hi.released_after_stop, ?_, by simp,
      rd_step hi hc (by simp) (by simp), hi.result_answer⟩
    · intro _ hs; exact hi.reg_until_stop (by simp [hc]) hs
    · intro e; exact absurd e hslot
  · -- cleared → stopSet
    cases h
    have hslot : r.slot ≠ .request := by
      intro e; have := (hi.request_slot e).2.2; simp [hc, afterWait] at this
    refine ⟨by simp [Rec.sent], by simp, by simp, by simp [stopped], by simp, by simp, ?_, by simp,
      rd_step hi hc (by simp) (by simp), hi.result_answer⟩
    · intro e; exact absurd e hslot
  · -- stopSet → done
    cases h
    have hst : r.stop = true := by have := hi.stop_iff; simpa [hc, stopped] using this
    have hslot : r.slot ≠ .request := by
      intro e; have := (hi.request_slot e).2.2; simp [hc, afterWait] at this
    refine ⟨by simp [Rec.sent], by simp, ?_, by simpa [stopped] using hst, hi.lost_after_stop, hi.released_after_stop, ?_, by simp, by simp, ?_⟩
    · intro _ hs; simp [hst] at hs
    · intro e; exact absurd e hslot
    · intro v hv
      simp only [Option.some.injEq] at hv
      subst hv
      cases hsl : r.slot with
      | request => exact absurd hsl hslot
      | answer k => rfl
  · cases h

theorem arrive_inv (r : Rec) (hs : r.sent = true) (hi : LInv r) : LInv { r with disp := r.disp ++ [.check] } := by
  have hsent : ({ r with disp := r.disp ++ [.check] } : Rec).sent = true := hs
  refine ⟨?_, hi.reg_start, hi.reg_until_stop, hi.stop_iff, ?_, ?_, ?_, ?_, hi.result_done, hi.result_answer⟩
  · intro h; rw [hsent] at h; cases h
  · intro h
    exact hi.lost_after_stop (by simpa [List.any_append, lost] using h)
  · intro h
    exact hi.released_after_stop (by simpa [List.any_append] using h)
  · intro e
    obtain ⟨h1, h2, h3⟩ := hi.request_slot e
    exact ⟨by simp [List.all_append, h1, early], h2, h3⟩
  · intro h
    exact hi.notified_wakes (by simpa [List.any_append, hasNotified] using h)

theorem disp_inv (r r' : Rec) (j : Nat) (h : dispStep r j = some r') (hi : LInv r) : LInv r' := by
  unfold dispStep at h
  cases hd : r.disp[j]? with
  | none => simp [hd] at h
  | some pc =>
    have hne : r.disp ≠ [] := by intro e; simp [e] at hd
    have hsent : r.sent = true := by
      cases hs : r.sent with
      | true => rfl
      | false => exact absurd (hi.unsent_quiet hs).1 hne
    have hnstart : r.cpc ≠ .start := by intro e; simp [Rec.sent, e] at hsent
    simp only [hd] at h
    cases pc <;> simp only at h
    · -- check
      cases h
      refine ⟨?_, hi.reg_start, hi.reg_until_stop, hi.stop_iff, ?_, ?_, ?_, ?_, hi.result_done, hi.result_answer⟩
      · intro hs; rw [show ({ r with disp := r.disp.set j (if r.reg = true then DPc.found else DPc.dropped) } : Rec).sent = r.sent from rfl, hsent] at hs; cases hs
      · intro ha
        rcases any_set _ _ _ ha with hx | hx
        · by_cases hreg : r.reg = true
          · simp [hreg, lost] at hx
          · cases hst : r.stop with
            | true => rfl
            | false => exact absurd (hi.reg_until_stop hnstart hst) hreg
        · exact hi.lost_after_stop hx
      · intro ha
        rcases any_set _ _ _ ha with hx | hx
        · split at hx <;> simp at hx
        · exact hi.released_after_stop hx
      · intro e
        obtain ⟨h1, h2, h3⟩ := hi.request_slot e
        exact ⟨all_set _ _ _ h1 (by split <;> rfl), h2, h3⟩
      · intro ha
        rcases any_set _ _ _ ha with hx | hx
        · split at hx <;> simp [hasNotified] at hx
        · exact hi.notified_wakes hx
    · -- found (get_pending_answer)
      cases h
      refine ⟨?_, hi.reg_start, hi.reg_until_stop, hi.stop_iff, ?_, ?_, ?_, ?_, hi.result_done, hi.result_answer⟩
      · intro hs; rw [show ({ r with disp := r.disp.set j (if r.reg = true then DPc.fetched else DPc.crashed) } : Rec).sent = r.sent from rfl, hsent] at hs; cases hs
      · intro ha
        rcases any_set _ _ _ ha with hx | hx
        · by_cases hreg : r.reg = true
          · simp [hreg, lost] at hx
          · cases hst : r.stop with
            | true => rfl
            | false => exact absurd (hi.reg_until_stop hnstart hst) hreg
        · exact hi.lost_after_stop hx
      · intro ha
        rcases any_set _ _ _ ha with hx | hx
        · split at hx <;> simp at hx
        · exact hi.released_after_stop hx
      · intro e
        obtain ⟨h1, h2, h3⟩ := hi.request_slot e
        exact ⟨all_set _ _ _ h1 (by split <;> rfl), h2, h3⟩
      · intro ha
        rcases any_set _ _ _ ha with hx | hx
        · split at hx <;> simp [hasNotified] at hx
        · exact hi.notified_wakes hx
    · -- fetched (update_msg)
      cases h
      refine ⟨?_, hi.reg_start, hi.reg_until_stop, hi.stop_iff, ?_, ?_, ?_, ?_, hi.result_done, hi.result_answer⟩
      · intro hs; rw [show ({ r with slot := Slot.answer j, disp := r.disp.set j DPc.updated } : Rec).sent = r.sent from rfl, hsent] at hs; cases hs
      · intro ha
        rcases any_set _ _ _ ha with hx | hx
        · simp [lost] at hx
        · exact hi.lost_after_stop hx
      · intro ha
        rcases any_set _ _ _ ha with hx | hx
        · simp at hx
        · exact hi.released_after_stop hx
      · intro e; cases e
      · intro ha
        rcases any_set _ _ _ ha with hx | hx
        · simp [hasNotified] at hx
        · exact hi.notified_wakes hx
    · -- updated → notified (recv.set)
      cases h
      have hslot : r.slot ≠ .request := by
        intro e
        have := all_get _ _ _ hd (hi.request_slot e).1
        simp [early] at this
      refine ⟨?_, hi.reg_start, hi.reg_until_stop, hi.stop_iff, ?_, ?_, ?_, ?_, hi.result_done, hi.result_answer⟩
      · intro hs; rw [show ({ r with recv := true, disp := r.disp.set j DPc.notified } : Rec).sent = r.sent from rfl, hsent] at hs; cases hs
      · intro ha
        rcases any_set _ _ _ ha with hx | hx
        · simp [lost] at hx
        · exact hi.lost_after_stop hx
      · intro ha
        rcases any_set _ _ _ ha with hx | hx
        · simp at hx
        · exact hi.released_after_stop hx
      · intro e; exact absurd e hslot
      · intro _ _; rfl
    · -- notified → released (needs stop)
      split at h
      · rename_i hstop
        cases h
        have hslot : r.slot ≠ .request := by
          intro e
          have := all_get _ _ _ hd (hi.request_slot e).1
          simp [early] at this
        refine ⟨?_, hi.reg_start, hi.reg_until_stop, hi.stop_iff, fun _ => hstop, fun _ => hstop, ?_, ?_, hi.result_done, hi.result_answer⟩
        · intro hs; rw [show ({ r with disp := r.disp.set j DPc.released } : Rec).sent = r.sent from rfl, hsent] at hs; cases hs
        · intro e; exact absurd e hslot
        · intro _ hw
          have h0 := hi.stop_iff
          rw [hstop] at h0
          change r.cpc = .waiting at hw
          rw [hw] at h0
          simp [stopped] at h0
      · cases h
    · -- released → done (pop)
      cases h
      have hstop : r.stop = true := hi.released_after_stop (any_of_get _ _ _ hd (by simp))
      have hslot : r.slot ≠ .request := by
        intro e
        have := all_get _ _ _ hd (hi.request_slot e).1
        simp [early] at this
      refine ⟨?_, ?_, ?_, hi.stop_iff, fun _ => hstop, fun _ => hstop, ?_, ?_, hi.result_done, hi.result_answer⟩
      · intro hs; rw [show ({ r with reg := false, disp := r.disp.set j DPc.done } : Rec).sent = r.sent from rfl, hsent] at hs; cases hs
      · intro _; rfl
      · intro _ hs; simp [hstop] at hs
      · intro e; exact absurd e hslot
      · intro _ hw
        have h0 := hi.stop_iff
        rw [hstop] at h0
        change r.cpc = .waiting at hw
        rw [hw] at h0
        simp [stopped] at h0
    · cases h
    · cases h
    · cases h

def Inv (s : Sys) : Prop := ∀ r ∈ s, LInv r

theorem updAt_inv (s : Sys) (i : Nat) (f : Rec → Option Rec) (hf : ∀ r r', f r = some r' → LInv r → LInv r') (h : Inv s) :
    Inv (updAt s i f) := by
  unfold updAt
  cases hg : s[i]? with
  | none => exact h
  | some r =>
    simp only
    cases hfr : f r with
    | none => exact h
    | some r' =>
      simp only
      intro x hx
      rcases List.mem_or_eq_of_mem_set hx with hx | hx
      · exact h x hx
      · subst hx; exact hf r _ hfr (h r (List.mem_of_getElem? hg))

theorem act_inv (s : Sys) (a : Act) (h : Inv s) : Inv (act s a) := by
  cases a with
  | caller i => exact updAt_inv s i _ caller_inv h
  | arrive i =>
    refine updAt_inv s i _ ?_ h
    intro r r' hf hi
    split at hf
    · cases hf; rename_i hs; exact arrive_inv r hs hi
    · cases hf
  | disp i j => exact updAt_inv s i _ (fun r r' hf hi => disp_inv r r' j hf hi) h
  | newRequest =>
    intro r hr
    simp only [act, List.mem_append, List.mem_singleton] at hr
    rcases hr with hr | rfl
    · exact h r hr
    · exact linv_init
  | stray => exact h

theorem reachable_inv (as : List Act) : Inv (run as) := by
  unfold run
  suffices ∀ s, Inv s → Inv (as.foldl act s) from this [] (by intro r hr; cases hr)
  induction as with
  | nil => intro s h; exact h
  | cons a rest ih => intro s h; exact ih _ (act_inv s a h)

/-- the slot (and a returned result) refers to an answer that has actually arrived -/
structure BInv (r : Rec) : Prop where
  slot_lt : ∀ k, r.slot = .answer k → k < r.disp.length
  res_lt : ∀ k, r.result = some (.answer k) → k < r.disp.length

theorem caller_binv (r r' : Rec) (h : callerStep r = some r') (hi : BInv r) : BInv r' := by
  unfold callerStep at h
  cases hc : r.cpc <;> simp only [hc] at h
  · cases h; exact ⟨hi.slot_lt, hi.res_lt⟩
  · cases h; exact ⟨hi.slot_lt, hi.res_lt⟩
  · split at h
    · cases h; exact ⟨hi.slot_lt, hi.res_lt⟩
    · cases h
  · cases h; exact ⟨hi.slot_lt, hi.res_lt⟩
  · cases h; exact ⟨hi.slot_lt, hi.res_lt⟩
  · cases h
    refine ⟨hi.slot_lt, ?_⟩
    intro k hk
    simp only [Option.some.injEq] at hk
    exact hi.slot_lt k hk
  · cases h

theorem disp_binv (r r' : Rec) (j : Nat) (h : dispStep r j = some r') (hi : BInv r) : BInv r' := by
  unfold dispStep at h
  cases hd : r.disp[j]? with
  | none => simp [hd] at h
  | some pc =>
    have hlt : j < r.disp.length := by
      rcases List.getElem?_eq_some_iff.mp hd with ⟨h, _⟩; exact h
    simp only [hd] at h
    cases pc <;> simp only at h
    · cases h; exact ⟨by simpa using hi.slot_lt, by simpa using hi.res_lt⟩
    · cases h; exact ⟨by simpa using hi.slot_lt, by simpa using hi.res_lt⟩
    · cases h
      refine ⟨?_, by simpa using hi.res_lt⟩
      intro k hk
      simp only [Slot.answer.injEq] at hk
      subst hk; simpa using hlt
    · cases h; exact ⟨by simpa using hi.slot_lt, by simpa using hi.res_lt⟩
    · split at h
      · cases h; exact ⟨by simpa using hi.slot_lt, by simpa using hi.res_lt⟩
      · cases h
    · cases h; exact ⟨by simpa using hi.slot_lt, by simpa using hi.res_lt⟩
    · cases h
    · cases h
    · cases h

theorem reachable_binv (as : List Act) : ∀ r ∈ run as, BInv r := by
  unfold run
  suffices ∀ s : Sys, (∀ r ∈ s, BInv r) → ∀ r ∈ as.foldl act s, BInv r from this [] (by intro r hr; cases hr)
  induction as with
  | nil => intro s h; exact h
  | cons a rest ih =>
    intro s h
    apply ih
    have upd : ∀ (i : Nat) (f : Rec → Option Rec), (∀ r r', f r = some r' → BInv r → BInv r') → ∀ r ∈ updAt s i f, BInv r := by
      intro i f hf
      unfold updAt
      cases hg : s[i]? with
      | none => exact h
      | some r0 =>
        simp only
        cases hfr : f r0 with
        | none => exact h
        | some r' =>
          simp only
          intro x hx
          rcases List.mem_or_eq_of_mem_set hx with hx | hx
          · exact h x hx
          · subst hx; exact hf r0 _ hfr (h r0 (List.mem_of_getElem? hg))
    cases a with
    | caller i => exact upd i _ caller_binv
    | arrive i =>
      refine upd i _ ?_
      intro r r' hf hi
      split at hf
      · cases hf
        exact ⟨fun k hk => by have := hi.slot_lt k hk; simp; omega, fun k hk => by have := hi.res_lt k hk; simp; omega⟩
      · cases hf
    | disp i j => exact upd i _ (fun r r' hf hi => disp_binv r r' j hf hi)
    | newRequest =>
      intro r hr
      simp only [act, List.mem_append, List.mem_singleton] at hr
      rcases hr with hr | rfl
      · exact h r hr
      · exact ⟨by simp [Rec.init], by simp [Rec.init]⟩
    | stray => exact h

/-! ### the statement's clauses, for every interleaving, any number of callers and answers -/

/-- a caller that returns is given an answer that arrived for ITS identifier (records are keyed by the
    Hop-by-Hop identifier; `answer k` is the k-th answer that arrived carrying it) — never the
    request object it sent, never nothing -/
theorem returns_own_answer (as : List Act) (r : Rec) (hr : r ∈ run as) (v : Slot) (hv : r.result = some v) :
    ∃ k, v = .answer k ∧ k < r.disp.length := by
  have h1 := (reachable_inv as r hr).result_answer v hv
  cases v with
  | request => simp [isAnswer] at h1
  | answer k => exact ⟨k, rfl, (reachable_binv as r hr).res_lt k hv⟩

/-- no answer is lost while its caller waits: as long as the caller has not been released
    (`stop_event` not yet set) the registry holds its entry, so a dispatch thread checking it finds it -/
theorem waiting_caller_is_registered (as : List Act) (r : Rec) (hr : r ∈ run as)
    (hw : r.cpc = .registered ∨ r.cpc = .waiting ∨ r.cpc = .woke ∨ r.cpc = .cleared) : r.reg = true := by
  have hi := reachable_inv as r hr
  have hst := hi.stop_iff
  apply hi.reg_until_stop
  · rcases hw with h | h | h | h <;> simp [h]
  · rcases hw with h | h | h | h <;> simpa [h, stopped] using hst

/-- no dispatch thread drops an answer (or fails on a missing entry) before the caller has been woken
    and has released it -/
theorem no_drop_before_release (as : List Act) (r : Rec) (hr : r ∈ run as) (h : r.disp.any lost = true) :
    r.cpc = .stopSet ∨ r.cpc = .done := by
  have hi := reachable_inv as r hr
  have h1 := hi.lost_after_stop h
  have h2 := hi.stop_iff
  rw [h1] at h2
  cases hc : r.cpc <;> simp [hc, stopped] at h2 <;> simp

/-- a caller whose answer has been dispatched (some dispatch thread has set the wake-up event) is not
    left blocked: it is either past the wait or its wait is enabled -/
theorem dispatched_caller_wakes (as : List Act) (r : Rec) (hr : r ∈ run as) (h : r.disp.any hasNotified = true) :
    r.cpc ≠ .waiting ∨ (callerStep r).isSome = true := by
  have hi := reachable_inv as r hr
  by_cases hw : r.cpc = .waiting
  · right
    have := hi.notified_wakes h hw
    simp [callerStep, hw, this]
  · exact .inl hw

/-- ALWAYS WAKES (no deadlock): in every reachable state, a record for which at least one answer has
    arrived and in which nothing can move any more has a caller that has returned — with an answer —
    and every dispatch thread has finished -/
theorem quiescent_means_done (as : List Act) (r : Rec) (hr : r ∈ run as) (hne : r.disp ≠ [])
    (hq : r.quiescent = true) : r.cpc = .done ∧ (∃ k, r.result = some (.answer k)) ∧ r.disp.all finished = true := by
  have hi := reachable_inv as r hr
  simp only [Rec.quiescent, Bool.and_eq_true, Option.isNone_iff_eq_none, List.all_eq_true, List.mem_range] at hq
  obtain ⟨hc, hd⟩ := hq
  -- what a blocked dispatch thread looks like
  have hdisp : ∀ (j : Nat) (d : DPc), r.disp[j]? = some d → finished d = true ∨ (d = .notified ∧ r.stop = false) := by
    intro j d hj
    have hlt : j < r.disp.length := by
      rcases List.getElem?_eq_some_iff.mp hj with ⟨h, _⟩; exact h
    have := hd j hlt
    unfold dispStep at this
    simp only [hj] at this
    cases d <;> simp at this <;> simp [finished]
    · cases hs : r.stop <;> simp_all
  have hdone : r.cpc = .done := by
    unfold callerStep at hc
    cases hcp : r.cpc <;> simp [hcp] at hc
    · -- waiting without wake-up: every dispatch thread is lost or parked, both impossible
      exfalso
      have hst : r.stop = false := by have := hi.stop_iff; simpa [hcp, stopped] using this
      obtain ⟨d, hdmem⟩ := List.exists_mem_of_ne_nil _ hne
      obtain ⟨j, hj⟩ := List.getElem?_of_mem hdmem
      rcases hdisp j d hj with hf | ⟨hn, _⟩
      · cases d <;> simp [finished] at hf
        · have := hi.notified_wakes (any_of_get _ _ _ hj (by simp [hasNotified])) hcp
          simp [this] at hc
        · have := hi.lost_after_stop (any_of_get _ _ _ hj (by simp [lost])); simp [hst] at this
        · have := hi.lost_after_stop (any_of_get _ _ _ hj (by simp [lost])); simp [hst] at this
      · subst hn
        have := hi.notified_wakes (any_of_get _ _ _ hj (by simp [hasNotified])) hcp
        simp [this] at hc
    · rfl
  have hstop : r.stop = true := by have := hi.stop_iff; simpa [hdone, stopped] using this
  refine ⟨hdone, ?_, ?_⟩
  · have h1 := hi.result_done
    simp only [hdone, beq_self_eq_true] at h1
    obtain ⟨v, hv⟩ := Option.isSome_iff_exists.mp h1
    have := hi.result_answer v hv
    cases v with
    | request => simp [isAnswer] at this
    | answer k => exact ⟨k, hv⟩
  · apply List.all_eq_true.mpr
    intro d hdmem
    obtain ⟨j, hj⟩ := List.getElem?_of_mem hdmem
    rcases hdisp j d hj with hf | ⟨_, hs⟩
    · exact hf
    · simp [hstop] at hs

/-- each answer wakes at most one caller and a caller returns once: the result, once set, is final -/
theorem result_final (r r' : Rec) (h : callerStep r = some r') (v : Slot) (hv : r.result = some v) (hi : LInv r) : False := by
  have := hi.result_done
  simp only [hv, Option.isSome_some] at this
  have hd : r.cpc = .done := by simpa using this.symm
  simp [callerStep, hd] at h

/-! ### non-vacuity and the pinned defect as a model fact -/

-- a complete exchange: register, queue, answer arrives, dispatch, wake, release, pop
def demo : List Act :=
  [.newRequest, .caller 0, .caller 0, .arrive 0, .disp 0 0, .disp 0 0, .disp 0 0, .disp 0 0, .caller 0, .caller 0, .caller 0, .disp 0 0, .disp 0 0, .caller 0]
example : (run demo).map (·.result) = [some (.answer 0)] ∧ (run demo).map (·.quiescent) = [true] := by decide
-- two callers, answers dispatched in the opposite order, a duplicate answer for the first
example : ((run [.newRequest, .newRequest, .caller 0, .caller 1, .caller 0, .caller 1, .arrive 1, .arrive 0, .arrive 0,
    .disp 1 0, .disp 1 0, .disp 1 0, .disp 1 0, .disp 0 1, .disp 0 1, .disp 0 1, .disp 0 1, .caller 1, .caller 0]).map (·.cpc)) = [.woke, .woke] := by decide

/-! ### the order of the pinned tree (queue the request first, register the waiter second) does NOT
have the property: a concrete schedule in which the answer is dropped and the caller waits for ever -/

/-- caller step of the pinned tree: `set_outgoing_message` before `insert_pending_answer` -/
def callerStepPinned (r : Rec) : Option Rec :=
  match r.cpc with
  | .start => some { r with cpc := .registered }                    -- request queued, waiter not yet registered
  | .registered => some { r with cpc := .waiting, reg := true }      -- now registered, goes to wait
  | _ => callerStep r

/-- in the pinned order the peer can answer as soon as the request is queued -/
def sentPinned (r : Rec) : Bool := match r.cpc with | .start => false | _ => true

def pinnedRun : Rec :=
  -- caller queues the request; the answer arrives and is checked before the waiter is registered; then the caller registers and waits
  let r0 := Rec.init
  let r1 := (callerStepPinned r0).getD r0
  let r2 := if sentPinned r1 then { r1 with disp := r1.disp ++ [.check] } else r1
  let r3 := (dispStep r2 0).getD r2
  let r4 := (callerStepPinned r3).getD r3
  r4

/-- the answer has been dropped, nothing can move, and the caller is still waiting: the statement's
    "a caller whose answer has arrived is always woken" fails for the pinned order -/
theorem pinned_order_loses_wakeup :
    pinnedRun.cpc = .waiting ∧ pinnedRun.disp = [.dropped] ∧ (callerStepPinned pinnedRun).isNone = true ∧
    (dispStep pinnedRun 0).isNone = true := by decide

end BV.C14
