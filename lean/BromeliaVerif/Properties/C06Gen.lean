import BromeliaVerif.Gen.PsmGen
import BromeliaVerif.Gen.MsgKinds
import BromeliaVerif.Proofs.PsmRef
import BromeliaVerif.Proofs.PsmGhost
import BromeliaVerif.Proofs.PsmNorm
import BromeliaVerif.Properties.C06
import BromeliaVerif.Properties.C07
/-! Tie (a) for the peer state machine (C06, C07, the state-machine part of C08).

`Gen/PsmGen.lean` is regenerated from `bromelia/statemachine.py` on every run. The obligations of this file are
re-checked against it:

* `code_is_reference`: the kernel DECIDES that the program translated from the code as it is now is the reviewed
  reference translation (`Model/PsmRef.lean`), class by class — any change of a condition, of the order of the tests, of a
  helper's flags, of an emitted message, of a next state, of where `self.msg` is read changes the translated term;
* hence (with the static `Proofs/PsmRef.lean`, `Proofs/PsmGhost.lean`) one iteration of the loop of
  `PeerStateMachine.__start` AS TRANSLATED refines `tick` of the hand model for every node state, and every execution of
  the translated loop, interleaved with any environment events, stays equal to the hand model's run up to the ghost fields;
* hence the history-level theorems of C06 and C07 hold of every execution of the translated code. -/
namespace BV.C06Gen
open BV.Psm BV.PsmT

/-- the code as translated now IS the reference translation, up to the verified normal form (`Proofs/PsmNorm.lean`:
statements regrouped, helper flags instantiated, equal branches merged) — decided by the kernel on the regenerated file -/
theorem code_is_reference :
    (∀ s : St, (BV.Gen.Psm.runProg s).norm = (BV.PsmRef.runProg s).norm) ∧
      BV.Gen.Psm.nextProg.norm = BV.PsmRef.nextProg.norm := by
  refine ⟨fun s => ?_, ?_⟩
  · cases s <;> decide
  · decide

theorem code_run_exec (V : Verd) (s : St) (ps : PS) :
    (BV.Gen.Psm.runProg s).exec V ps = (BV.PsmRef.runProg s).exec V ps :=
  Prog.exec_congr_norm V _ _ (code_is_reference.1 s) ps

theorem code_next_exec (V : Verd) (ps : PS) : BV.Gen.Psm.nextProg.exec V ps = BV.PsmRef.nextProg.exec V ps :=
  Prog.exec_congr_norm V _ _ code_is_reference.2 ps

/-- one iteration of the loop of `PeerStateMachine.__start`, as translated from the code: `current_state.run()`, then
`current_state = get_next_state(current_state.next_state)`; `nx nm mg` are whatever the state object's `next_state`,
`name` and `msg` attributes held from earlier iterations -/
def tickCode (V : Verd) (n : Node) (nx nm : St) (mg : Option PMsg) : PS :=
  BV.Gen.Psm.nextProg.exec V ((BV.Gen.Psm.runProg n.st).exec V (PS.start n nx nm mg))

/-- `run()` of every state class, as translated from the code, refines the hand model: no escaped exception, no
blocking `get()`, `name` = own state, next state and node as `runState` says -/
theorem code_run_refines (V : Verd) (hV : Sound V) (n : Node) (nx nm : St) (mg : Option PMsg) :
    BV.PsmRefProof.Refines BV.Gen.Psm.runProg V n nx nm mg := by
  unfold BV.PsmRefProof.Refines
  rw [code_run_exec]
  exact BV.PsmRefProof.ref_run_refines V hV n nx nm mg

/-- one loop iteration of the translated code = `tick` of the hand model (up to ghost fields), for EVERY node state -/
theorem code_tick_refines (V : Verd) (hV : Sound V) (n : Node) (nx nm : St) (mg : Option PMsg) (hr : n.running = true) :
    (tickCode V n nx nm mg).err = false ∧ (tickCode V n nx nm mg).stuck = false ∧
      erase (tickCode V n nx nm mg).n = erase (tick n) ∧ (tickCode V n nx nm mg).ret = some (tickCode V n nx nm mg).n.st := by
  have h1 := code_run_refines V hV n nx nm mg
  unfold BV.PsmRefProof.Refines at h1
  obtain ⟨he, hs, _, hname, hnext, hn⟩ := h1
  have h2 := BV.PsmRefProof.ref_next_refines V ((BV.Gen.Psm.runProg n.st).exec V (PS.start n nx nm mg)) he
  obtain ⟨he2, hs2, hn2, hr2⟩ := h2
  unfold tickCode
  rw [code_next_exec]
  refine ⟨he2, by rw [hs2, hs], ?_, hr2⟩
  rw [hn2, hname, hnext]
  unfold tick
  simp only [hr, Bool.not_true, Bool.false_eq_true, if_false]
  exact BV.PsmGhost.erase_goto_congr _ _ _ _ hn

/-- every execution of the translated loop: environment events between iterations, arbitrary leftovers in the state
objects at each iteration -/
inductive CodeRun (V : Verd) (role : Role) : List Ev → Node → Prop
  | init : CodeRun V role [] (init role)
  | env (evs : List Ev) (n : Node) (e : Ev) : CodeRun V role evs n → e ≠ .tick → CodeRun V role (evs ++ [e]) (apply n e)
  | idle (evs : List Ev) (n : Node) : CodeRun V role evs n → n.running = false → CodeRun V role (evs ++ [.tick]) n
  | tick (evs : List Ev) (n : Node) (nx nm : St) (mg : Option PMsg) :
      CodeRun V role evs n → n.running = true → CodeRun V role (evs ++ [.tick]) (tickCode V n nx nm mg).n

/-- SIMULATION: whatever the translated code does along a history is what the hand model does (up to ghost fields) -/
theorem code_run_simulates (V : Verd) (hV : Sound V) (role : Role) (evs : List Ev) (n : Node)
    (h : CodeRun V role evs n) : erase n = erase (run role evs) := by
  induction h with
  | init => rfl
  | env evs n e _ _ ih =>
    simp only [run, List.foldl_append, List.foldl_cons, List.foldl_nil]
    exact BV.PsmGhost.apply_congr _ _ e ih
  | idle evs n _ hr ih =>
    simp only [run, List.foldl_append, List.foldl_cons, List.foldl_nil]
    have hrun : (List.foldl apply (init role) evs).running = false := by
      have := congrArg Node.running ih
      simpa [erase, hr, run] using this.symm
    rw [ih]
    show erase (run role evs) = erase (tick (run role evs))
    unfold tick
    simp [run, hrun]
  | tick evs n nx nm mg _ hr ih =>
    simp only [run, List.foldl_append, List.foldl_cons, List.foldl_nil]
    rw [(code_tick_refines V hV n nx nm mg hr).2.2.1]
    exact BV.PsmGhost.tick_congr _ _ ih

/-- the translated loop never dies of an escaped exception and never blocks on an empty queue -/
theorem code_never_raises_or_blocks (V : Verd) (hV : Sound V) (n : Node) (nx nm : St) (mg : Option PMsg)
    (hr : n.running = true) : (tickCode V n nx nm mg).err = false ∧ (tickCode V n nx nm mg).stuck = false :=
  ⟨(code_tick_refines V hV n nx nm mg hr).1, (code_tick_refines V hV n nx nm mg hr).2.1⟩

/-- C06 on the translated code: in every execution, Open (or Closing) is reported only if the history contains an
inbound CER / CEA that passed the validity predicate -/
theorem code_open_needs_valid_cex (V : Verd) (hV : Sound V) (role : Role) (evs : List Ev) (n : Node)
    (h : CodeRun V role evs n) (ho : n.st = .opened ∨ n.st = .closing) :
    ∃ m, Ev.inject m ∈ evs ∧ m.valid = true ∧ (m.kind = .cer ∨ m.kind = .cea) := by
  have hs : n.st = (run role evs).st := by have := congrArg Node.st (code_run_simulates V hV role evs n h); exact this
  rw [hs] at ho
  exact BV.C06.open_needs_valid_cex_in_history role evs ho

/-- C06/C08 on the translated code: once the loop has stopped the transport has been released -/
theorem code_closed_implies_released (V : Verd) (hV : Sound V) (role : Role) (evs : List Ev) (n : Node)
    (h : CodeRun V role evs n) (hr : n.running = false) : n.st = .closed ∧ n.tr = none := by
  have he := code_run_simulates V hV role evs n h
  have h1 : n.running = (run role evs).running := by have := congrArg Node.running he; exact this
  have h2 : n.st = (run role evs).st := by have := congrArg Node.st he; exact this
  have h3 : n.tr = (run role evs).tr := by have := congrArg Node.tr he; exact this
  rw [h1] at hr
  rw [h2, h3]
  exact BV.C06.closed_implies_released role evs hr

/-- C07 on the translated code: in every execution the answers written to the transport are, in order, exactly the
answers owed to the valid CER / DWR / DPR consumed, and none is left in the send queue -/
theorem code_answers_match_requests (V : Verd) (hV : Sound V) (role : Role) (evs : List Ev) (n : Node)
    (h : CodeRun V role evs n) :
    BV.C07.answers n.emitted = (run role evs).answered.map BV.C07.ansOf ∧ BV.C07.answers n.sendq = [] := by
  have he := code_run_simulates V hV role evs n h
  have h1 : n.emitted = (run role evs).emitted := by have := congrArg Node.emitted he; exact this
  have h2 : n.sendq = (run role evs).sendq := by have := congrArg Node.sendq he; exact this
  rw [h1, h2]
  exact ⟨(BV.C07.answers_match_requests role evs).1, BV.C07.no_answer_waits role evs⟩

/-! ### the message-kind helpers of utils.py (what `has_recv_cer(self.msg)` … mean), translated on this run -/

/-- the kind of a message, read off the R flag and the command code (RFC 6733: 257 CE, 280 DW, 282 DP) -/
def kindOfHeader (isReq : Bool) (cmd : Nat) : Kind :=
  if cmd = 257 then (if isReq then .cer else .cea)
  else if cmd = 280 then (if isReq then .dwr else .dwa)
  else if cmd = 282 then (if isReq then .dpr else .dpa)
  else (if isReq then .appReq else .appAns)

/-- each helper, as translated from the code, recognises exactly its kind — for every flag combination and command code -/
theorem code_kinds_classify (r p : Bool) (c : Nat) :
    BV.Gen.Kinds.isCer r p c = (kindOfHeader r c == .cer) ∧ BV.Gen.Kinds.isCea r p c = (kindOfHeader r c == .cea) ∧
    BV.Gen.Kinds.isDwr r p c = (kindOfHeader r c == .dwr) ∧ BV.Gen.Kinds.isDwa r p c = (kindOfHeader r c == .dwa) ∧
    BV.Gen.Kinds.isDpr r p c = (kindOfHeader r c == .dpr) ∧ BV.Gen.Kinds.isDpa r p c = (kindOfHeader r c == .dpa) ∧
    BV.Gen.Kinds.isAnswer r p c = !r ∧ BV.Gen.Kinds.isRequest r p c = r := by
  unfold BV.Gen.Kinds.isCer BV.Gen.Kinds.isCea BV.Gen.Kinds.isDwr BV.Gen.Kinds.isDwa BV.Gen.Kinds.isDpr BV.Gen.Kinds.isDpa
    BV.Gen.Kinds.isAnswer BV.Gen.Kinds.isRequest kindOfHeader
  by_cases h1 : c = 257 <;> by_cases h2 : c = 280 <;> by_cases h3 : c = 282 <;> cases r <;> cases p <;> simp_all

/-- hence at most one of the six base-message helpers holds of any message: the order of the `elif` chain of `Open.run`
over them does not matter, and a message is an answer iff it is not a request -/
theorem code_kinds_exclusive (r p : Bool) (c : Nat) :
    ([BV.Gen.Kinds.isCer r p c, BV.Gen.Kinds.isCea r p c, BV.Gen.Kinds.isDwr r p c, BV.Gen.Kinds.isDwa r p c,
      BV.Gen.Kinds.isDpr r p c, BV.Gen.Kinds.isDpa r p c].filter id).length ≤ 1 ∧
    BV.Gen.Kinds.isAnswer r p c = !(BV.Gen.Kinds.isRequest r p c) := by
  obtain ⟨a, b, d, e, f, g, h, i⟩ := code_kinds_classify r p c
  rw [a, b, d, e, f, g, h, i]
  cases hk : kindOfHeader r c <;> simp

/-! ### `create_answer` of process.py (the meaning of the primitive `makeAnswer`), translated on this run -/

/-- the answer the model writes for a message of a given kind and identifiers -/
def answerOf (tmpl : String) (hbh e2e : Nat) : Option Out :=
  if tmpl = "cea" then some (.cea hbh e2e) else if tmpl = "dwa" then some (.dwa hbh e2e) else if tmpl = "dpa" then some (.dpa hbh e2e) else none

/-- `create_answer`, as translated from the code, picks the template of the message's command and copies BOTH identifiers
unconditionally: it is the primitive `createAnswer` of the translation target for every message of every kind whose header
carries that kind's command code -/
theorem code_create_answer (ps : PS) (m : PMsg) (r : Bool) (c : Nat) (hm : ps.msg = some m) (hk : m.kind = kindOfHeader r c) :
    BV.Gen.Kinds.copiesHbh = true ∧ BV.Gen.Kinds.copiesE2e = true ∧
    ((BV.Gen.Kinds.createAnswerTmpl c).bind fun t => answerOf t m.hbh m.e2e) = createAnswer ps := by
  refine ⟨by decide, by decide, ?_⟩
  unfold createAnswer BV.Gen.Kinds.createAnswerTmpl
  rw [hm]
  simp only [hk, kindOfHeader]
  by_cases h1 : c = 257 <;> by_cases h2 : c = 280 <;> by_cases h3 : c = 282 <;> cases r <;> simp_all [answerOf]

/-! non-vacuity: a sound verdict function exists, and a concrete execution of the translated code opens -/
def V0 : Verd := fun _ m => m.valid
theorem V0_sound : Sound V0 := fun _ => ⟨fun _ => rfl, fun _ => rfl, fun _ => rfl⟩
example : (tickCode V0 { (init .server) with recvq := [BV.C06.cerOk] } .closed .closed none).n.st = .opened ∧
    (tickCode V0 { (init .server) with recvq := [BV.C06.cerOk] } .closed .closed none).n.emitted = [.cea 7 9] := by decide

end BV.C06Gen
