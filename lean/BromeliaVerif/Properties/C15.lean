import BromeliaVerif.Model.Ident
/-! C15 — request identifiers are never reused within a process. -/
namespace BV.C15
open BV.Ident

/-- invariant: both registries are duplicate-free and every identifier handed to a thread is
    registered — pairwise distinctness of issued identifiers follows -/
structure Inv (s : Sys) : Prop where
  hbh_nodup : s.hbh.Nodup
  e2e_nodup : s.e2e.Nodup

theorem nodup_append_singleton {l : List Nat} {x : Nat} (hl : l.Nodup) (hx : x ∉ l) : (l ++ [x]).Nodup := by
  rw [List.nodup_append]
  exact ⟨hl, by simp, by intro a ha b hb; simp at hb; subst hb; intro e; subst e; exact hx ha⟩

theorem step_inv (s : Sys) (t : Nat) (h : Inv s) : Inv (stepThread s t) := by
  unfold stepThread
  split; · exact h
  rename_i pc _
  cases pc with
  | readH => simp only; split <;> exact ⟨h.hbh_nodup, h.e2e_nodup⟩
  | commitH r =>
    simp only; split
    · exact ⟨h.hbh_nodup, h.e2e_nodup⟩
    · rename_i hr; exact ⟨nodup_append_singleton h.hbh_nodup hr, h.e2e_nodup⟩
  | readE hh => simp only; split <;> exact ⟨h.hbh_nodup, h.e2e_nodup⟩
  | commitE hh r =>
    simp only; split
    · exact ⟨h.hbh_nodup, h.e2e_nodup⟩
    · rename_i hr; exact ⟨h.hbh_nodup, nodup_append_singleton h.e2e_nodup hr⟩
  | done _ _ => exact h

theorem act_inv (s : Sys) (a : Act) (h : Inv s) : Inv (act s a) := by
  cases a with
  | step t => exact step_inv s t h
  | spawn => exact ⟨h.hbh_nodup, h.e2e_nodup⟩
  | explicitHeader => exact h

/-- the registries stay duplicate-free under EVERY schedule, every number of threads and every output
    of the random source (including constant and repeating sources) -/
theorem registries_nodup (src : List Nat) (as : List Act) :
    Inv (as.foldl act { hbh := [], e2e := [], src := src, thr := [] }) := by
  suffices ∀ s, Inv s → Inv (as.foldl act s) from this _ ⟨List.nodup_nil, List.nodup_nil⟩
  induction as with
  | nil => intro s h; exact h
  | cons a as ih => intro s h; exact ih _ (act_inv s a h)

/-- explicit-header creations never consume or alter identifiers -/
theorem explicit_header_pure (s : Sys) : act s .explicitHeader = s := rfl

/-- every registry only grows by appending: earlier registrations are never lost or reordered -/
theorem registry_monotone (s : Sys) (a : Act) : s.hbh <+: (act s a).hbh ∧ s.e2e <+: (act s a).e2e := by
  cases a with
  | spawn => exact ⟨List.prefix_refl _, List.prefix_refl _⟩
  | explicitHeader => exact ⟨List.prefix_refl _, List.prefix_refl _⟩
  | step t =>
    simp only [act, stepThread]
    split; · exact ⟨List.prefix_refl _, List.prefix_refl _⟩
    rename_i pc _
    cases pc <;> simp only <;> (try split) <;>
      first
      | exact ⟨List.prefix_refl _, List.prefix_refl _⟩
      | exact ⟨List.prefix_append _ _, List.prefix_refl _⟩
      | exact ⟨List.prefix_refl _, List.prefix_append _ _⟩

/-! ### issued identifiers are pairwise distinct -/

theorem filterMap_set_same {α β : Type} (f : α → Option β) : ∀ (l : List α) (t : Nat) (a b : α),
    l[t]? = some a → f a = f b → (l.set t b).filterMap f = l.filterMap f
  | [], _, _, _, h, _ => by simp at h
  | x :: xs, 0, a, b, h, hf => by
    simp only [List.getElem?_cons_zero, Option.some.injEq] at h; subst h
    simp [List.filterMap_cons, hf]
  | x :: xs, t + 1, a, b, h, hf => by
    simp only [List.getElem?_cons_succ] at h
    simp [List.filterMap_cons, filterMap_set_same f xs t a b h hf]

theorem filterMap_set_new {α β : Type} (f : α → Option β) : ∀ (l : List α) (t : Nat) (a b : α) (r : β),
    l[t]? = some a → f a = none → f b = some r →
    ∃ p q, l.filterMap f = p ++ q ∧ (l.set t b).filterMap f = p ++ r :: q
  | [], _, _, _, _, h, _, _ => by simp at h
  | x :: xs, 0, a, b, r, h, ha, hb => by
    simp only [List.getElem?_cons_zero, Option.some.injEq] at h; subst h
    exact ⟨[], xs.filterMap f, by simp [List.filterMap_cons, ha], by simp [List.filterMap_cons, hb]⟩
  | x :: xs, t + 1, a, b, r, h, ha, hb => by
    simp only [List.getElem?_cons_succ] at h
    obtain ⟨p, q, h1, h2⟩ := filterMap_set_new f xs t a b r h ha hb
    cases hx : f x with
    | none => exact ⟨p, q, by simp [List.filterMap_cons, hx, h1], by simp [List.filterMap_cons, hx, h2]⟩
    | some y => exact ⟨y :: p, q, by simp [List.filterMap_cons, hx, h1], by simp [List.filterMap_cons, hx, h2]⟩

theorem nodup_insert {l p q : List Nat} {r : Nat} (hl : l = p ++ q) (hn : l.Nodup) (hr : r ∉ l) : (p ++ r :: q).Nodup := by
  subst hl
  rw [List.nodup_append] at hn ⊢
  simp only [List.mem_append, not_or] at hr
  refine ⟨hn.1, ?_, ?_⟩
  · rw [List.nodup_cons]; exact ⟨hr.2, hn.2.1⟩
  · intro a ha b hb
    rcases List.mem_cons.mp hb with rfl | hb
    · intro e; subst e; exact hr.1 ha
    · exact hn.2.2 a ha b hb

def fH : Pc → Option Nat
  | .readE h => some h | .commitE h _ => some h | .done h _ => some h | _ => none
def fE : Pc → Option Nat
  | .done _ e => some e | _ => none

theorem issuedH_eq (s : Sys) : issuedH s = s.thr.filterMap fH := rfl
theorem issuedE_eq (s : Sys) : issuedE s = s.thr.filterMap fE := rfl

/-- the identifiers handed out so far are pairwise distinct and registered -/
structure Issued (s : Sys) : Prop where
  inv : Inv s
  h_nodup : (issuedH s).Nodup
  h_sub : ∀ x ∈ issuedH s, x ∈ s.hbh
  e_nodup : (issuedE s).Nodup
  e_sub : ∀ x ∈ issuedE s, x ∈ s.e2e

theorem step_issued (s : Sys) (t : Nat) (h : Issued s) : Issued (stepThread s t) := by
  unfold stepThread
  split; · exact h
  rename_i pc hpc
  cases pc with
  | readH =>
    simp only
    split
    · exact h
    · rename_i r rest _
      have e1 := filterMap_set_same fH s.thr t .readH (.commitH r) hpc rfl
      have e2 := filterMap_set_same fE s.thr t .readH (.commitH r) hpc rfl
      exact ⟨⟨h.inv.hbh_nodup, h.inv.e2e_nodup⟩, by rw [issuedH_eq, e1]; exact h.h_nodup, by rw [issuedH_eq, e1]; exact h.h_sub,
        by rw [issuedE_eq, e2]; exact h.e_nodup, by rw [issuedE_eq, e2]; exact h.e_sub⟩
  | commitH r =>
    simp only
    split
    · have e1 := filterMap_set_same fH s.thr t (.commitH r) .readH hpc rfl
      have e2 := filterMap_set_same fE s.thr t (.commitH r) .readH hpc rfl
      exact ⟨⟨h.inv.hbh_nodup, h.inv.e2e_nodup⟩, by rw [issuedH_eq, e1]; exact h.h_nodup, by rw [issuedH_eq, e1]; exact h.h_sub,
        by rw [issuedE_eq, e2]; exact h.e_nodup, by rw [issuedE_eq, e2]; exact h.e_sub⟩
    · rename_i hr
      obtain ⟨p, q, h1, h2⟩ := filterMap_set_new fH s.thr t (.commitH r) (.readE r) r hpc rfl rfl
      have e2 := filterMap_set_same fE s.thr t (.commitH r) (.readE r) hpc rfl
      have hrn : r ∉ issuedH s := fun hm => hr (h.h_sub r hm)
      refine ⟨⟨nodup_append_singleton h.inv.hbh_nodup hr, h.inv.e2e_nodup⟩, ?_, ?_, by rw [issuedE_eq, e2]; exact h.e_nodup, by rw [issuedE_eq, e2]; exact h.e_sub⟩
      · rw [issuedH_eq, h2]; exact nodup_insert h1 h.h_nodup hrn
      · intro x hx
        rw [issuedH_eq, h2] at hx
        simp only [List.mem_append, List.mem_cons] at hx ⊢
        rcases hx with hx | rfl | hx
        · exact .inl (h.h_sub x (by rw [issuedH_eq, h1]; simp [hx]))
        · exact .inr (.inl rfl)
        · exact .inl (h.h_sub x (by rw [issuedH_eq, h1]; simp [hx]))
  | readE hh =>
    simp only
    split
    · exact h
    · rename_i r rest _
      have e1 := filterMap_set_same fH s.thr t (.readE hh) (.commitE hh r) hpc rfl
      have e2 := filterMap_set_same fE s.thr t (.readE hh) (.commitE hh r) hpc rfl
      exact ⟨⟨h.inv.hbh_nodup, h.inv.e2e_nodup⟩, by rw [issuedH_eq, e1]; exact h.h_nodup, by rw [issuedH_eq, e1]; exact h.h_sub,
        by rw [issuedE_eq, e2]; exact h.e_nodup, by rw [issuedE_eq, e2]; exact h.e_sub⟩
  | commitE hh r =>
    simp only
    split
    · have e1 := filterMap_set_same fH s.thr t (.commitE hh r) (.readE hh) hpc rfl
      have e2 := filterMap_set_same fE s.thr t (.commitE hh r) (.readE hh) hpc rfl
      exact ⟨⟨h.inv.hbh_nodup, h.inv.e2e_nodup⟩, by rw [issuedH_eq, e1]; exact h.h_nodup, by rw [issuedH_eq, e1]; exact h.h_sub,
        by rw [issuedE_eq, e2]; exact h.e_nodup, by rw [issuedE_eq, e2]; exact h.e_sub⟩
    · rename_i hr
      have e1 := filterMap_set_same fH s.thr t (.commitE hh r) (.done hh r) hpc rfl
      obtain ⟨p, q, h1, h2⟩ := filterMap_set_new fE s.thr t (.commitE hh r) (.done hh r) r hpc rfl rfl
      have hrn : r ∉ issuedE s := fun hm => hr (h.e_sub r hm)
      refine ⟨⟨h.inv.hbh_nodup, nodup_append_singleton h.inv.e2e_nodup hr⟩, by rw [issuedH_eq, e1]; exact h.h_nodup, by rw [issuedH_eq, e1]; exact h.h_sub, ?_, ?_⟩
      · rw [issuedE_eq, h2]; exact nodup_insert h1 h.e_nodup hrn
      · intro x hx
        rw [issuedE_eq, h2] at hx
        simp only [List.mem_append, List.mem_cons] at hx ⊢
        rcases hx with hx | rfl | hx
        · exact .inl (h.e_sub x (by rw [issuedE_eq, h1]; simp [hx]))
        · exact .inr (.inl rfl)
        · exact .inl (h.e_sub x (by rw [issuedE_eq, h1]; simp [hx]))
  | done _ _ => exact h

theorem act_issued (s : Sys) (a : Act) (h : Issued s) : Issued (act s a) := by
  cases a with
  | step t => exact step_issued s t h
  | explicitHeader => exact h
  | spawn =>
    have e1 : issuedH (act s .spawn) = issuedH s := by simp [act, issuedH]
    have e2 : issuedE (act s .spawn) = issuedE s := by simp [act, issuedE]
    exact ⟨act_inv s .spawn h.inv, by rw [e1]; exact h.h_nodup, by rw [e1]; exact h.h_sub,
      by rw [e2]; exact h.e_nodup, by rw [e2]; exact h.e_sub⟩

/-- FULL STATEMENT: under every interleaving of any number of creating threads and every output of
    the random source, the Hop-by-Hop identifiers handed to requests are pairwise distinct, and so
    are the End-to-End identifiers -/
theorem issued_nodup (src : List Nat) (as : List Act) :
    let s := as.foldl act { hbh := [], e2e := [], src := src, thr := [] }
    (issuedH s).Nodup ∧ (issuedE s).Nodup := by
  suffices ∀ s, Issued s → Issued (as.foldl act s) by
    have := this { hbh := [], e2e := [], src := src, thr := [] }
      ⟨⟨List.nodup_nil, List.nodup_nil⟩, by simp [issuedH], by simp [issuedH], by simp [issuedE], by simp [issuedE]⟩
    exact ⟨this.h_nodup, this.e_nodup⟩
  induction as with
  | nil => intro s h; exact h
  | cons a as ih => intro s h; exact ih _ (act_issued s a h)

-- non-vacuity: two threads racing on a constant source 7,7,7,8,8,9 …: both finish with distinct ids
example :
    let s := [Act.spawn, .spawn, .step 0, .step 1, .step 0, .step 1, .step 1, .step 1, .step 0, .step 0, .step 1, .step 1, .step 1, .step 1].foldl act
      { hbh := [], e2e := [], src := [7, 7, 7, 8, 8, 9, 9, 9], thr := [] }
    s.hbh = [7, 8] ∧ issuedH s = [7, 8] := by decide

/-! ### the pinned tree tested membership and appended in two steps: that order does NOT have the property -/

inductive PcP | read | got (r : Nat) | tested (r : Nat) | done (r : Nat)
deriving DecidableEq, Repr

/-- registry, random source, threads -/
abbrev SysP := List Nat × List Nat × List PcP

/-- one step of thread t in the pinned tree: read / test membership / append, each on its own -/
def stepP (s : SysP) (t : Nat) : SysP :=
  match s.2.2[t]? with
  | some .read => (match s.2.1 with | [] => s | r :: rest => (s.1, rest, s.2.2.set t (.got r)))
  | some (.got r) => if r ∈ s.1 then (s.1, s.2.1, s.2.2.set t .read) else (s.1, s.2.1, s.2.2.set t (.tested r))
  | some (.tested r) => (s.1 ++ [r], s.2.1, s.2.2.set t (.done r))
  | _ => s

/-- two threads, a random source that repeats: both pass the test before either appends, both get 5 -/
theorem pinned_two_step_commit_duplicates :
    ([0, 1, 0, 1, 0, 1].foldl stepP ([], [5, 5], [.read, .read])) = ([5, 5], [], [.done 5, .done 5]) := by decide

end BV.C15
