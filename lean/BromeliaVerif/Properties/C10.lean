import BromeliaVerif.Gen.Dictionary
import BromeliaVerif.Proofs.Dict
import BromeliaVerif.Model.Parse
/-! C10 — the AVP dictionary is unambiguous and every class enforces its declared type.

`Gen.dictionary`, `Gen.docs` and `Gen.reference` are regenerated from the working tree on every
check (`harness/gen_dict.py`); the table facts below are decided completely by the kernel
(`decide +kernel`) over whatever the tables contain now. -/
namespace BV.C10
open BV BV.Dict BV.Parse BV.Spec

/-! ### the table -/

/-- no class has a constructor shape the translator does not understand -/
theorem all_modelled : Gen.dictionary.all (fun e => e.kind != .unmodelled) = true := by decide +kernel

/-- the dictionary is a function: rows sharing a (Vendor-ID, code) key describe the same definition -/
theorem dictionary_functional :
    Gen.dictionary.all (fun a => Gen.dictionary.all (fun b => a.key != b.key || a.sameDef b)) = true := by
  decide +kernel

/-- every instance carries the V flag exactly when its class is vendor-specific, codes and vendors
    fit their fields, no reserved flag bit is set by default -/
theorem instance_identity :
    Gen.dictionary.all (fun e => vbit e.flags == e.vendor.isSome && decide (e.code < 2 ^ 32) &&
      decide (e.vendor.getD 0 < 2 ^ 32) && decide (e.flags % 32 = 0) && decide (e.flags < 256)) = true := by
  decide +kernel

/-- decoding dispatches each class's own (vendor, code) to that definition -/
theorem dispatch_correct :
    Gen.dictionary.all (fun e =>
      match dispatch Gen.dictionary { code := e.code, flags := e.flags, vendor := e.vendor, data := [] } with
      | some e' => e'.sameDef e
      | none => false) = true := by
  decide +kernel

/-- Vendor-ID 0 is not a vendor: no class is filed under an explicit vendor 0 (which would collide
    with the IETF space in the decoder's table) -/
theorem no_vendor_zero : Gen.dictionary.all (fun e => e.vendor != some 0) = true := by decide +kernel

/-- enumerations list distinct 32-bit values; Grouped classes name members by code -/
theorem enumerators_ok :
    Gen.dictionary.all (fun e => e.values.all (· < 2 ^ 32) && e.values.eraseDups.length == e.values.length &&
      (e.kind == .enumerated || e.values.isEmpty) && (e.kind == .grouped || e.mandatory.isEmpty)) = true := by
  decide +kernel

/-- published identity, part 1: every class agrees with the reviewed reference snapshot on name,
    Vendor-ID, code and data type (and every reference row still exists) -/
theorem published_match_reference :
    Gen.dictionary.all (fun e => Gen.reference.any (fun r =>
      r.nameKey == e.nameKey && r.vendor == e.vendor && r.code == e.code && r.type == e.kind.published)) = true ∧
    Gen.reference.all (fun r => Gen.dictionary.any (fun e => r.nameKey == e.nameKey)) = true := by
  constructor <;> decide +kernel

/-- the two classes whose default flag byte deviates from RFC 6733 §4.5 (known finding
    C10-default-flags-297-299; five stable tests pin the flag byte 00): (vendor, code) -/
def flagDeviations : List (Option Nat × Nat) := [(none, 297), (none, 299)]

/-- published identity, part 2 (`_partial`: excludes exactly the two listed classes): default flags
    equal the reference snapshot -/
theorem published_flags_partial :
    Gen.dictionary.all (fun e => flagDeviations.contains (e.vendor, e.code) ||
      Gen.reference.any (fun r => r.nameKey == e.nameKey && r.flags == e.flags)) = true := by
  decide +kernel

/-- published identity, part 3: every row of docs/list-of-avps.md names an existing class with that
    code and data type -/
theorem published_match_docs :
    Gen.docs.all (fun d => Gen.dictionary.any (fun e =>
      e.nameKey == d.1 && e.code == d.2.1 && e.kind.published == d.2.2)) = true := by
  decide +kernel

/-! ### the typed constructors -/

/-- soundness of construction, every kind, every Python value: whenever a constructor accepts a
    value, the data it builds is the well-formed encoding of that value for the class's declared
    type — never a silently malformed or empty AVP -/
theorem construct_sound (k : Kind) (vs : List Nat) (v : PyVal) (d : Bytes) (hv : v.valid)
    (h : construct k vs v = .ok d) : dataOf' k vs v = some d :=
  Dict.construct_sound k vs v d hv h

/-- fixed widths: integer, enumerated and time data are 4 (8) bytes; an address is a 2-byte family
    followed by 4 or 16 bytes; enumerated data is a listed value -/
theorem encoding_widths (k : Kind) (vs : List Nat) (v : PyVal) (d : Bytes) (h : dataOf k vs v = some d) :
    (k = .unsigned32 ∨ k = .integer32 ∨ k = .enumerated ∨ k = .time → d.length = 4) ∧
    (k = .unsigned64 → d.length = 8) ∧ (k = .address → d.length = 6 ∨ d.length = 18) :=
  dataOf_width k vs v d h

theorem enumerated_member (vs : List Nat) (v : PyVal) (d : Bytes) (h : construct .enumerated vs v = .ok d) :
    d.length = 4 ∧ fromBE d ∈ vs := by
  cases v <;> simp_all [construct]
  split at h
  · rename_i hc; cases h; exact hc
  · cases h

/-- Grouped AVPs: every mandatory member present, data = concatenation of the members' encodings -/
theorem grouped_sound (mand : List (Option Nat × Nat)) (members : List Avp) (d : Bytes)
    (h : constructGrouped mand members = .ok d) :
    d = members.flatMap Avp.dump ∧ ∀ m ∈ mand, ∃ a ∈ members, a.code = m.2 :=
  constructGrouped_sound mand members d h

/-- out-of-type values are rejected with an exception, for instance: text / None / float for the
    integer types, wrong widths, unknown enumerators, unknown address families -/
theorem rejects_examples :
    (∀ vs, construct .unsigned32 vs .none = .err (.lib "DataTypeError")) ∧
    (∀ vs s, construct .unsigned32 vs (.str s) = .err (.lib "DataTypeError")) ∧
    (∀ vs, construct .unsigned64 vs .float = .err (.lib "DataTypeError")) ∧
    (construct .enumerated [0, 1] (.bytes [0, 0, 0, 2]) = .err (.lib "AVPAttributeValueError")) ∧
    (construct .address [] (.bytes [0, 3, 1, 2, 3, 4]) = .err (.lib "DataTypeError")) ∧
    (construct .unsigned32 [] (.bytes [1, 2, 3]) = .err (.lib "DataTypeError")) := by
  refine ⟨?_, ?_, ?_, ?_, ?_, ?_⟩ <;> intros <;> simp [construct] <;> decide

-- non-vacuity
example : construct .unsigned32 [] (.int 4294967295) = .ok [255, 255, 255, 255] ∧
    construct .unsigned64 [] (.int (2 ^ 64 - 1)) = .ok (List.replicate 8 255) := by
  constructor <;> simp [construct] <;> decide

end BV.C10
