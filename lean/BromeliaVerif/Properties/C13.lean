import BromeliaVerif.Model.Route
import BromeliaVerif.Properties.C12
/-! C13 — each request reaches its registered handler and always gets exactly one answer. -/
namespace BV.C13
open BV BV.Route BV.Decorate

theorem lookup_map_rewrite {β : Type} (k k' : Nat) (f : β → β) : ∀ (l : List (Nat × β)),
    (l.map (fun p => if p.1 == k then (k, f p.2) else p)).lookup k' =
      if k' = k then (l.lookup k).map f else l.lookup k'
  | [] => by simp [List.lookup]
  | (a, b) :: xs => by
    have ih := lookup_map_rewrite k k' f xs
    by_cases hak : a = k
    · subst hak
      by_cases hk : k' = a
      · subst hk; simp [List.lookup]
      · have : (k' == a) = false := by simpa using hk
        simp only [List.map_cons, beq_self_eq_true, ↓reduceIte, List.lookup_cons, this, hk] at ih ⊢
        exact ih
    · have hak' : (a == k) = false := by simpa using hak
      simp only [List.map_cons, hak', Bool.false_eq_true, ↓reduceIte, List.lookup_cons]
      by_cases hk : k' = k
      · subst hk
        have : (k' == a) = false := by simpa using fun e => hak e.symm
        simp only [this, ↓reduceIte] at ih ⊢; exact ih
      · simp only [hk, ↓reduceIte] at ih ⊢
        split
        · rfl
        · exact ih

theorem lookup_snoc {β : Type} (k k' : Nat) (d : β) : ∀ (l : List (Nat × β)),
    (l ++ [(k, d)]).lookup k' = match l.lookup k' with | some v => some v | none => if k' = k then some d else none
  | [] => by simp [List.lookup]; split <;> simp_all
  | (a, b) :: xs => by
    have ih := lookup_snoc k k' d xs
    simp only [List.cons_append, List.lookup_cons]
    split
    · rfl
    · exact ih

theorem lookup_of_any {β : Type} (k : Nat) : ∀ (l : List (Nat × β)),
    (l.any (·.1 == k) = false → l.lookup k = none) ∧ (l.any (·.1 == k) = true → ∃ v, l.lookup k = some v)
  | [] => by simp [List.lookup]
  | (a, b) :: xs => by
    have ih := lookup_of_any (β := β) k xs
    simp only [List.any_cons, List.lookup_cons, Bool.or_eq_false_iff, Bool.or_eq_true]
    constructor
    · rintro ⟨h1, h2⟩
      have : (k == a) = false := by simp at h1 ⊢; exact fun e => h1 e.symm
      simp only [this]; exact ih.1 h2
    · rintro (h1 | h2)
      · have : (k == a) = true := by simp at h1 ⊢; exact h1.symm
        simp only [this]; exact ⟨b, rfl⟩
      · split
        · exact ⟨b, rfl⟩
        · exact ih.2 h2

theorem lookup_upd_same {β : Type} (l : List (Nat × β)) (k : Nat) (f : β → β) (d : β) :
    (upd l k f d).lookup k = some (match l.lookup k with | some v => f v | none => d) := by
  unfold upd
  cases hany : l.any (·.1 == k) with
  | true =>
    obtain ⟨v, hv⟩ := (lookup_of_any k l).2 hany
    simp only [↓reduceIte, lookup_map_rewrite, hv, Option.map_some]
  | false =>
    have hv := (lookup_of_any k l).1 hany
    simp only [Bool.false_eq_true, ↓reduceIte, lookup_snoc, hv]

theorem lookup_upd_other {β : Type} (l : List (Nat × β)) (k k' : Nat) (f : β → β) (d : β) (hne : k' ≠ k) :
    (upd l k f d).lookup k' = l.lookup k' := by
  unfold upd
  cases hany : l.any (·.1 == k) with
  | true => simp only [↓reduceIte, lookup_map_rewrite, hne]
  | false =>
    simp only [Bool.false_eq_true, ↓reduceIte, lookup_snoc, hne]
    cases l.lookup k' <;> rfl

/-- after registering, the pair dispatches to the new handler -/
theorem dispatch_register_same (t : Table) (app cmd h : Nat) : dispatch (register t app cmd h) app cmd = some h := by
  unfold dispatch register
  rw [lookup_upd_same]
  cases t.lookup app with
  | none => simp [List.lookup]
  | some inner => simp only; rw [lookup_upd_same]; cases inner.lookup cmd <;> rfl

/-- … and every other pair — in particular the same command code under another application, and
    another command under the same application — is untouched -/
theorem dispatch_register_other (t : Table) (app cmd h app' cmd' : Nat) (hne : ¬ (app' = app ∧ cmd' = cmd)) :
    dispatch (register t app cmd h) app' cmd' = dispatch t app' cmd' := by
  unfold dispatch register
  by_cases ha : app' = app
  · subst ha
    have hc : cmd' ≠ cmd := fun e => hne ⟨rfl, e⟩
    rw [lookup_upd_same]
    cases t.lookup app' with
    | none =>
      have : (cmd' == cmd) = false := by simpa using hc
      simp [List.lookup, this]
    | some inner => simp only; exact lookup_upd_other inner cmd cmd' _ h hc
  · rw [lookup_upd_other _ _ _ _ _ ha]

structure Reg where
  app : Nat
  cmd : Nat
  h : Nat
deriving Repr, Inhabited

def build (hist : List Reg) (t0 : Table) : Table := hist.foldl (fun t r => register t r.app r.cmd r.h) t0

/-- the handler registered last for exactly this pair -/
def lastFor : List Reg → Nat → Nat → Option Nat
  | [], _, _ => none
  | r :: rs, app, cmd =>
    match lastFor rs app cmd with
    | some h => some h
    | none => if r.app = app ∧ r.cmd = cmd then some r.h else none

/-- dispatch is exact for every registration history (1..n applications × 1..m command codes,
    codes shared across applications, re-registrations): the handler run is the one registered last
    for exactly that (Application-ID, command code) pair -/
theorem dispatch_exact (hist : List Reg) : ∀ (t0 : Table) (app cmd : Nat),
    dispatch (build hist t0) app cmd = (match lastFor hist app cmd with | some h => some h | none => dispatch t0 app cmd) := by
  induction hist with
  | nil => intro t0 app cmd; rfl
  | cons r rs ih =>
    intro t0 app cmd
    simp only [build, List.foldl_cons]
    have := ih (register t0 r.app r.cmd r.h) app cmd
    simp only [build] at this
    rw [this]
    simp only [lastFor]
    cases lastFor rs app cmd with
    | some h => rfl
    | none =>
      simp only
      by_cases hm : r.app = app ∧ r.cmd = cmd
      · obtain ⟨rfl, rfl⟩ := hm; simp [dispatch_register_same]
      · simp only [hm, ↓reduceIte]
        exact dispatch_register_other _ _ _ _ _ _ (fun ⟨a, b⟩ => hm ⟨a.symm, b.symm⟩)

/-- the request carries what the error answer needs (every application request does) -/
def complete (r : Request) : Prop := r.session.isSome ∧ r.originHost.isSome ∧ r.originRealm.isSome

/-- exactly one answer per request, and by the right handler: for every route table, every request
    with a registered pair and every handler outcome {answer, None, wrong type, standard exception} -/
theorem one_answer_per_request (t : Table) (l : Local) (beh : Nat → Outcome) (r : Request) (h : Nat)
    (hd : dispatch t r.app r.cmd = some h) (hc : complete r)
    (hpre : ∀ a, beh h = .answer a → C12.Pre a (toReq r)) :
    (callbackRoute t l beh r).ran = some h ∧ (callbackRoute t l beh r).sent.length = 1 ∧
    (callbackRoute t l beh r).failure = none := by
  unfold callbackRoute
  rw [hd]
  obtain ⟨h1, h2, h3⟩ := hc
  have herr : ∃ e, errorAnswer l r = some e := by
    unfold errorAnswer
    cases hs : r.session <;> cases ho : r.originHost <;> cases hr : r.originRealm <;> simp_all
  obtain ⟨e, he⟩ := herr
  cases hb : beh h with
  | answer a =>
    obtain ⟨o, ho⟩ := C12.decorate_ok a (toReq r) (hpre a hb)
    simp [hb, ho]
  | none => simp [hb, he]
  | wrongType => simp [hb, he]
  | stdException => simp [hb, he]

/-- shape of the error answer: DIAMETER_UNABLE_TO_COMPLY, the request's command, Application-ID,
    identifiers and Session-Id, the local origin, the requester as destination -/
theorem error_answer_shape (l : Local) (r : Request) (e : ErrorAnswer) (h : errorAnswer l r = some e) :
    e.resultCode = 5012 ∧ e.cmd = r.cmd ∧ e.app = r.app ∧ e.hbh = r.hbh ∧ e.e2e = r.e2e ∧
    r.session = some e.session ∧ e.originHost = l.host ∧ e.originRealm = l.realm ∧
    r.originRealm = some e.destRealm ∧ r.originHost = some e.destHost := by
  unfold errorAnswer at h
  cases hs : r.session <;> cases ho : r.originHost <;> cases hr : r.originRealm <;> simp_all
  subst h; simp

/-- a handler that returns an answer gets it decorated and sent; any other outcome yields the error answer -/
theorem outcome_kind (t : Table) (l : Local) (beh : Nat → Outcome) (r : Request) (h : Nat)
    (hd : dispatch t r.app r.cmd = some h) (hc : complete r) :
    (∀ a, beh h ≠ .answer a) → ∃ e, (callbackRoute t l beh r).sent = [.error e] ∧ errorAnswer l r = some e := by
  intro hna
  unfold callbackRoute
  rw [hd]
  obtain ⟨h1, h2, h3⟩ := hc
  have herr : ∃ e, errorAnswer l r = some e := by
    unfold errorAnswer
    cases hs : r.session <;> cases ho : r.originHost <;> cases hr : r.originRealm <;> simp_all
  obtain ⟨e, he⟩ := herr
  cases hb : beh h with
  | answer a => exact absurd hb (hna a)
  | none => exact ⟨e, by simp [hb, he], he⟩
  | wrongType => exact ⟨e, by simp [hb, he], he⟩
  | stdException => exact ⟨e, by simp [hb, he], he⟩

-- non-vacuity: command 272 registered under two applications, re-registered once
example : let t := build [⟨16777238, 272, 1⟩, ⟨4, 272, 2⟩, ⟨16777238, 258, 3⟩, ⟨4, 272, 5⟩] []
    dispatch t 16777238 272 = some 1 ∧ dispatch t 4 272 = some 5 ∧ dispatch t 16777238 258 = some 3 ∧ dispatch t 4 258 = none := by
  decide

end BV.C13
