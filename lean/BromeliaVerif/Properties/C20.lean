import BromeliaVerif.Proofs.Bits
import BromeliaVerif.Gen.PyFuns
import BromeliaVerif.Model.Address
import BromeliaVerif.Model.Ipv4
import BromeliaVerif.Model.Time
/-! C20 — typed AVP value accessors agree with the wire data for every value (bit part; the Address
and Time parts follow below). -/
namespace BV.C20
open BV BV.Bits

/-- testing a bit reads exactly that bit of the big-endian word — every 4 data bytes, every index 0..31 -/
theorem bit_test_eq (d : Nat → Nat) (hd : ∀ k, k < 4 → d k < 256) (b : Nat) (hb : b < 32) :
    isBitSetD d b = some ((word d).testBit b) := isBitSetD_eq d hd b hb

/-- out-of-range indices are rejected (library error) by all three operations -/
theorem bit_errors_range (d : Nat → Nat) (b : Nat) (hb : 32 ≤ b) :
    isBitSetD d b = none ∧ setBitD d b = none ∧ unsetBitD d b = none := by
  have h : isBitSetD d b = none := by
    unfold isBitSetD
    have h1 : ¬ b < 8 := by omega
    have h2 : ¬ b < 16 := by omega
    have h3 : ¬ b < 24 := by omega
    have h4 : ¬ b < 32 := by omega
    simp [h1, h2, h3, h4]
  simp [setBitD, unsetBitD, h]

/-- redundant set / clear is rejected -/
theorem bit_errors_redundant (d : Nat → Nat) (hd : ∀ k, k < 4 → d k < 256) (b : Nat) (hb : b < 32) :
    ((word d).testBit b = true → setBitD d b = none) ∧
    ((word d).testBit b = false → unsetBitD d b = none) := by
  have h := isBitSetD_eq d hd b hb
  constructor <;> intro e <;> simp [setBitD, unsetBitD, h, e]

/-- setting a clear bit changes exactly that bit of the word (and keeps four bytes) -/
theorem bit_set_exact (d : Nat → Nat) (hd : ∀ k, k < 4 → d k < 256) (b : Nat) (hb : b < 32)
    (hclear : (word d).testBit b = false) :
    ∃ d', setBitD d b = some d' ∧ (∀ k, k < 4 → d' k < 256) ∧
      ∀ i, i < 32 → (word d').testBit i = ((word d).testBit i || decide (i = b)) := by
  have h := isBitSetD_eq d hd b hb
  have hk : 3 - b / 8 < 4 := by omega
  have hv : d (3 - b / 8) ||| 2 ^ (b % 8) < 256 := by
    have : (256 : Nat) = 2 ^ 8 := by decide
    rw [this]; apply Nat.or_lt_two_pow
    · rw [← this]; exact hd _ hk
    · exact Nat.pow_lt_pow_right (by decide) (by omega)
  refine ⟨upd d (3 - b / 8) (d (3 - b / 8) ||| 2 ^ (b % 8)), by simp [setBitD, h, hclear], upd_lt d hd _ _ hv, ?_⟩
  intro i hi
  rw [testBit_word_upd d hd _ _ hk hv i hi]
  obtain ⟨e, hk', hj⟩ := idx_decomp i hi
  have key := testBit_word d hd (3 - i / 8) (i % 8) hk' hj
  rw [← e] at key
  split
  · rename_i hki
    rw [Nat.testBit_or, Nat.testBit_two_pow]
    have : 3 - i / 8 = 3 - b / 8 := hki
    rw [← this, ← key]
    congr 1
    have : (b % 8 = i % 8) ↔ (i = b) := by omega
    simp [this]
  · rename_i hki
    have : i ≠ b := by intro e; subst e; exact hki rfl
    simp [this]

/-- clearing a set bit changes exactly that bit of the word -/
theorem bit_unset_exact (d : Nat → Nat) (hd : ∀ k, k < 4 → d k < 256) (b : Nat) (hb : b < 32)
    (hset : (word d).testBit b = true) :
    ∃ d', unsetBitD d b = some d' ∧ (∀ k, k < 4 → d' k < 256) ∧
      ∀ i, i < 32 → (word d').testBit i = ((word d).testBit i && !decide (i = b)) := by
  have h := isBitSetD_eq d hd b hb
  have hk : 3 - b / 8 < 4 := by omega
  have hv : d (3 - b / 8) ^^^ 2 ^ (b % 8) < 256 := by
    have : (256 : Nat) = 2 ^ 8 := by decide
    rw [this]; apply Nat.xor_lt_two_pow
    · rw [← this]; exact hd _ hk
    · exact Nat.pow_lt_pow_right (by decide) (by omega)
  refine ⟨upd d (3 - b / 8) (d (3 - b / 8) ^^^ 2 ^ (b % 8)), by simp [unsetBitD, h, hset], upd_lt d hd _ _ hv, ?_⟩
  intro i hi
  rw [testBit_word_upd d hd _ _ hk hv i hi]
  obtain ⟨e, hk', hj⟩ := idx_decomp i hi
  have key := testBit_word d hd (3 - i / 8) (i % 8) hk' hj
  rw [← e] at key
  split
  · rename_i hki
    rw [Nat.testBit_xor, Nat.testBit_two_pow]
    have : 3 - i / 8 = 3 - b / 8 := hki
    rw [← this, ← key]
    by_cases hib : i = b
    · subst hib; simp [hset]
    · have : ¬ (b % 8 = i % 8) := by omega
      simp [hib, this]
  · rename_i hki
    have : i ≠ b := by intro e; subst e; exact hki rfl
    simp [this]

/-- two 32-bit words with the same 32 bits are equal -/
theorem word_ext (x y : Nat) (hx : x < 2 ^ 32) (hy : y < 2 ^ 32) (h : ∀ i, i < 32 → x.testBit i = y.testBit i) : x = y := by
  apply Nat.eq_of_testBit_eq
  intro i
  by_cases hi : i < 32
  · exact h i hi
  · have h1 : x < 2 ^ i := Nat.lt_of_lt_of_le hx (Nat.pow_le_pow_right (by decide) (by omega))
    have h2 : y < 2 ^ i := Nat.lt_of_lt_of_le hy (Nat.pow_le_pow_right (by decide) (by omega))
    rw [Nat.testBit_lt_two_pow h1, Nat.testBit_lt_two_pow h2]

/-- setting a clear bit and clearing it again gives back the original word: `set_bit` / `unset_bit` are
    inverse to each other on every value and every index -/
theorem bit_set_unset_roundtrip (d : Nat → Nat) (hd : ∀ k, k < 4 → d k < 256) (b : Nat) (hb : b < 32)
    (hclear : (word d).testBit b = false) :
    ∃ d' d'', setBitD d b = some d' ∧ unsetBitD d' b = some d'' ∧ word d'' = word d := by
  obtain ⟨d', h1, hd', ht'⟩ := bit_set_exact d hd b hb hclear
  have hset : (word d').testBit b = true := by rw [ht' b hb]; simp
  obtain ⟨d'', h2, hd'', ht''⟩ := bit_unset_exact d' hd' b hb hset
  refine ⟨d', d'', h1, h2, word_ext _ _ (word_lt _ hd'') (word_lt _ hd) ?_⟩
  intro i hi
  rw [ht'' i hi, ht' i hi]
  by_cases e : i = b
  · subst e; simp [hclear]
  · simp [e]

/-- … and the other way round -/
theorem bit_unset_set_roundtrip (d : Nat → Nat) (hd : ∀ k, k < 4 → d k < 256) (b : Nat) (hb : b < 32)
    (hset : (word d).testBit b = true) :
    ∃ d' d'', unsetBitD d b = some d' ∧ setBitD d' b = some d'' ∧ word d'' = word d := by
  obtain ⟨d', h1, hd', ht'⟩ := bit_unset_exact d hd b hb hset
  have hclear : (word d').testBit b = false := by rw [ht' b hb]; simp
  obtain ⟨d'', h2, hd'', ht''⟩ := bit_set_exact d' hd' b hb hclear
  refine ⟨d', d'', h1, h2, word_ext _ _ (word_lt _ hd'') (word_lt _ hd) ?_⟩
  intro i hi
  rw [ht'' i hi, ht' i hi]
  by_cases e : i = b
  · subst e; simp [hset]
  · simp [e]
theorem decide_ne_eq_bne (a b : Nat) : decide (a ≠ b) = (a != b) := by
  by_cases h : a = b <;> simp [h]

/-- the accessor translated from the source on this run is the hand model -/
theorem gen_isBitSet_eq (d : Nat → Nat) (b : Nat) : Gen.isBitSet d b = isBitSetD d b := by
  first
  | rfl        -- Gen/PyFuns.lean fell back to the hand model (source outside the translator's subset): tie (b) alone
  | (
    unfold Gen.isBitSet isBitSetD
    repeat' split
    all_goals first | rfl | (exfalso; simp at *; omega) | (simp only [decide_ne_eq_bne]; done) | (simp [decide_ne_eq_bne]; done) | (simp_all [decide_ne_eq_bne]; done)
    )

/-! `set_bit` / `unset_bit` as translated from the source on this run (Gen/PyFuns.lean) are the hand model: `none` exactly
when the code raises, otherwise the four data bytes afterwards — so `set_changes_exactly` / `unset_changes_exactly` above
hold of the code as it is now, for all data bytes and every index -/
theorem isBitSetD_some_lt (d : Nat → Nat) (b : Nat) (v : Bool) (h : isBitSetD d b = some v) : b < 32 := by
  unfold isBitSetD at h
  repeat' split at h
  all_goals first | omega | cases h

theorem pow_mod8_lt (b : Nat) : 2 ^ (b % 8) < 256 := by
  have : b % 8 < 8 := Nat.mod_lt _ (by decide)
  calc 2 ^ (b % 8) < 2 ^ 8 := Nat.pow_lt_pow_right (by decide) this
    _ = 256 := by decide

theorem or_byte_lt (x b : Nat) (hx : x < 256) : x ||| 2 ^ (b % 8) < 256 := by
  have : x ||| 2 ^ (b % 8) < 2 ^ 8 := Nat.or_lt_two_pow (by simpa using hx) (by simpa using pow_mod8_lt b)
  simpa using this

theorem xor_byte_lt (x b : Nat) (hx : x < 256) : x ^^^ 2 ^ (b % 8) < 256 := by
  have : x ^^^ 2 ^ (b % 8) < 2 ^ 8 := Nat.xor_lt_two_pow (by simpa using hx) (by simpa using pow_mod8_lt b)
  simpa using this

macro "bit_cases" b:ident hlt:ident f:ident h0:ident h1:ident h2:ident h3:ident : tactic => `(tactic| (
      have hq : $b / 8 = 0 ∨ $b / 8 = 1 ∨ $b / 8 = 2 ∨ $b / 8 = 3 := by omega
      rcases hq with q | q | q | q
      · have c1 : $b < 8 := by omega
        have e : $b % 8 = $b := Nat.mod_eq_of_lt c1
        have := $f _ $b $h3
        simp [c1, $h0:ident, $h1:ident, $h2:ident, this, acc4, upd, q, e] <;> (rw [e] at this; simp [this])
      · have c1 : ¬ $b < 8 := by omega
        have c2 : 8 ≤ $b := by omega
        have c3 : $b < 16 := by omega
        have := $f _ $b $h2
        simp [c1, c2, c3, $h0:ident, $h1:ident, $h3:ident, this, acc4, upd, q]
      · have c1 : ¬ $b < 8 := by omega
        have c2 : ¬ $b < 16 := by omega
        have c3 : 16 ≤ $b := by omega
        have c4 : $b < 24 := by omega
        have c5 : 8 ≤ $b := by omega
        have := $f _ $b $h1
        simp [c1, c2, c3, c4, c5, $h0:ident, $h2:ident, $h3:ident, this, acc4, upd, q]
      · have c1 : ¬ $b < 8 := by omega
        have c2 : ¬ $b < 16 := by omega
        have c3 : ¬ $b < 24 := by omega
        have c4 : 24 ≤ $b := by omega
        have c5 : 8 ≤ $b := by omega
        have c6 : 16 ≤ $b := by omega
        have := $f _ $b $h0
        simp [c1, c2, c3, c4, c5, c6, $hlt:ident, $h1:ident, $h2:ident, $h3:ident, this, acc4, upd, q]))

theorem gen_setBit_eq (d0 d1 d2 d3 b : Nat) (h0 : d0 < 256) (h1 : d1 < 256) (h2 : d2 < 256) (h3 : d3 < 256) :
    Gen.setBit d0 d1 d2 d3 b = (setBitD (acc4 d0 d1 d2 d3) b).map (fun f => (f 0, f 1, f 2, f 3)) := by
  first
  | rfl        -- Gen/PyFuns.lean fell back to the hand model (source outside the translator's subset): tie (b) alone
  | (
    unfold Gen.setBit setBitD
    rw [show (fun k => if k = 0 then d0 else if k = 1 then d1 else if k = 2 then d2 else d3) = acc4 d0 d1 d2 d3 from rfl, gen_isBitSet_eq]
    cases hb : isBitSetD (acc4 d0 d1 d2 d3) b with
    | none => rfl
    | some v =>
      have hlt := isBitSetD_some_lt _ _ _ hb
      cases v
      · simp only [Option.map]
        bit_cases b hlt or_byte_lt h0 h1 h2 h3
      · rfl
    )

theorem gen_unsetBit_eq (d0 d1 d2 d3 b : Nat) (h0 : d0 < 256) (h1 : d1 < 256) (h2 : d2 < 256) (h3 : d3 < 256) :
    Gen.unsetBit d0 d1 d2 d3 b = (unsetBitD (acc4 d0 d1 d2 d3) b).map (fun f => (f 0, f 1, f 2, f 3)) := by
  first
  | rfl        -- Gen/PyFuns.lean fell back to the hand model (source outside the translator's subset): tie (b) alone
  | (
    unfold Gen.unsetBit unsetBitD
    rw [show (fun k => if k = 0 then d0 else if k = 1 then d1 else if k = 2 then d2 else d3) = acc4 d0 d1 d2 d3 from rfl, gen_isBitSet_eq]
    cases hb : isBitSetD (acc4 d0 d1 d2 d3) b with
    | none => rfl
    | some v =>
      have hlt := isBitSetD_some_lt _ _ _ hb
      cases v
      · rfl
      · simp only [Option.map]
        bit_cases b hlt xor_byte_lt h0 h1 h2 h3
    )

-- non-vacuity: bit 9 of 0x00000200 is set, bit 8 is not; setting bit 0 of 0x80000000 gives 0x80000001
example : isBitSet 0x200 9 = some true ∧ isBitSet 0x200 8 = some false ∧ isBitSet 0 32 = none := by decide
example : setBit 0x80000000 0 = some 0x80000001 ∧ unsetBit 0x80000001 31 = some 1 ∧ setBit 1 0 = none := by decide

/-! ### set_bit / unset_bit undo each other — on the translated code -/

def tup (f : Nat → Nat) : Nat × Nat × Nat × Nat := (f 0, f 1, f 2, f 3)

theorem isBitSetD_congr (d e : Nat → Nat) (h : ∀ k, k < 4 → d k = e k) (b : Nat) : isBitSetD d b = isBitSetD e b := by
  unfold isBitSetD
  rw [h 0 (by omega), h 1 (by omega), h 2 (by omega), h 3 (by omega)]

theorem upd_tup_congr (d e : Nat → Nat) (h : ∀ k, k < 4 → d k = e k) (j v w : Nat) (_hj : j < 4) (hv : v = w) :
    tup (upd d j v) = tup (upd e j w) := by
  subst hv
  simp only [tup, upd]
  rw [h 0 (by omega), h 1 (by omega), h 2 (by omega), h 3 (by omega)]

/-- the bit operations read and write the four data bytes only -/
theorem unsetBitD_congr (d e : Nat → Nat) (h : ∀ k, k < 4 → d k = e k) (b : Nat) :
    (unsetBitD d b).map tup = (unsetBitD e b).map tup := by
  unfold unsetBitD
  rw [isBitSetD_congr d e h b]
  cases hb : isBitSetD e b with
  | none => rfl
  | some v =>
    have hlt := isBitSetD_some_lt _ _ _ hb
    cases v
    · rfl
    · simp only [Option.map]
      have hj : 3 - b / 8 < 4 := by omega
      rw [upd_tup_congr d e h _ _ _ hj (by rw [h _ hj])]

theorem acc4_tup (f : Nat → Nat) : ∀ k, k < 4 → acc4 (f 0) (f 1) (f 2) (f 3) k = f k := by
  intro k hk
  have : k = 0 ∨ k = 1 ∨ k = 2 ∨ k = 3 := by omega
  rcases this with rfl | rfl | rfl | rfl <;> simp [acc4]

theorem word_acc4_inj (d0 d1 d2 d3 e0 e1 e2 e3 : Nat) (_h0 : d0 < 256) (h1 : d1 < 256) (h2 : d2 < 256) (h3 : d3 < 256)
    (_g0 : e0 < 256) (g1 : e1 < 256) (g2 : e2 < 256) (g3 : e3 < 256)
    (h : word (acc4 d0 d1 d2 d3) = word (acc4 e0 e1 e2 e3)) : (d0, d1, d2, d3) = (e0, e1, e2, e3) := by
  simp only [word, acc4] at h
  simp at h
  have a0 : d0 = e0 := by omega
  have a1 : d1 = e1 := by omega
  have a2 : d2 = e2 := by omega
  have a3 : d3 = e3 := by omega
  simp [a0, a1, a2, a3]

/-- CODE level (over the translation of `Unsigned32Type.set_bit` / `unset_bit`): if `set_bit(b)` succeeds on data
    bytes d0..d3, then `unset_bit(b)` on the result succeeds and gives back exactly d0..d3 -/
theorem code_set_unset_roundtrip (d0 d1 d2 d3 b : Nat) (h0 : d0 < 256) (h1 : d1 < 256) (h2 : d2 < 256) (h3 : d3 < 256)
    (e : Nat × Nat × Nat × Nat) (hs : Gen.setBit d0 d1 d2 d3 b = some e) :
    Gen.unsetBit e.1 e.2.1 e.2.2.1 e.2.2.2 b = some (d0, d1, d2, d3) := by
  have hd : ∀ k, k < 4 → acc4 d0 d1 d2 d3 k < 256 := by
    intro k hk
    have : k = 0 ∨ k = 1 ∨ k = 2 ∨ k = 3 := by omega
    rcases this with rfl | rfl | rfl | rfl <;> simp [acc4, h0, h1, h2, h3]
  rw [gen_setBit_eq d0 d1 d2 d3 b h0 h1 h2 h3] at hs
  cases hset : setBitD (acc4 d0 d1 d2 d3) b with
  | none => rw [hset] at hs; cases hs
  | some d' =>
    rw [hset] at hs
    simp only [Option.map, Option.some.injEq] at hs
    subst hs
    have hb : b < 32 := by
      unfold setBitD at hset
      cases hi : isBitSetD (acc4 d0 d1 d2 d3) b with
      | none => rw [hi] at hset; cases hset
      | some v => exact isBitSetD_some_lt _ _ _ hi
    have hclear : (word (acc4 d0 d1 d2 d3)).testBit b = false := by
      cases hc : (word (acc4 d0 d1 d2 d3)).testBit b with
      | false => rfl
      | true => rw [(bit_errors_redundant _ hd b hb).1 hc] at hset; cases hset
    obtain ⟨d1', d'', hs1, hs2, hw⟩ := bit_set_unset_roundtrip _ hd b hb hclear
    rw [hset] at hs1
    cases hs1
    obtain ⟨_, hs1', hd', _⟩ := bit_set_exact _ hd b hb hclear
    rw [hset] at hs1'; cases hs1'
    have hset' : (word d').testBit b = true := by
      obtain ⟨_, q, _, ht⟩ := bit_set_exact _ hd b hb hclear
      rw [hset] at q; cases q
      rw [ht b hb]; simp
    obtain ⟨_, hu, hd'', _⟩ := bit_unset_exact d' hd' b hb hset'
    rw [hs2] at hu; cases hu
    show Gen.unsetBit (d' 0) (d' 1) (d' 2) (d' 3) b = _
    rw [gen_unsetBit_eq _ _ _ _ b (hd' 0 (by omega)) (hd' 1 (by omega)) (hd' 2 (by omega)) (hd' 3 (by omega))]
    have hc := unsetBitD_congr (acc4 (d' 0) (d' 1) (d' 2) (d' 3)) d' (acc4_tup d') b
    show Option.map tup _ = _
    rw [hc, hs2]
    simp only [Option.map, Option.some.injEq, tup]
    have hw' : word (acc4 (d'' 0) (d'' 1) (d'' 2) (d'' 3)) = word (acc4 d0 d1 d2 d3) := by
      rw [← hw]; simp [word, acc4]
    exact word_acc4_inj _ _ _ _ _ _ _ _ (hd'' 0 (by omega)) (hd'' 1 (by omega)) (hd'' 2 (by omega)) (hd'' 3 (by omega)) h0 h1 h2 h3 hw'
end BV.C20

/-! ### Address -/
namespace BV.C20
open BV BV.Address

/-- an Address AVP built from any IPv4 or IPv6 address encodes the family code followed by the packed
    address and reports the same family and address back -/
theorem address_roundtrip (f : Fam) (packed : Bytes) (h : packed.length = width f) :
    (mk f packed).take 2 = famCode f ∧ (mk f packed).drop 2 = packed ∧
    famOf (mk f packed) = some f ∧ packedOf (mk f packed) = packed ∧ fromBytesOk (mk f packed) = true := by
  cases f <;> simp [mk, famCode, famOf, packedOf, fromBytesOk, width] at * <;> simp [h]

/-- the family code is 1 for IPv4 and 2 for IPv6, big-endian on two bytes -/
theorem address_family_code : famCode .v4 = be 2 1 ∧ famCode .v6 = be 2 2 := by decide

/-- data of any other shape is not accepted from the wire -/
theorem address_wire_rejects (data : Bytes) (h : fromBytesOk data = true) :
    ∃ f, data.take 2 = famCode f ∧ (data.drop 2).length = width f := by
  unfold fromBytesOk at h
  simp only [Bool.or_eq_true, Bool.and_eq_true, beq_iff_eq] at h
  rcases h with ⟨a, b⟩ | ⟨a, b⟩
  · exact ⟨.v4, a, b⟩
  · exact ⟨.v6, a, b⟩

example : mk .v4 [10, 129, 241, 235] = [0, 1, 10, 129, 241, 235] := by decide
example : BV.Ipv4.parse "10.129.241.235".toList = some [10, 129, 241, 235] ∧
    BV.Ipv4.parse "10.129.241.0235".toList = none ∧ BV.Ipv4.parse "10.129.241".toList = none ∧
    BV.Ipv4.parse "10.129.241.01".toList = none := by decide

/-! ### Time -/
open BV.Time BV.Spec.Ntp

/-- the Time data are the whole seconds, big-endian on four bytes, for every representable instant -/
theorem time_is_seconds (days secs : Nat) (h : days * 86400 + secs < 2 ^ 32) :
    ∃ bs, timeData days secs = some bs ∧ bs.length = 4 ∧ fromBE bs = days * 86400 + secs := by
  refine ⟨be 4 (days * 86400 + secs), by simp [timeData, h], by simp, ?_⟩
  exact fromBE_be 4 _ (by simpa using h)

/-- instants beyond 2036-02-07T06:28:15 are rejected, not wrapped -/
theorem time_range_error (days secs : Nat) (h : 2 ^ 32 ≤ days * 86400 + secs) : timeData days secs = none := by
  simp [timeData]; omega

/-- `Spec.Ntp` is the day count from 1900-01-01: day 0 and the three successor laws characterise it -/
theorem ntp_epoch : seconds 1900 1 1 0 0 0 = 0 := by decide

theorem ntp_next_day (y m d hh mm ss : Nat) (hd : 1 ≤ d) :
    seconds y m (d + 1) hh mm ss = seconds y m d hh mm ss + 86400 := by
  unfold seconds days; omega

theorem ntp_next_month (y m : Nat) (hm : 1 ≤ m) :
    days y (m + 1) 1 = days y m 1 + daysInMonth y m := by
  unfold days daysBeforeMonth
  have : m + 1 - 1 = (m - 1) + 1 := by omega
  rw [this, List.range_succ, List.map_append, List.sum_append]
  have : m - 1 + 1 = m := by omega
  simp [this]; omega

theorem ntp_next_year (y : Nat) (hy : 1900 ≤ y) :
    days (y + 1) 1 1 = days y 1 1 + yearLen y := by
  unfold days daysBeforeYear daysBeforeMonth
  have : y + 1 - 1900 = (y - 1900) + 1 := by omega
  rw [this, List.range_succ, List.map_append, List.sum_append]
  have : 1900 + (y - 1900) = y := by omega
  simp [this]

theorem ntp_year_is_twelve_months (y : Nat) : daysBeforeMonth y 13 = yearLen y := by
  unfold daysBeforeMonth yearLen daysInMonth
  cases isLeap y <;> decide

/-- the last representable instant -/
example : seconds 2036 2 7 6 28 15 = 2 ^ 32 - 1 := by decide +kernel
example : seconds 2021 3 4 5 6 7 = 3823823167 := by decide +kernel

end BV.C20
