import BromeliaVerif.Model.Psm
/-! C06 — the peer state machine follows RFC 6733 and opens only for the configured peer.
(C07's theorems are in Properties/C07.lean over the same model.) -/
namespace BV.C06
open BV BV.Psm BV.Process

/-! ### validity predicates: only the configured peer passes -/

theorem valid_cer_is_peer (p : Peer) (flags : Nat) (as : List PAvp) (h : validCER p flags as = true) :
    flags = 0x80 ∧ (∃ f l, PAvp.originHost f l p.host ∈ as) ∧ (∃ f l, PAvp.originRealm f l p.realm ∈ as) ∧
    PAvp.hostIp ∈ as ∧ PAvp.vendorId ∈ as ∧ PAvp.productName ∈ as := by
  simp only [validCER, Bool.and_eq_true, beq_iff_eq, decide_eq_true_eq] at h
  obtain ⟨⟨⟨⟨⟨⟨h1, h2⟩, h3⟩, h4⟩, h5⟩, h6⟩, _⟩ := h
  refine ⟨h1, ?_, ?_, ?_, ?_, ?_⟩
  · obtain ⟨a, ha, hp⟩ := List.any_eq_true.mp h2
    cases a <;> simp at hp
    rename_i f l d; obtain ⟨_, rfl⟩ := hp; exact ⟨f, l, ha⟩
  · obtain ⟨a, ha, hp⟩ := List.any_eq_true.mp h3
    cases a <;> simp at hp
    rename_i f l d; obtain ⟨_, rfl⟩ := hp; exact ⟨f, l, ha⟩
  · obtain ⟨a, ha, hp⟩ := List.any_eq_true.mp h4; cases a <;> simp at hp; exact ha
  · obtain ⟨a, ha, hp⟩ := List.any_eq_true.mp h5; cases a <;> simp at hp; exact ha
  · obtain ⟨a, ha, hp⟩ := List.any_eq_true.mp h6; cases a <;> simp at hp; exact ha

theorem valid_cea_is_peer (p : Peer) (flags : Nat) (as : List PAvp) (h : validCEA p flags as = true) :
    flags = 0 ∧ (∃ f l, PAvp.originHost f l p.host ∈ as) ∧ (∃ f l, PAvp.originRealm f l p.realm ∈ as) := by
  simp only [validCEA, Bool.and_eq_true, beq_iff_eq] at h
  obtain ⟨⟨⟨⟨⟨⟨h1, _⟩, h2⟩, h3⟩, _⟩, _⟩, _⟩ := h
  refine ⟨h1, ?_, ?_⟩
  · obtain ⟨a, ha, hp⟩ := List.any_eq_true.mp h2
    cases a <;> simp at hp
    rename_i f l d; obtain ⟨_, rfl⟩ := hp; exact ⟨f, l, ha⟩
  · obtain ⟨a, ha, hp⟩ := List.any_eq_true.mp h3
    cases a <;> simp at hp
    rename_i f l d; obtain ⟨_, rfl⟩ := hp; exact ⟨f, l, ha⟩

/-- the crafted request of the pinned defect (no Origin-Host of the configured peer, two
    Host-IP-Address AVPs to make the count add up) is not valid -/
example : validCER ⟨[1], [2]⟩ 0x80 [.originHost true true [9], .originRealm true true [2], .hostIp, .hostIp, .vendorId, .productName] = false := by
  decide

/-! ### invariants over every history of environment actions and ticks -/

/-- Open (or Closing, which is only entered from Open) implies a completed capabilities exchange of
    this connection; a stopped machine has released its transport; Closed-and-stopped is released -/
structure Inv (n : Node) : Prop where
  open_cex : (n.st = .opened ∨ n.st = .closing) → n.cexOk = true
  stopped_released : n.running = false → n.tr = none ∧ n.st = .closed
  cex_needs_run : n.cexOk = true → n.running = true

theorem inv_init (r : Role) : Inv (init r) := by
  constructor <;> simp [init]

theorem goto_inv (n : Node) (cur next : St) (hrun : n.running = true)
    (hc : (next = .opened ∨ next = .closing) → n.cexOk = true) :
    Inv (goto n cur next) := by
  unfold goto
  split
  · constructor <;> simp
  · rename_i hne
    constructor
    · intro h; exact hc h
    · intro h; simp [hrun] at h
    · intro _; exact hrun

@[simp] theorem send_running (n : Node) (o : Out) : (send n o).running = n.running := rfl
@[simp] theorem send_cex (n : Node) (o : Out) : (send n o).cexOk = n.cexOk := rfl
@[simp] theorem answer_running (n : Node) (m : PMsg) (o : Out) : (answer n m o).running = n.running := rfl
@[simp] theorem answer_cex (n : Node) (m : PMsg) (o : Out) : (answer n m o).cexOk = n.cexOk := rfl
@[simp] theorem flush_running (n : Node) : (flush n).running = n.running := rfl
@[simp] theorem flush_cex (n : Node) : (flush n).cexOk = n.cexOk := rfl
@[simp] theorem forceStop_running (n : Node) : (forceStop n).running = n.running := rfl
@[simp] theorem forceStop_cex (n : Node) : (forceStop n).cexOk = n.cexOk := rfl
@[simp] theorem track_running (n : Node) : (trackEvents n).running = n.running := by
  unfold trackEvents; split <;> (try split) <;> rfl
@[simp] theorem track_cex (n : Node) : (trackEvents n).cexOk = n.cexOk := by
  unfold trackEvents; split <;> (try split) <;> rfl

theorem connAttempt_facts (n : Node) :
    (connAttempt n).1.running = n.running ∧ (connAttempt n).2 ≠ .opened ∧ (connAttempt n).2 ≠ .closing := by
  unfold connAttempt
  cases n.tr with
  | none => simp
  | some t => by_cases hc : t.connected = true <;> by_cases ho : t.connOk = true <;> simp [hc, ho]

theorem connRecv_facts (r1 : Node × St) (h2 : r1.2 ≠ .opened ∧ r1.2 ≠ .closing) :
    (connRecv r1).1.running = r1.1.running ∧ (connRecv r1).2 ≠ .opened ∧ (connRecv r1).2 ≠ .closing := by
  unfold connRecv
  split
  · exact ⟨rfl, h2⟩
  · simp only
    split
    · simp
    · exact ⟨rfl, h2⟩

theorem runWaitConnAck_facts (n : Node) :
    (runWaitConnAck n).1.running = n.running ∧ (runWaitConnAck n).2 ≠ .opened ∧ (runWaitConnAck n).2 ≠ .closing := by
  unfold runWaitConnAck
  have h1 := connAttempt_facts n
  have h2 := connRecv_facts (connAttempt n) h1.2
  exact ⟨h2.1.trans h1.1, h2.2⟩

/-- `run()` never stops the loop by itself, and it asks for Open / Closing only with a completed
    capabilities exchange -/
theorem runState_facts (n : Node) (h : Inv n) (hr : n.running = true) :
    (runState n).1.running = true ∧ (((runState n).2 = .opened ∨ (runState n).2 = .closing) → (runState n).1.cexOk = true) := by
  unfold runState
  cases hs : n.st with
  | closed =>
    simp only [runClosed]
    cases n.role with
    | client => simp [hr]
    | server =>
      simp only
      split
      · simp [hr]
      · split <;> simp [hr]
  | waitConnAck =>
    simp only
    exact ⟨(runWaitConnAck_facts n).1.trans hr, fun hx => absurd hx (by
      have := (runWaitConnAck_facts n).2; intro hx; rcases hx with hx | hx <;> simp_all)⟩
  | waitICEA =>
    simp only [runWaitICEA]
    split
    · simp [hr]
    · split
      · simp [hr]
      · split
        · split <;> simp [hr]
        · simp [hr]
  | opened =>
    have hc : n.cexOk = true := h.open_cex (.inl hs)
    simp only [runOpen]
    split
    · simp [hr]
    · split
      · simp [hr, hc]
      · split
        · simp [hr, hc]
        · split
          · simp [hr, hc]
          · rename_i m rest _
            simp only [openRecv]
            cases m.kind <;> simp only <;> (try split) <;> simp [hr, hc]
  | closing =>
    have hc : n.cexOk = true := h.open_cex (.inr hs)
    simp only [runClosing]
    split
    · simp [hr]
    · split
      · simp [hr, hc]
      · split <;> simp [hr, hc]
  | waitReturns => simp [hr]
  | waitConnAckElect => simp [hr]

theorem tick_inv (n : Node) (h : Inv n) : Inv (tick n) := by
  unfold tick
  by_cases hr : n.running = true
  · simp only [hr, Bool.not_true, Bool.false_eq_true, ↓reduceIte]
    obtain ⟨h1, h2⟩ := runState_facts n h hr
    exact goto_inv _ _ _ h1 h2
  · simp only [Bool.not_eq_true] at hr
    simp only [hr, Bool.not_false, ↓reduceIte]
    exact h

theorem apply_inv (n : Node) (e : Ev) (h : Inv n) : Inv (apply n e) := by
  cases e with
  | tick => exact tick_inv n h
  | inject m => exact ⟨h.open_cex, h.stopped_released, h.cex_needs_run⟩
  | connAck =>
    refine ⟨h.open_cex, ?_, h.cex_needs_run⟩
    intro hr; have := h.stopped_released hr; simp [apply, updTr, this.1, this.2]
  | connNack =>
    refine ⟨h.open_cex, ?_, h.cex_needs_run⟩
    intro hr; have := h.stopped_released hr; simp [apply, updTr, this.1, this.2]
  | localStop => exact ⟨h.open_cex, h.stopped_released, h.cex_needs_run⟩
  | peerDisc =>
    refine ⟨h.open_cex, ?_, h.cex_needs_run⟩
    intro hr; have := h.stopped_released hr; simp [apply, updTr, this.1, this.2]
  | idle =>
    refine ⟨h.open_cex, ?_, h.cex_needs_run⟩
    intro hr; have := h.stopped_released hr; simp [apply, updTr, this.1, this.2]
  | submit id =>
    simp only [apply]
    split
    · exact ⟨h.open_cex, h.stopped_released, h.cex_needs_run⟩
    · exact h
  | restart =>
    simp only [apply]
    split
    · constructor <;> simp [init]
    · exact h

/-- MAIN INVARIANT, every history of environment actions and ticks, both roles: the reported state is
    Open (or Closing) only after a capabilities exchange with the configured peer on this connection;
    a machine that has stopped ticking is Closed and has released its transport -/
theorem open_only_after_cex (role : Role) (evs : List Ev) : Inv (run role evs) := by
  unfold run
  suffices ∀ n, Inv n → Inv (evs.foldl apply n) from this _ (inv_init role)
  induction evs with
  | nil => intro n h; exact h
  | cons e es ih => intro n h; exact ih _ (apply_inv n e h)

/-- where `cexOk` comes from: `run()` sets it only when a valid CER (server, Closed) or a valid CEA
    (Wait-I-CEA) is at the head of the receive queue -/
theorem cex_source (n : Node) (h0 : n.cexOk = false) (h1 : (runState n).1.cexOk = true) :
    ∃ m rest, n.recvq = m :: rest ∧ m.valid = true ∧
      ((n.st = .closed ∧ n.role = .server ∧ m.kind = .cer) ∨ (n.st = .waitICEA ∧ m.kind = .cea)) := by
  unfold runState at h1
  cases hs : n.st with
  | closed =>
    simp only [hs, runClosed] at h1
    cases hrole : n.role with
    | client => simp [hrole, h0] at h1
    | server =>
      simp only [hrole] at h1
      cases hq : n.recvq with
      | nil => simp [hq, h0] at h1
      | cons m rest =>
        simp only [hq] at h1
        by_cases hv : (m.kind == .cer && m.valid) = true
        · simp only [Bool.and_eq_true, beq_iff_eq] at hv
          exact ⟨m, rest, rfl, hv.2, .inl ⟨rfl, rfl, hv.1⟩⟩
        · simp [hv, h0] at h1
  | waitConnAck =>
    simp only [hs] at h1
    have : (runWaitConnAck n).1.cexOk = n.cexOk := by
      unfold runWaitConnAck connRecv connAttempt
      cases n.tr with
      | none => simp only; split <;> (try split) <;> rfl
      | some t =>
        by_cases hc : t.connected = true <;> by_cases ho : t.connOk = true <;> simp only [hc, ho, ↓reduceIte, Bool.false_eq_true] <;>
          (split <;> (try split) <;> rfl)
    rw [this, h0] at h1; cases h1
  | waitICEA =>
    simp only [hs, runWaitICEA] at h1
    split at h1
    · simp [h0] at h1
    · cases hq : n.recvq with
      | nil => simp [hq, h0] at h1
      | cons m rest =>
        simp only [hq] at h1
        by_cases hk : m.kind = .cea
        · by_cases hv : m.valid = true
          · exact ⟨m, rest, rfl, hv, .inr ⟨rfl, hk⟩⟩
          · simp [hk, hv, h0] at h1
        · simp [hk, h0] at h1
  | opened =>
    simp only [hs, runOpen] at h1
    split at h1
    · simp [h0] at h1
    · split at h1
      · simp [h0] at h1
      · split at h1
        · simp [h0] at h1
        · split at h1
          · simp [h0] at h1
          · rename_i m rest _
            simp only [openRecv] at h1
            cases hk : m.kind <;> simp only [hk] at h1 <;> (try split at h1) <;> simp [h0] at h1
  | closing =>
    simp only [hs, runClosing] at h1
    split at h1
    · simp [h0] at h1
    · split at h1
      · simp [h0] at h1
      · split at h1 <;> simp [h0] at h1
  | waitReturns => simp [hs, h0] at h1
  | waitConnAckElect => simp [hs, h0] at h1

/-! ### single transitions named in the statement -/

/-- a local stop on an open connection sends the queued messages and exactly one DPR, then waits
    (Closing) -/
theorem stop_sends_one_dpr (n : Node) (hs : n.st = .opened) (hr : n.running = true) (ha : n.active = false)
    (hp : peerGone (trackEvents n) = false) :
    (tick n).st = .closing ∧ (tick n).emitted = n.emitted ++ (trackEvents n).sendq ++ [.dpr] ∧ (tick n).running = true := by
  have e : (trackEvents n).active = false := by
    unfold trackEvents; split <;> (try split) <;> simp [ha]
  have em : (trackEvents n).emitted = n.emitted := by
    unfold trackEvents; split <;> (try split) <;> rfl
  simp [tick, hr, runState, hs, runOpen, hp, e, goto, send, em]

/-- while Closing nothing more is written to the transport (in particular no second DPR) -/
theorem closing_emits_nothing (n : Node) (hs : n.st = .closing) : (tick n).emitted = n.emitted := by
  unfold tick
  split
  · rfl
  · simp only [runState, hs, runClosing]
    split
    · simp [goto, forceStop]
    · split
      · simp [goto]
      · split <;> simp [goto, forceStop]

/-- … and the DPA ends the wait: Closed, transport released -/
theorem dpa_closes (n : Node) (hs : n.st = .closing) (hr : n.running = true) (hp : peerGone n = false)
    (m : PMsg) (rest : List PMsg) (hq : n.recvq = m :: rest) (hk : m.kind = .dpa) :
    (tick n).st = .closed ∧ (tick n).tr = none ∧ (tick n).running = false := by
  simp [tick, hr, runState, hs, runClosing, hp, hq, hk, goto]

/-- a received (valid) DPR is answered with a DPA carrying its identifiers and closes the connection -/
theorem dpr_answered_then_closed (n : Node) (hs : n.st = .opened) (hr : n.running = true) (ha : n.active = true)
    (ht : ∃ t, n.tr = some t ∧ t.idle = false ∧ t.peerGone = false) (hsq : n.sendq = [])
    (m : PMsg) (rest : List PMsg) (hq : n.recvq = m :: rest) (hk : m.kind = .dpr) (hv : m.valid = true) :
    (tick n).st = .closed ∧ (tick n).tr = none ∧ (tick n).emitted = n.emitted ++ [.dpa m.hbh m.e2e] := by
  obtain ⟨t, ht1, ht2, ht3⟩ := ht
  have e : trackEvents n = n := by simp [trackEvents, ht1, ht2]
  simp [tick, hr, runState, hs, runOpen, e, peerGone, ht1, ht3, ha, hsq, hq, openRecv, hk, hv, goto, answer, send, forceStop]

/-- anything but a CEA while awaiting one closes the connection; so does a peer disconnect -/
theorem non_cea_closes (n : Node) (hs : n.st = .waitICEA) (hr : n.running = true)
    (h : peerGone n = true ∨ ∃ m rest, n.recvq = m :: rest ∧ m.kind ≠ .cea) :
    (tick n).st = .closed ∧ (tick n).tr = none := by
  rcases h with h | ⟨m, rest, hq, hn⟩
  · simp [tick, hr, runState, hs, runWaitICEA, h, goto]
  · by_cases hp : peerGone n = true
    · simp [tick, hr, runState, hs, runWaitICEA, hp, goto]
    · simp [tick, hr, runState, hs, runWaitICEA, hp, hq, hn, goto]

/-- a peer disconnect closes an open or closing connection -/
theorem peer_disc_closes (n : Node) (hr : n.running = true) (hs : n.st = .opened ∨ n.st = .closing)
    (hp : peerGone n = true) : (tick n).st = .closed ∧ (tick n).tr = none := by
  rcases hs with hs | hs
  · have : peerGone (trackEvents n) = true := by
      unfold trackEvents peerGone at *
      cases htr : n.tr with
      | none => simp [htr] at hp
      | some t =>
        simp only [htr] at hp ⊢
        by_cases hi : t.idle = true <;> simp [hi, hp, htr]
    simp [tick, hr, runState, hs, runOpen, this, goto]
  · simp [tick, hr, runState, hs, runClosing, hp, goto]

/-- an idle open connection emits a watchdog request in that tick -/
theorem idle_emits_dwr (n : Node) (hs : n.st = .opened) (hr : n.running = true) (ha : n.active = true)
    (t : Transport) (ht : n.tr = some t) (hi : t.idle = true) (hp : t.peerGone = false) :
    (tick n).emitted = n.emitted ++ n.sendq ++ [.dwr] ∧ (tick n).st = .opened := by
  simp [tick, hr, runState, hs, runOpen, trackEvents, ht, hi, peerGone, hp, ha, goto, flush]

theorem runState_delivered (n : Node) :
    (runState n).1.delivered = n.delivered ∨ (n.st = .opened ∧ ∃ x, (runState n).1.delivered = n.delivered ++ [x]) := by
  unfold runState
  cases hs : n.st with
  | closed =>
    simp only [runClosed]
    cases n.role with
    | client => simp
    | server =>
      simp only
      split
      · simp
      · split <;> simp [answer, send]
  | waitConnAck =>
    left
    simp only [runWaitConnAck, connRecv, connAttempt]
    cases n.tr with
    | none => simp only; split <;> (try split) <;> rfl
    | some t =>
      by_cases hc : t.connected = true <;> by_cases ho : t.connOk = true <;>
        simp only [hc, ho, ↓reduceIte, Bool.false_eq_true] <;> (split <;> (try split) <;> rfl)
  | waitICEA =>
    simp only [runWaitICEA]
    split
    · simp
    · split
      · simp
      · split
        · split <;> simp
        · simp
  | opened =>
    have ht : (trackEvents n).delivered = n.delivered := by
      unfold trackEvents; split <;> (try split) <;> rfl
    simp only [runOpen]
    split
    · simp [ht]
    · split
      · simp [ht, send]
      · split
        · simp [ht, flush]
        · split
          · simp [ht]
          · rename_i m rest _
            simp only [openRecv]
            cases m.kind <;> simp only <;> (try split) <;> simp [ht, answer, send, forceStop]
  | closing =>
    simp only [runClosing]
    split
    · simp [forceStop]
    · split
      · simp
      · split <;> simp [forceStop]
  | waitReturns => simp
  | waitConnAckElect => simp

/-- application messages are handed to the application only by a tick in Open -/
theorem deliver_only_in_open (n : Node) (e : Ev) (h : (apply n e).delivered ≠ n.delivered) :
    n.st = .opened ∧ n.running = true ∧ e = .tick ∧ ∃ x, (apply n e).delivered = n.delivered ++ [x] := by
  cases e with
  | tick =>
    simp only [apply] at h ⊢
    unfold tick at h ⊢
    by_cases hr : n.running = true
    · simp only [hr, Bool.not_true, Bool.false_eq_true, ↓reduceIte] at h ⊢
      have hg : ∀ (x : Node) (a b : St), (goto x a b).delivered = x.delivered := by
        intro x a b; unfold goto; split <;> rfl
      rw [hg] at h ⊢
      rcases runState_delivered n with h1 | ⟨h1, x, h2⟩
      · exact absurd h1 h
      · exact ⟨h1, trivial, trivial, x, h2⟩
    · simp only [Bool.not_eq_true] at hr; simp [hr] at h
  | inject m => simp [apply] at h
  | connAck => simp [apply, updTr] at h
  | connNack => simp [apply, updTr] at h
  | localStop => simp [apply] at h
  | peerDisc => simp [apply, updTr] at h
  | idle => simp [apply, updTr] at h
  | submit id => simp only [apply] at h; split at h <;> simp at h
  | restart => simp only [apply] at h; split at h <;> simp [init] at h

/-- a misaddressed application request is consumed without reaching the application, and the state
    machine goes on ticking in Open -/
theorem misaddressed_dropped (n : Node) (hs : n.st = .opened) (hr : n.running = true) (ha : n.active = true)
    (t : Transport) (ht : n.tr = some t) (hi : t.idle = false) (hp : t.peerGone = false) (hsq : n.sendq = [])
    (m : PMsg) (rest : List PMsg) (hq : n.recvq = m :: rest) (hk : m.kind = .appReq) (hok : m.okAddr = false) :
    (tick n).st = .opened ∧ (tick n).running = true ∧ (tick n).delivered = n.delivered ∧ (tick n).recvq = rest := by
  simp [tick, hr, runState, hs, runOpen, trackEvents, ht, hi, peerGone, hp, ha, hsq, hq, openRecv, hk, hok, goto]

/-- Closed after a connection implies the transport has been released (every history) -/
theorem closed_implies_released (role : Role) (evs : List Ev) (h : (run role evs).running = false) :
    (run role evs).st = .closed ∧ (run role evs).tr = none :=
  let i := open_only_after_cex role evs
  ⟨(i.stopped_released h).2, (i.stopped_released h).1⟩

/-- no input stops the ticking except the transition to Closed (with the transport released) -/
theorem ticking_stops_only_closed (n : Node) (e : Ev) (hi : Inv n) (hr : n.running = true)
    (h : (apply n e).running = false) : (apply n e).st = .closed ∧ (apply n e).tr = none :=
  let i := apply_inv n e hi
  ⟨(i.stopped_released h).2, (i.stopped_released h).1⟩

/-! ### the history-level statement: Open needs an injected, valid capabilities-exchange message -/

theorem goto_recvq (n : Node) (a b : St) : (goto n a b).recvq = n.recvq := by
  unfold goto; split <;> rfl

/-- a tick only removes messages from the receive queue (at most its head) -/
theorem runState_recvq (n : Node) : ∀ m ∈ (runState n).1.recvq, m ∈ n.recvq := by
  unfold runState
  cases hs : n.st with
  | closed =>
    simp only [runClosed]
    cases n.role with
    | client => intro m h; exact h
    | server =>
      simp only
      cases hq : n.recvq with
      | nil => intro m h; simp [hq] at h
      | cons x rest =>
        simp only
        split <;> (intro m h; simp_all [answer, send])
  | waitConnAck =>
    simp only [runWaitConnAck, connRecv]
    have h1 : (connAttempt n).1.recvq = n.recvq := by
      unfold connAttempt
      cases n.tr with
      | none => rfl
      | some t => simp only; split <;> (try split) <;> rfl
    cases hq : (connAttempt n).1.recvq with
    | nil => intro m h; simp [hq] at h
    | cons x rest =>
      simp only
      rw [h1] at hq
      split <;> (intro m h; simp_all)
  | waitICEA =>
    simp only [runWaitICEA]
    split
    · intro m h; exact h
    · cases hq : n.recvq with
      | nil => intro m h; simp [hq] at h
      | cons x rest =>
        simp only
        split
        · split <;> (intro m h; simp_all)
        · intro m h; simp_all
  | opened =>
    have ht : (trackEvents n).recvq = n.recvq := by
      unfold trackEvents; split <;> (try split) <;> rfl
    simp only [runOpen]
    split
    · intro m h; rw [ht] at h; exact h
    · split
      · intro m h; simp only [send] at h; rw [ht] at h; exact h
      · split
        · intro m h; simp only [flush] at h; rw [ht] at h; exact h
        · cases hq : (trackEvents n).recvq with
          | nil => intro m h; simp [hq] at h
          | cons x rest =>
            simp only
            rw [ht] at hq
            have key : (openRecv { trackEvents n with recvq := rest } x).1.recvq = rest := by
              unfold openRecv
              cases x.kind <;> simp only <;> (try split) <;> simp [answer, send, forceStop]
            intro m h
            rw [key] at h
            rw [hq]; exact List.mem_cons_of_mem _ h
  | closing =>
    simp only [runClosing]
    split
    · intro m h; simpa [forceStop] using h
    · cases hq : n.recvq with
      | nil => intro m h; simp [hq] at h
      | cons x rest =>
        simp only
        split <;> (intro m h; simp_all [forceStop])
  | waitReturns => intro m h; exact h
  | waitConnAckElect => intro m h; exact h

/-- what is known about a node after a history: queued messages were injected, and a completed
    capabilities exchange was made with an injected valid CER / CEA -/
def Traced (evs : List Ev) (n : Node) : Prop :=
  (∀ m ∈ n.recvq, Ev.inject m ∈ evs) ∧
  (n.cexOk = true → ∃ m, Ev.inject m ∈ evs ∧ m.valid = true ∧ (m.kind = .cer ∨ m.kind = .cea))

theorem traced_step (evs : List Ev) (n : Node) (e : Ev) (h : Traced evs n) : Traced (evs ++ [e]) (apply n e) := by
  obtain ⟨h1, h2⟩ := h
  have mono : ∀ x, x ∈ evs → x ∈ evs ++ [e] := fun x hx => List.mem_append_left _ hx
  have keep : (n.cexOk = true → ∃ m, Ev.inject m ∈ evs ++ [e] ∧ m.valid = true ∧ (m.kind = .cer ∨ m.kind = .cea)) := by
    intro hc; obtain ⟨m, a, b, c⟩ := h2 hc; exact ⟨m, mono _ a, b, c⟩
  cases e with
  | tick =>
    simp only [apply]
    unfold tick
    by_cases hr : n.running = true
    · simp only [hr, Bool.not_true, Bool.false_eq_true, ↓reduceIte]
      constructor
      · intro m hm
        rw [goto_recvq] at hm
        exact mono _ (h1 m (runState_recvq n m hm))
      · intro hc
        have hc' : (runState n).1.cexOk = true := by
          unfold goto at hc
          split at hc
          · simp at hc
          · exact hc
        by_cases h0 : n.cexOk = true
        · exact keep h0
        · obtain ⟨m, rest, hq, hv, hk⟩ := cex_source n (by simpa using h0) hc'
          refine ⟨m, mono _ (h1 m (by rw [hq]; exact List.mem_cons_self)), hv, ?_⟩
          rcases hk with ⟨_, _, hk⟩ | ⟨_, hk⟩
          · exact .inl hk
          · exact .inr hk
    · simp only [Bool.not_eq_true] at hr
      simp only [hr, Bool.not_false, ↓reduceIte]
      exact ⟨fun m hm => mono _ (h1 m hm), keep⟩
  | inject m =>
    refine ⟨?_, keep⟩
    intro x hx
    simp only [apply, List.mem_append, List.mem_singleton] at hx
    rcases hx with hx | rfl
    · exact mono _ (h1 x hx)
    · exact List.mem_append_right _ (List.mem_singleton.mpr rfl)
  | connAck => exact ⟨fun m hm => mono _ (h1 m hm), keep⟩
  | connNack => exact ⟨fun m hm => mono _ (h1 m hm), keep⟩
  | localStop => exact ⟨fun m hm => mono _ (h1 m hm), keep⟩
  | peerDisc => exact ⟨fun m hm => mono _ (h1 m hm), keep⟩
  | idle => exact ⟨fun m hm => mono _ (h1 m hm), keep⟩
  | submit id =>
    simp only [apply]
    split
    · exact ⟨fun m hm => mono _ (h1 m hm), keep⟩
    · exact ⟨fun m hm => mono _ (h1 m hm), keep⟩
  | restart =>
    simp only [apply]
    split
    · exact ⟨by intro m hm; simp [init] at hm, by intro hc; simp [init] at hc⟩
    · exact ⟨fun m hm => mono _ (h1 m hm), keep⟩

theorem traced_run (role : Role) (evs : List Ev) : Traced evs (run role evs) := by
  suffices ∀ (pre : List Ev) (n : Node), Traced pre n → Traced (pre ++ evs) (evs.foldl apply n) by
    have := this [] (init role) ⟨by intro m hm; simp [init] at hm, by intro hc; simp [init] at hc⟩
    simpa [run] using this
  induction evs with
  | nil => intro pre n h; simpa using h
  | cons e es ih =>
    intro pre n h
    have := ih (pre ++ [e]) (apply n e) (traced_step pre n e h)
    simpa [List.append_assoc] using this

/-- HISTORY-LEVEL STATEMENT: whenever the reported state is Open (or Closing), the history contains an
    inbound CER (server) / CEA (client) that passed the validity predicate — i.e. (by
    `valid_cer_is_peer` / `valid_cea_is_peer`) one that carries the configured peer's Origin-Host
    and Origin-Realm -/
theorem open_needs_valid_cex_in_history (role : Role) (evs : List Ev)
    (h : (run role evs).st = .opened ∨ (run role evs).st = .closing) :
    ∃ m, Ev.inject m ∈ evs ∧ m.valid = true ∧ (m.kind = .cer ∨ m.kind = .cea) :=
  (traced_run role evs).2 ((open_only_after_cex role evs).open_cex h)

/-! ### non-vacuity: concrete histories -/

def cerOk : PMsg := { kind := .cer, valid := true, okAddr := true, hbh := 7, e2e := 9, id := 0 }
def ceaOk : PMsg := { kind := .cea, valid := true, okAddr := true, hbh := 1, e2e := 2, id := 0 }
def dprOk : PMsg := { kind := .dpr, valid := true, okAddr := true, hbh := 3, e2e := 4, id := 0 }
def dpaOk : PMsg := { kind := .dpa, valid := true, okAddr := true, hbh := 3, e2e := 4, id := 0 }

example : (run .server [.inject cerOk, .tick]).st = .opened ∧ (run .server [.inject cerOk, .tick]).emitted = [.cea 7 9] := by decide
example : (run .client [.tick, .connAck, .tick, .inject ceaOk, .tick]).st = .opened := by decide
example : (run .client [.tick, .connAck, .tick, .inject cerOk, .tick]).st = .closed := by decide
example : (run .server [.inject cerOk, .tick, .localStop, .tick]).emitted = [.cea 7 9, .dpr] := by decide
example : (run .server [.inject cerOk, .tick, .localStop, .tick, .tick, .inject dpaOk, .tick]).st = .closed ∧
    (run .server [.inject cerOk, .tick, .localStop, .tick, .tick, .inject dpaOk, .tick]).emitted = [.cea 7 9, .dpr] := by decide
example : (run .server [.inject cerOk, .tick, .inject dprOk, .tick]).emitted = [.cea 7 9, .dpa 3 4] ∧
    (run .server [.inject cerOk, .tick, .inject dprOk, .tick]).tr = none := by decide
example : (run .server [.inject cerOk, .tick, .idle, .tick]).emitted = [.cea 7 9, .dwr] := by decide
example : (run .server [.inject { cerOk with valid := false }, .tick]).st = .closed := by decide

end BV.C06
