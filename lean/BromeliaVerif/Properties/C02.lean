import BromeliaVerif.Proofs.DecodeMsg
import BromeliaVerif.Gen.Dictionary
/-! C02 — decoding preserves every field on the wire and re-encodes byte-identically.

Model: `Parse.loadMsgs` / `Parse.loadAvps` (`Model/Parse.lean`) over the regenerated dictionary
`Gen.dictionary`; wire images come from the reference encoder `Spec.encMsg`. The theorems are stated
for an arbitrary dictionary and then instantiated.

Known finding C02-known-avp-reflagged: the decoder rebuilds known AVPs through their class, which
resets the flag byte to the class default. The full-strength statement (`redump_identical`) is proved
under the guard `faithful` (every known AVP carries its default flags); `load_encode` and
`redump_normalised` state exactly what happens outside the guard. -/
namespace BV.C02
open BV BV.Dict BV.Parse BV.Spec

/-- every well-formed stream (one or more concatenated messages) decodes to exactly one object per
    message, in order, with the header fields as on the wire and the AVPs observed by `obs` -/
theorem load_encode (ms : List WireMsg) (h : ∀ m ∈ ms, goodMsg Gen.dictionary m) :
    loadMsgs Gen.dictionary (ms.flatMap WireMsg.enc) = .ok (ms.map (obsMsg Gen.dictionary)) :=
  loadMsgs_enc Gen.dictionary ms h

/-- AVP level, any dictionary: the AVPs of a well-formed body, in order, to any nesting depth -/
theorem load_encode_avps (dict : List Entry) (ts : List Content) (h : goodList dict ts = true) :
    loadAvps dict (encList ts) = .ok (obsList dict ts) := load_enc_list dict ts h

/-- what `obs` preserves: code, Vendor-ID and (for non-Grouped content) data are those on the wire; an
    unknown (vendor, code) pair stays a generic AVP with its wire flags; a known pair is materialised
    as its dictionary class (with the class's default flags — the known finding) -/
theorem fields_preserved (dict : List Entry) (c f : Nat) (v : Option Nat) (d : Bytes) :
    let o := obs dict (.leaf c f v d)
    o.avp.code = c ∧ o.avp.vendor = v ∧ o.avp.data = d ∧
    (dispatch dict (key c v) = none → o.avp.flags = f ∧ o.cls = none) ∧
    (∀ e, dispatch dict (key c v) = some e → o.cls = some e.name ∧ o.avp.flags = e.flags) := by
  simp only [obs]
  cases hd : dispatch dict (key c v) with
  | none => simp [LAvp.avp, LAvp.cls]
  | some e =>
    have := dispatch_some hd
    simp only [key] at this
    simp [LAvp.avp, LAvp.cls, this.1, this.2]

/-- members of a known Grouped AVP are decoded recursively, one object per member, in order -/
theorem grouped_members (dict : List Entry) (c f : Nat) (v : Option Nat) (ks : List Content) (e : Entry)
    (hd : dispatch dict (key c v) = some e) (hk : e.kind = .grouped) :
    (obs dict (.grouped c f v ks)).kids = obsList dict ks ∧ (obs dict (.grouped c f v ks)).cls = some e.name := by
  simp [obs, hd, hk, LAvp.kids, LAvp.cls]

theorem obsList_length (dict : List Entry) (ts : List Content) : (obsList dict ts).length = ts.length := by
  induction ts with
  | nil => rfl
  | cons t ts ih => simp [obsList, ih]

/-- re-serialisation of a decoded message = the original header followed by the encoding of the
    flag-normalised content -/
theorem redump_normalised (dict : List Entry) (m : WireMsg) :
    (obsMsg dict m).dump = encHeader m.hf (20 + (encList m.body).length) ++ encList (normList dict m.body) := by
  simp only [LMsg.dump, obsMsg, obsList_dump]
  simp [Header.dump, Header.optBE, encHeader]

/-- FULL STATEMENT under the guard: when every known AVP carries its class's default flag byte,
    re-serialising each decoded message reproduces its original bytes -/
theorem redump_identical (dict : List Entry) (m : WireMsg) (hf : faithfulList dict m.body = true) :
    (obsMsg dict m).dump = m.enc := by
  rw [redump_normalised, normList_faithful dict m.body hf]; rfl

theorem stream_redump_identical (dict : List Entry) (ms : List WireMsg)
    (hf : ∀ m ∈ ms, faithfulList dict m.body = true) :
    (ms.map (obsMsg dict)).flatMap LMsg.dump = ms.flatMap WireMsg.enc := by
  induction ms with
  | nil => rfl
  | cons m ms ih =>
    simp only [List.map_cons, List.flatMap_cons]
    rw [redump_identical dict m (hf m (by simp)), ih (fun x hx => hf x (by simp [hx]))]

/-- dispatch is total and functional: a (vendor, code) pair gets the unique table entry filed under
    it (with agreeing vendor presence), or stays generic -/
theorem dispatch_total (dict : List Entry) (raw : Avp) :
    dispatch dict raw = none ∨ ∃ e, dispatch dict raw = some e ∧ e ∈ dict ∧ e.code = raw.code ∧ e.vendor = raw.vendor := by
  cases hd : dispatch dict raw with
  | none => left; rfl
  | some e =>
    right
    refine ⟨e, rfl, ?_, (dispatch_some hd).1, (dispatch_some hd).2⟩
    unfold dispatch at hd
    split at hd
    · rename_i e' hl
      split at hd
      · simp only [Option.some.injEq] at hd; subst hd
        have := List.mem_of_find?_eq_some hl
        simpa using this
      · cases hd
    · cases hd

-- non-vacuity: a two-message stream over the real dictionary that satisfies every hypothesis
def sample : List WireMsg :=
  [ { hf := ⟨1, 0x80, 257, 0, 1, 2⟩,
      body := [.leaf 264 0x40 none [0x68, 0x6f, 0x73, 0x74], .leaf 999 0x80 (some 10415) [1, 2, 3],
               .grouped 260 0x40 none [.leaf 266 0x40 none [0, 0, 0x28, 0xaf]]] },
    { hf := ⟨1, 0, 280, 0, 7, 8⟩, body := [] } ]

set_option maxRecDepth 4000 in
example : (∀ m ∈ sample, goodList Gen.dictionary m.body = true ∧ faithfulList Gen.dictionary m.body = true) := by
  decide +kernel

/-- negation witness of the full statement outside the guard (the known finding): Origin-Host sent
    with flag byte 00 is decoded with flag byte 40 -/
theorem reflag_witness :
    (obs Gen.dictionary (.leaf 264 0 none [0x68])).avp.flags = 0x40 ∧
    faithful Gen.dictionary (.leaf 264 0 none [0x68]) = false := by
  decide +kernel

end BV.C02
