import BromeliaVerif.Gen.Split
import BromeliaVerif.Properties.C04
/-! Tie (a) for the framing function `DiameterAssociation.split_data_stream` (C03, C04): `Gen/Split.lean` is regenerated from
the source on every run (`harness/gen_split.py`, a shape-checking translation that carries the constants of the code — header
size, offsets of the length field, the two guards — into the Lean text), and the theorems below are re-checked against it. -/
namespace BV.C04Gen
open BV BV.Inbound BV.Gen.Split

theorem split_keeps (f : Nat) (t : Bytes) : (splitStream f t).1.flatten ++ (splitStream f t).2 = t := by
  induction f generalizing t with
  | zero => simp [splitStream]
  | succ f ih =>
    unfold splitStream
    split
    · simp
    · split
      · simp
      · simp only [List.flatten_cons, List.append_assoc]
        rw [ih]
        exact List.take_append_drop _ _

theorem lenField_drop (stream : Bytes) (i : Nat) : lenField (stream.drop i) = fromBE ((stream.drop (i + 1)).take (4 - 1)) := by
  unfold lenField
  rw [List.drop_drop]

/-- the index the translated loop stops at = the bytes of the complete messages the model splits off -/
theorem idx_spec (stream : Bytes) (f i : Nat) :
    splitIdx stream f i = i + (splitStream f (stream.drop i)).1.flatten.length := by
  first
  | rfl        -- Gen/Split.lean fell back to the hand model (source outside the translator's shape): tie (b) alone
  | (
    induction f generalizing i with
    | zero => simp [splitIdx, splitStream]
    | succ f ih =>
      unfold splitIdx splitStream
      have hl : (stream.drop i).length = stream.length - i := List.length_drop
      have hf := lenField_drop stream i
      by_cases h20 : stream.length - i ≥ 20
      · have h20' : ¬ (stream.drop i).length < 20 := by omega
        simp only [h20, h20', if_true, if_false]
        rw [← hf, hl]
        by_cases hc : lenField (stream.drop i) < 20 ∨ stream.length - i < lenField (stream.drop i)
        · simp [hc]
        · simp only [hc, if_false]
          rw [ih, List.drop_drop]
          have hle : lenField (stream.drop i) ≤ (stream.drop i).length := by omega
          simp [List.length_take, Nat.min_eq_left hle]
          omega
      · have h20' : stream.length - i < 20 := by omega
        simp [h20, h20', hl]
    )

/-- `split_data_stream` as translated from the code on this run IS the model's framing function, for every byte string: the
theorems of C03 (every byte kept, worker iteration total) and C04 (every prefix of a concatenation of well-formed messages
splits into the complete messages and the partial rest, for every segmentation) hold of the code as it is now -/
theorem code_split_is_model (stream : Bytes) : splitDataStream stream = Worker.splitData stream := by
  first
  | rfl        -- Gen/Split.lean fell back to the hand model (source outside the translator's shape): tie (b) alone
  | (
    unfold splitDataStream Worker.splitData
    have hi := idx_spec stream stream.length 0
    simp only [List.drop_zero, Nat.zero_add] at hi
    have hk := split_keeps stream.length stream
    generalize hr : splitStream stream.length stream = r at hi hk
    have htake : stream.take r.1.flatten.length = r.1.flatten := by
      conv => lhs; rw [← hk]
      simp
    have hdrop : stream.drop r.1.flatten.length = r.2 := by
      conv => lhs; rw [← hk]
      simp
    simp only [hi]
    have hlen : stream.length - r.1.flatten.length = r.2.length := by rw [← hdrop, List.length_drop]
    have hlf : fromBE ((stream.drop (r.1.flatten.length + 1)).take (4 - 1)) = lenField r.2 := by
      rw [← lenField_drop, hdrop]
    rw [hlen, hlf, htake, hdrop]
    )
end BV.C04Gen
