import BromeliaVerif.Model.Teardown
/-! C08 — every way a connection ends leaves the node closed, released and restartable.
The causes (local close after the DPA, DPR from the peer, peer disconnect, refused connection, …) all
end in the state machine's transition to Closed (C06: `goto`); this file is about what that
transition does to the flags and what the four loops do afterwards, under every interleaving. -/
namespace BV.C08
open BV.Teardown

/-- the transition to Closed releases the transport and raises every stop flag, whatever the state was -/
theorem teardown_down (s : St) : Down (teardown s) := by
  simp [Down, teardown]

/-- no loop step touches the flags: once down, always down -/
theorem step_down (s : St) (t : Th) (h : Down s) : Down (step s t) := by
  rcases s with ⟨a, b, c, d, e, f, g, h', i, p1, p2, p3, p4⟩
  simp only [Down] at h ⊢
  cases t
  · cases p1 <;> simp_all [step]
  · cases p2 <;> simp_all [step]
  · cases p3 <;> simp_all [step]
  · cases p4 <;> simp_all [step]

/-- a loop that has exited stays exited; other loops' steps do not move it -/
theorem step_other (s : St) (t u : Th) (h : t ≠ u) : pos (step s t) u = pos s u := by
  rcases s with ⟨a, b, c, d, e, f, g, h', i, p1, p2, p3, p4⟩
  cases t <;> cases u <;> simp_all [step, pos]
  all_goals first
    | (cases p1 <;> simp <;> (try split) <;> rfl)
    | (cases p2 <;> simp <;> (try split) <;> rfl)
    | (cases p3 <;> simp <;> (try split) <;> rfl)
    | (cases p4 <;> simp <;> (try split) <;> rfl)

theorem exited_stays (s : St) (t u : Th) (h : pos s u = .exited) : pos (step s t) u = .exited := by
  by_cases e : t = u
  · subst e
    rcases s with ⟨a, b, c, d, e, f, g, h', i, p1, p2, p3, p4⟩
    cases t <;> simp_all [step, pos]
  · rw [step_other s t u e]; exact h

/-- each loop leaves within two of its own steps once the node is down -/
theorem exits_in_two (s : St) (t : Th) (h : Down s) : pos (step (step s t) t) t = .exited := by
  rcases s with ⟨a, b, c, d, e, f, g, h', i, p1, p2, p3, p4⟩
  simp only [Down] at h
  obtain ⟨rfl, rfl, rfl, rfl, rfl, _, _⟩ := h
  cases t
  · cases p1 <;> simp [step, pos]
  · cases p2 <;> simp [step, pos]
  · cases p3 <;> simp [step, pos]
  · cases p4 <;> simp [step, pos]

/-- progress measure: how many of its own steps a loop still needs -/
def need (s : St) (t : Th) : Nat := match pos s t with | .exited => 0 | .top => 1 | .body => 2

theorem need_step_self (s : St) (t : Th) (h : Down s) : need (step s t) t ≤ need s t - 1 := by
  rcases s with ⟨a, b, c, d, e, f, g, h', i, p1, p2, p3, p4⟩
  simp only [Down] at h
  obtain ⟨rfl, rfl, rfl, rfl, rfl, _, _⟩ := h
  cases t
  · cases p1 <;> simp [need, step, pos]
  · cases p2 <;> simp [need, step, pos]
  · cases p3 <;> simp [need, step, pos]
  · cases p4 <;> simp [need, step, pos]

theorem need_step_other (s : St) (t u : Th) (h : t ≠ u) : need (step s t) u = need s u := by
  unfold need; rw [step_other s t u h]

def runs (s : St) (sch : List Th) : St := sch.foldl step s

theorem runs_down (sch : List Th) : ∀ s, Down s → Down (runs s sch) := by
  induction sch with
  | nil => intro s h; exact h
  | cons t rest ih => intro s h; exact ih _ (step_down s t h)

/-- ALL THREADS TERMINATE: under EVERY interleaving, once the node is down, a loop that is scheduled at
    least twice has exited (every blocking operation in the bodies is timed or released, so being
    scheduled is all a loop needs) -/
theorem need_after (sch : List Th) : ∀ s, Down s → ∀ u, need (runs s sch) u ≤ need s u - sch.count u := by
  induction sch with
  | nil => intro s _ u; simp [runs]
  | cons t rest ih =>
    intro s h u
    have := ih (step s t) (step_down s t h) u
    simp only [runs, List.foldl_cons] at this ⊢
    refine Nat.le_trans this ?_
    by_cases e : t = u
    · subst e
      have := need_step_self s t h
      simp only [List.count_cons_self]; omega
    · rw [need_step_other s t u e]
      have : (t :: rest).count u = rest.count u := by simp [List.count_cons, e]
      rw [this]; exact Nat.le_refl _

theorem all_threads_terminate (s : St) (h : Down s) (sch : List Th) (hfair : ∀ u, 2 ≤ sch.count u) :
    allExited (runs s sch) := by
  have key : ∀ u, pos (runs s sch) u = .exited := by
    intro u
    have h1 := need_after sch s h u
    have h2 : need s u ≤ 2 := by unfold need; cases pos s u <;> simp
    have h3 : need (runs s sch) u = 0 := by have := hfair u; omega
    unfold need at h3
    cases hp : pos (runs s sch) u <;> simp [hp] at h3
    rfl
  exact ⟨key .psm, key .transport, key .worker, key .consumer⟩

/-- END TO END: from an established connection, under any interleaving before the closing tick, the
    closing tick itself, and any fair interleaving after it: the node is down (Closed, socket closed
    and unregistered, transport released), every loop has exited — in particular an application call
    blocked in `get_message()` has returned — and the association lock is free -/
theorem closes_released_terminated (before after : List Th) (hfair : ∀ u, 2 ≤ after.count u) :
    let s := runs (teardown (runs up before)) after
    Down s ∧ allExited s := by
  intro s
  have hd : Down (teardown (runs up before)) := teardown_down _
  exact ⟨runs_down after _ hd, all_threads_terminate _ hd after hfair⟩

/-- the receive worker never leaves with the association lock held -/
theorem worker_exit_releases_lock (s : St) (h : s.worker ≠ .exited) (hl : s.worker = .top → s.lockHeld = false)
    (he : (step s .worker).worker = .exited) : (step s .worker).lockHeld = false := by
  rcases s with ⟨a, b, c, d, e, f, g, h', i, p1, p2, p3, p4⟩
  cases p3 <;> simp_all [step]
  · split <;> simp_all
  · split <;> simp_all

/-- RESTARTABLE: `Diameter.start()` is guarded by the reported state being Closed, which is what the
    closing tick leaves; a start builds fresh association, state machine and transport objects (`up`
    after its own capabilities exchange), untouched by the flags of the connection that ended -/
theorem restart_is_fresh (s : St) (h : Down s) : s.psmRunning = false ∧ up.psmRunning = true ∧ ¬ Down up := by
  refine ⟨h.1, rfl, ?_⟩
  intro hd; exact absurd hd.1 (by simp [up])

-- non-vacuity: a concrete interleaving
example : (runs (teardown (runs up [.worker, .consumer, .transport])) [.worker, .psm, .consumer, .transport, .transport, .worker, .consumer, .psm]).psm = .exited ∧
    (runs (teardown (runs up [.worker, .consumer, .transport])) [.worker, .psm, .consumer, .transport, .transport, .worker, .consumer, .psm]).worker = .exited := by
  decide
example : (runs (teardown (runs up [.worker])) [.worker]).lockHeld = false := by decide

end BV.C08
