import BromeliaVerif.Proofs.ParseSafe
import BromeliaVerif.Model.Worker
import BromeliaVerif.Gen.Dictionary
/-! C03 — malformed input is rejected cleanly and never wedges the decoder.

`Parse.loadAvps` and `Parse.loadMsgs` are the models of `DiameterAVP.load` / `DiameterMessage.load`
on ARBITRARY byte strings. They are defined by well-founded recursion on the length of the input:
Lean accepts the definitions only because every loop iteration provably consumes at least 8 resp. 20
bytes (`parse_progress`, and the `decreasing_by` proofs in `Model/Parse.lean`) — the pinned code had
no such argument for the message loop (Message Length 0 looped forever; repaired, see
known_findings.json). -/
namespace BV.C03
open BV BV.Dict BV.Parse

/-- each iteration of the AVP loop consumes at least 8 bytes; the data it hands to a nested decode
    is strictly shorter than the input -/
theorem parse_progress {s : Bytes} {a : Avp} {rest : Bytes} (h : parseOne s = .ok (a, rest)) :
    rest.length + 8 ≤ s.length ∧ a.data.length + 8 ≤ s.length := ⟨(parseOne_ok h).1, (parseOne_ok h).2.1⟩

/-- ∀ byte strings: AVP decoding returns or raises a library error, never a foreign exception -/
theorem avps_errors_are_library (s : Bytes) (e : Err) (h : loadAvps Gen.dictionary s = .error e) : e.notStd :=
  loadAvps_errors_are_library Gen.dictionary s e h

/-- ∀ byte strings: message decoding returns or raises a library error -/
theorem msgs_errors_are_library (s : Bytes) (e : Err) (h : loadMsgs Gen.dictionary s = .error e) : e.notStd :=
  (loadMsgs_safe Gen.dictionary s.length s (Nat.le_refl _)).1 e h

/-- step / output bound depending only on the input length: at most len/8 AVP objects over all
    nesting levels (= loop iterations of a successful decode), at most len/20 messages -/
theorem output_bounded (s : Bytes) :
    (∀ as, loadAvps Gen.dictionary s = .ok as → 8 * nodesList as ≤ s.length) ∧
    (∀ ms, loadMsgs Gen.dictionary s = .ok ms → 20 * ms.length ≤ s.length) :=
  ⟨fun as h => loadAvps_nodes_bound Gen.dictionary s.length s (Nat.le_refl _) as h,
   (loadMsgs_safe Gen.dictionary s.length s (Nat.le_refl _)).2⟩

/-- a Message Length below 20 (the former infinite loop) and a truncated header are rejected -/
theorem short_length_rejected (s : Bytes) (hs : s ≠ []) (h : s.length < 20 ∨ (parseHeader (s.take 20)).length < 20) :
    loadMsgs Gen.dictionary s = .error .parsing := by
  rw [loadMsgs]
  simp only [hs, ↓reduceDIte]
  rcases h with h | h
  · simp [h]
  · by_cases h20 : s.length < 20
    · simp [h20]
    · simp [h20, h]

-- non-vacuity / concrete malformed inputs: Message Length 0 (the former hang) and a 4-byte stream
example : loadMsgs Gen.dictionary (List.replicate 20 0) = .error .parsing :=
  short_length_rejected _ (by decide) (Or.inr (by decide))
example : loadMsgs Gen.dictionary [1, 0, 0, 19] = .error .parsing :=
  short_length_rejected _ (by decide) (Or.inl (by decide))

end BV.C03

namespace BV.C03
open BV BV.Dict BV.Parse BV.Worker

/-- live connection, receive worker: for every byte string handed over by the transport and every
    carried partial message the worker survives the iteration and the association lock is released -/
theorem worker_step_safe (carry s : Bytes) :
    (step Gen.dictionary carry s).alive = true ∧ (step Gen.dictionary carry s).lockHeld = false := by
  unfold step
  cases h : loadMsgs Gen.dictionary (splitData (carry ++ s)).1 with
  | ok ms => simp [finish]
  | error e =>
    have := msgs_errors_are_library _ e h
    cases e <;> simp_all [Err.notStd, finish]

/-- nothing is enqueued from a stream that fails to decode; a decodable stream is enqueued in order -/
theorem worker_enqueues (carry s : Bytes) :
    (step Gen.dictionary carry s).enqueued =
      (match loadMsgs Gen.dictionary (splitData (carry ++ s)).1 with | .ok ms => ms | .error _ => []) := by
  unfold step
  cases h : loadMsgs Gen.dictionary (splitData (carry ++ s)).1 with
  | ok ms => rfl
  | error e => cases e <;> rfl

/-- no byte is dropped by the split: complete part and carried part make up the data (unless the data is
    handed over whole because it cannot be framed) -/
theorem split_keeps_bytes (s : Bytes) : (splitData s).1 ++ (splitData s).2 = s ∨ (splitData s) = (s, []) := by
  unfold splitData
  simp only
  split
  · right; rfl
  · left
    suffices ∀ f (t : Bytes), (Inbound.splitStream f t).1.flatten ++ (Inbound.splitStream f t).2 = t from this _ _
    intro f
    induction f with
    | zero => intro t; simp [Inbound.splitStream]
    | succ f ih =>
      intro t
      unfold Inbound.splitStream
      split
      · simp
      · split
        · simp
        · simp only [List.flatten_cons, List.append_assoc, ih]
          exact List.take_append_drop _ _

end BV.C03
