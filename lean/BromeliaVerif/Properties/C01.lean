import BromeliaVerif.Proofs.Avp
/-! C01 — serialised messages are exactly the RFC 6733 encoding of their content.

Model: `Avp.dump`, `Header.dump`, `Msg.append`, `Msg.dump` follow the Python code path
(`Model/Avp.lean`, `Model/Msg.lean`); specification: `Spec.enc`, `Spec.encMsg` written from the RFC. -/
namespace BV.C01
open BV BV.Spec

/-- AVP level: the dump is the reference encoding of the same fields, for every AVP -/
theorem dump_eq_spec (a : Avp) : a.dump = encAvp a.code a.flags a.vendor a.data :=
  Avp.dump_eq_encAvp a

/-- declarative layout of the dump of a well-formed AVP: size a multiple of 4; bytes 0–3 the code,
    byte 4 the flags, bytes 5–7 the length of header plus data (padding excluded); a Vendor-ID field
    exactly when the V flag is set (header 12 instead of 8 bytes); then the data; then only zeros -/
theorem layout (a : Avp) (h : a.WF) :
    a.dump.length % 4 = 0 ∧
    fromBE (a.dump.take 4) = a.code ∧
    fromBE ((a.dump.drop 4).take 1) = a.flags ∧
    fromBE ((a.dump.drop 5).take 3) = a.hdrLen + a.data.length ∧
    (a.hdrLen = if vbit a.flags then 12 else 8) ∧
    (∀ v, a.vendor = some v → fromBE ((a.dump.drop 8).take 4) = v) ∧
    (a.dump.drop a.hdrLen).take a.data.length = a.data ∧
    a.dump.drop (a.hdrLen + a.data.length) = List.replicate (padLen a.data.length) 0 := by
  obtain ⟨hc, hf, hv, hvend, hlen⟩ := h
  have hL : a.hdrLen + a.data.length < 256 ^ 3 := by unfold Avp.len at hlen; simpa using hlen
  -- the dump, regrouped as prefix ++ field ++ rest for each field
  have hvf : (match a.vendor with | some v => be 4 v | none => []).length + 8 = a.hdrLen := by
    unfold Avp.hdrLen; cases a.vendor <;> simp
  have e0 : a.dump = be 4 a.code ++ (be 1 a.flags ++ (be 3 (a.hdrLen + a.data.length) ++
      ((match a.vendor with | some v => be 4 v | none => []) ++ (a.data ++ List.replicate (padLen a.data.length) 0)))) := by
    rw [Avp.dump_eq_encAvp, hdrLen_eq]; unfold encAvp; cases a.vendor <;> simp
  generalize hvf0 : (match a.vendor with | some v => be 4 v | none => []) = vf at e0 hvf
  generalize List.replicate (padLen a.data.length) (0 : UInt8) = pad at e0 ⊢
  refine ⟨Avp.dump_length_mod4 a, ?_, ?_, ?_, ?_, ?_, ?_, ?_⟩
  · rw [e0, List.take_left' (by simp)]; exact fromBE_be 4 _ (by simpa using hc)
  · rw [e0, List.drop_left' (by simp), List.take_left' (by simp)]; exact fromBE_be 1 _ (by simpa using hf)
  · have e : a.dump = (be 4 a.code ++ be 1 a.flags) ++ (be 3 (a.hdrLen + a.data.length) ++ (vf ++ (a.data ++ pad))) := by
      rw [e0]; simp
    rw [e, List.drop_left' (by simp), List.take_left' (by simp)]; exact fromBE_be 3 _ hL
  · unfold Avp.hdrLen; rw [hv]
  · intro v hvs
    rw [hvs] at hvf0 hvend
    have e : a.dump = (be 4 a.code ++ be 1 a.flags ++ be 3 (a.hdrLen + a.data.length)) ++ (be 4 v ++ (a.data ++ pad)) := by
      rw [e0, ← hvf0]; simp
    rw [e, List.drop_left' (by simp), List.take_left' (by simp)]
    exact fromBE_be 4 _ (by simpa using hvend)
  · have e : a.dump = (be 4 a.code ++ be 1 a.flags ++ be 3 (a.hdrLen + a.data.length) ++ vf) ++ (a.data ++ pad) := by
      rw [e0]; simp
    rw [e, List.drop_left' (by simp; omega), List.take_left' rfl]
  · have e : a.dump = (be 4 a.code ++ be 1 a.flags ++ be 3 (a.hdrLen + a.data.length) ++ vf ++ a.data) ++ pad := by
      rw [e0]; simp
    rw [e, List.drop_left' (by simp; omega)]

/- what the library builds from a content tree: a Grouped AVP's data is the concatenation of its
   members' dumps (taken when they are appended) -/
mutual
  def realise : Content → Avp
    | .leaf c f v d => ⟨c, f, v, d⟩
    | .grouped c f v ks => ⟨c, f, v, realiseList ks⟩
  def realiseList : List Content → Bytes
    | [] => []
    | k :: ks => (realise k).dump ++ realiseList ks
end

/- Grouped AVPs, to any nesting depth: dump of the built AVP = reference encoding of the tree -/
mutual
  theorem grouped_eq_spec : ∀ t : Content, (realise t).dump = enc t
    | .leaf c f v d => by simp [realise, enc, Avp.dump_eq_encAvp]
    | .grouped c f v ks => by simp [realise, enc, Avp.dump_eq_encAvp, realiseList_eq ks]
  theorem realiseList_eq : ∀ ks : List Content, realiseList ks = encList ks
    | [] => by simp [realiseList, encList]
    | k :: ks => by simp [realiseList, encList, grouped_eq_spec k, realiseList_eq ks]
end

theorem realiseList_flatMap (ks : List Content) : (ks.map realise).flatMap Avp.dump = encList ks := by
  induction ks with
  | nil => simp [encList]
  | cons k ks ih => simp [List.flatMap_cons, encList, grouped_eq_spec k, ih]

/-- length bookkeeping of `append`: after any sequence of appends (repeated AVPs included) the
    Message Length field is 20 plus the padded sizes of the AVPs, the AVPs are in order -/
theorem append_length_inv (h : Header) (as : List Avp) :
    let m := as.foldl Msg.append (Msg.new h)
    m.avps = as ∧ m.hdr.length = 20 + (as.flatMap Avp.dump).length ∧ m.hdr = { h with length := m.hdr.length } := by
  suffices ∀ (m0 : Msg), m0.loaded = false →
      let m := as.foldl Msg.append m0
      m.avps = m0.avps ++ as ∧ m.hdr.length = m0.hdr.length + (as.flatMap Avp.dump).length ∧
        m.hdr = { m0.hdr with length := m.hdr.length } ∧ m.loaded = false by
    have := this (Msg.new h) rfl
    simp only [Msg.new, List.nil_append] at this ⊢
    exact ⟨this.1, this.2.1, this.2.2.1⟩
  induction as with
  | nil => intro m0 h0; simp [h0]
  | cons a as ih =>
    intro m0 h0
    have := ih (m0.append a) (by simp [Msg.append, h0])
    simp only [List.foldl_cons] at this ⊢
    obtain ⟨h1, h2, h3, h4⟩ := this
    refine ⟨by rw [h1]; simp [Msg.append], ?_, ?_, h4⟩
    · rw [h2]; simp [Msg.append, h0, Avp.paddedLen_eq, List.flatMap_cons]; omega
    · rw [h3]; simp [Msg.append, h0]

/-- a header with every field present, as the request / answer constructors build it -/
def hdrOf (hf : HeaderFields) : Header :=
  { version := hf.version, length := 20, flags := hf.flags, cmd := some hf.cmd,
    app := some hf.app, hbh := some hf.hbh, e2e := some hf.e2e }

/-- a message built through the public API: `DiameterMessage(header)` then `append` per AVP -/
def build (hf : HeaderFields) (as : List Avp) : Msg := as.foldl Msg.append (Msg.new (hdrOf hf))

/-- message level: for every header field value and every AVP sequence built through `append`, the
    dump is the reference encoding: 20-byte header carrying the fields as set, Message Length = total
    size (a multiple of 4), then the AVPs in order -/
theorem msg_eq_spec (hf : HeaderFields) (ks : List Content) :
    (build hf (ks.map realise)).dump = encMsg hf ks ∧
    (build hf (ks.map realise)).hdr.length = (build hf (ks.map realise)).dump.length ∧
    (build hf (ks.map realise)).dump.length % 4 = 0 := by
  obtain ⟨h1, h2, h3⟩ := append_length_inv (hdrOf hf) (ks.map realise)
  unfold build
  generalize (ks.map realise).foldl Msg.append (Msg.new (hdrOf hf)) = m at h1 h2 h3 ⊢
  have hlen : m.hdr.length = 20 + (encList ks).length := by rw [h2, realiseList_flatMap]
  have hd : m.dump = encMsg hf ks := by
    show m.hdr.dump ++ m.avps.flatMap Avp.dump = _
    rw [h1, h3, realiseList_flatMap, hlen]
    simp [encMsg, encMsgBody, encHeader, Header.dump, Header.optBE, hdrOf]
  have hl : m.dump.length = 20 + (encList ks).length := by
    rw [hd]; unfold encMsg encMsgBody encHeader; simp; omega
  refine ⟨hd, ?_, ?_⟩
  · rw [hl, hlen]
  · rw [hl, ← realiseList_flatMap]; have := flatMap_dump_mod4 (ks.map realise); omega

/-- a header field left `None` is omitted: the dump is shorter than 20 bytes (this is how the base
    `AbortSessionAnswer()` / `ReAuthAnswer()` defect arises; stated, not hidden) -/
theorem header_none_omitted (h : Header) (hn : h.app = none) (hc : h.cmd.isSome) (hh : h.hbh.isSome) (he : h.e2e.isSome) :
    h.dump.length = 16 := by
  unfold Header.dump Header.optBE
  cases hcm : h.cmd <;> cases hhb : h.hbh <;> cases hee : h.e2e <;> simp_all

-- non-vacuity
example : (Avp.mk 264 0x40 none [0x61, 0x62, 0x63, 0x64, 0x65]).WF ∧
    (Avp.mk 264 0x40 none [0x61, 0x62, 0x63, 0x64, 0x65]).dump =
      [0, 0, 1, 8, 0x40, 0, 0, 13, 0x61, 0x62, 0x63, 0x64, 0x65, 0, 0, 0] := by decide
example : (Avp.mk 1 0xc0 (some 10415) []).WF ∧ (Avp.mk 1 0xc0 (some 10415) []).dump.length = 12 := by decide

end BV.C01
