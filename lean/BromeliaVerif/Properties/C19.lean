import BromeliaVerif.Model.Config
/-! C19 — a configuration is reflected faithfully or rejected, never silently altered. -/
namespace BV.C19
open BV BV.Config

theorem any_perm {α : Type} (p : α → Bool) {l l' : List α} (h : l.Perm l') : l.any p = l'.any p := by
  rw [Bool.eq_iff_iff, List.any_eq_true, List.any_eq_true]
  constructor
  · rintro ⟨x, hx, hp⟩; exact ⟨x, h.mem_iff.mp hx, hp⟩
  · rintro ⟨x, hx, hp⟩; exact ⟨x, h.mem_iff.mpr hx, hp⟩

/-- with distinct keys, `lookup` finds exactly the pairs of the dictionary -/
theorem lookup_iff (c : Cfg) (hn : (c.map (·.1)).Nodup) (k : String) (v : CVal) : c.lookup k = some v ↔ (k, v) ∈ c := by
  induction c with
  | nil => simp
  | cons x xs ih =>
    obtain ⟨a, b⟩ := x
    simp only [List.map_cons, List.nodup_cons] at hn
    simp only [List.lookup_cons, List.mem_cons, Prod.mk.injEq]
    by_cases hk : k = a
    · subst hk
      simp only [beq_self_eq_true, Option.some.injEq, true_and]
      constructor
      · intro h; exact .inl h.symm
      · rintro (h | h)
        · exact h.symm
        · exact absurd (List.mem_map.mpr ⟨(k, v), h, rfl⟩) hn.1
    · have : (k == a) = false := by simpa using hk
      simp only [this, hk, false_and, false_or]
      exact ih hn.2

theorem lookup_perm (c c' : Cfg) (hp : c.Perm c') (hn : (c.map (·.1)).Nodup) (k : String) : c.lookup k = c'.lookup k := by
  have hn' : (c'.map (·.1)).Nodup := (hp.map _).nodup_iff.mp hn
  cases h : c.lookup k with
  | some v =>
    have := (lookup_iff c hn k v).mp h
    exact ((lookup_iff c' hn' k v).mpr (hp.mem_iff.mp this)).symm
  | none =>
    cases h' : c'.lookup k with
    | none => rfl
    | some v =>
      have := (lookup_iff c' hn' k v).mp h'
      have := (lookup_iff c hn k v).mpr (hp.mem_iff.mpr this)
      rw [h] at this; cases this

/-- order independence: accept/reject, the error class and the accepted Connection are invariant
    under every permutation of the keys -/
theorem order_independent (c c' : Cfg) (hp : c.Perm c') (hn : (c.map (·.1)).Nodup) : convert c = convert c' := by
  unfold convert Config.get
  rw [any_perm _ hp, any_perm (fun kv => !validKV kv.1 kv.2) hp]
  simp only [lookup_perm c c' hp hn]

/-- an unknown key is never silently accepted -/
theorem unknown_key_rejected (c : Cfg) (k : String) (v : CVal) (hm : (k, v) ∈ c) (hk : k ∉ mask) :
    convert c = .error .invalidKey := by
  unfold convert
  have : c.any (fun kv => !mask.contains kv.1) = true :=
    List.any_eq_true.mpr ⟨(k, v), hm, by simpa [List.contains_iff_mem] using hk⟩
  rw [if_pos this]

/-- an invalid value under a known key is never silently accepted -/
theorem invalid_value_rejected (c : Cfg) (k : String) (v : CVal) (hm : (k, v) ∈ c) (hv : validKV k v = false) :
    ∃ e, convert c = .error e ∧ (e = .invalidKey ∨ e = .invalidValue) := by
  unfold convert
  split
  · exact ⟨_, rfl, .inl rfl⟩
  · have : c.any (fun kv => !validKV kv.1 kv.2) = true := List.any_eq_true.mpr ⟨(k, v), hm, by simp [hv]⟩
    simp only [this, ↓reduceIte]
    exact ⟨_, rfl, .inr rfl⟩

/-- accepted ⇒ every field of the Connection is exactly the configured value, and the checked fields
    are in range: mode CLIENT/SERVER, transport TCP/SCTP, valid IPv4 addresses, integer timeout -/
theorem accept_reflects (c : Cfg) (conn : Connection) (h : convert c = .ok conn) :
    get c "MODE" = some conn.mode ∧ get c "TRANSPORT_TYPE" = some conn.transport ∧
    get c "APPLICATIONS" = some conn.applications ∧ get c "LOCAL_NODE_HOSTNAME" = some conn.localHost ∧
    get c "LOCAL_NODE_REALM" = some conn.localRealm ∧ get c "LOCAL_NODE_IP_ADDRESS" = some conn.localIp ∧
    get c "LOCAL_NODE_PORT" = some conn.localPort ∧ get c "PEER_NODE_HOSTNAME" = some conn.peerHost ∧
    get c "PEER_NODE_REALM" = some conn.peerRealm ∧ get c "PEER_NODE_IP_ADDRESS" = some conn.peerIp ∧
    get c "PEER_NODE_PORT" = some conn.peerPort ∧ get c "WATCHDOG_TIMEOUT" = some conn.watchdog ∧
    (∀ k v, (k, v) ∈ c → k ∈ mask ∧ validKV k v = true) := by
  unfold convert at h
  split at h; · cases h
  rename_i hk
  split at h; · cases h
  rename_i hv
  split at h
  · rename_i a b c3 d e f g hh i j k l h1 h2 h3 h4 h5 h6 h7 h8 h9 h10 h11 h12
    cases h
    refine ⟨h1, h2, h3, h4, h5, h6, h7, h8, h9, h10, h11, h12, ?_⟩
    intro k v hm
    constructor
    · have := hk
      simp only [Bool.not_eq_true, List.any_eq_false] at this
      have := this (k, v) hm
      simpa [List.contains_iff_mem] using this
    · have := hv
      simp only [Bool.not_eq_true, List.any_eq_false] at this
      have := this (k, v) hm
      simpa using this
  · cases h

theorem validKV_mode (v : CVal) (h : validKV "MODE" v = true) : v = .str "CLIENT" ∨ v = .str "SERVER" := by
  simp [validKV] at h; exact h

theorem validKV_transport (v : CVal) (h : validKV "TRANSPORT_TYPE" v = true) : v = .str "TCP" ∨ v = .str "SCTP" := by
  simp [validKV] at h; exact h

theorem validKV_ip (v : CVal) (h : validKV "LOCAL_NODE_IP_ADDRESS" v = true ∨ validKV "PEER_NODE_IP_ADDRESS" v = true) : ipOk v = true := by
  rcases h with h | h <;> simpa [validKV] using h

theorem validKV_timeout (v : CVal) (h : validKV "WATCHDOG_TIMEOUT" v = true) : ∃ n, v = .int n := by
  simp only [validKV] at h
  cases v <;> simp_all

/-- a complete configuration is accepted or rejected with the library's configuration error -/
theorem complete_accept_or_config_error (c : Cfg) (hc : complete c) :
    (∃ conn, convert c = .ok conn) ∨ convert c = .error .invalidKey ∨ convert c = .error .invalidValue := by
  have hn : (c.map (·.1)).Nodup := hc.nodup_iff.mpr (by decide)
  have hall : ∀ k ∈ mask, ∃ v, get c k = some v := by
    intro k hk
    have : k ∈ c.map (·.1) := hc.mem_iff.mpr hk
    obtain ⟨⟨k', v⟩, hm, rfl⟩ := List.mem_map.mp this
    exact ⟨v, (lookup_iff c hn k' v).mpr hm⟩
  unfold convert
  split; · exact .inr (.inl rfl)
  split; · exact .inr (.inr rfl)
  obtain ⟨v1, h1⟩ := hall "MODE" (by decide)
  obtain ⟨v2, h2⟩ := hall "TRANSPORT_TYPE" (by decide)
  obtain ⟨v3, h3⟩ := hall "APPLICATIONS" (by decide)
  obtain ⟨v4, h4⟩ := hall "LOCAL_NODE_HOSTNAME" (by decide)
  obtain ⟨v5, h5⟩ := hall "LOCAL_NODE_REALM" (by decide)
  obtain ⟨v6, h6⟩ := hall "LOCAL_NODE_IP_ADDRESS" (by decide)
  obtain ⟨v7, h7⟩ := hall "LOCAL_NODE_PORT" (by decide)
  obtain ⟨v8, h8⟩ := hall "PEER_NODE_HOSTNAME" (by decide)
  obtain ⟨v9, h9⟩ := hall "PEER_NODE_REALM" (by decide)
  obtain ⟨v10, h10⟩ := hall "PEER_NODE_IP_ADDRESS" (by decide)
  obtain ⟨v11, h11⟩ := hall "PEER_NODE_PORT" (by decide)
  obtain ⟨v12, h12⟩ := hall "WATCHDOG_TIMEOUT" (by decide)
  left
  rw [h1, h2, h3, h4, h5, h6, h7, h8, h9, h10, h11, h12]
  exact ⟨_, rfl⟩

/-- YAML: one configuration per spec entry, in order; mode and transport case-normalised; TCP by
    default for each entry on its own -/
theorem yaml_map (specs : List Spec) :
    (fileToCfgs specs).length = specs.length ∧
    ∀ i (h : i < specs.length),
      get ((fileToCfgs specs)[i]'(by simpa [fileToCfgs] using h)) "MODE" = some (.str (upper specs[i].mode)) ∧
      get ((fileToCfgs specs)[i]'(by simpa [fileToCfgs] using h)) "TRANSPORT_TYPE" =
        some (.str (upper (specs[i].transport.getD "tcp"))) := by
  refine ⟨by simp [fileToCfgs], ?_⟩
  intro i h
  simp only [fileToCfgs, List.getElem_map, specToCfg, Config.get]
  constructor
  · simp [List.lookup]
  · simp [List.lookup]

-- non-vacuity: a complete valid configuration is accepted and reflected
def sample : Cfg :=
  [("MODE", .str "CLIENT"), ("TRANSPORT_TYPE", .str "TCP"), ("APPLICATIONS", .apps [⟨["vendor_id", "app_id"], true⟩] 1),
   ("LOCAL_NODE_HOSTNAME", .str "a"), ("LOCAL_NODE_REALM", .str "b"), ("LOCAL_NODE_IP_ADDRESS", .str "127.0.0.1"),
   ("LOCAL_NODE_PORT", .int 3868), ("PEER_NODE_HOSTNAME", .str "c"), ("PEER_NODE_REALM", .str "d"),
   ("PEER_NODE_IP_ADDRESS", .str "10.0.0.2"), ("PEER_NODE_PORT", .int 3868), ("WATCHDOG_TIMEOUT", .int 30)]

example : complete sample ∧ (∃ conn, convert sample = .ok conn ∧ conn.peerIp = .str "10.0.0.2") := by
  refine ⟨List.Perm.refl _, ?_⟩
  refine ⟨⟨.str "CLIENT", .str "TCP", .apps [⟨["vendor_id", "app_id"], true⟩] 1, .str "a", .str "b", .str "127.0.0.1", .int 3868,
    .str "c", .str "d", .str "10.0.0.2", .int 3868, .int 30⟩, by rfl, rfl⟩

end BV.C19
