import BromeliaVerif.Model.Command
import BromeliaVerif.Gen.Commands
import BromeliaVerif.Gen.Dictionary
import BromeliaVerif.Properties.C01
/-! C09 — typed command classes build exactly the command they name.

Generic theorems about the `_load` loop (any table row, any arguments) and table facts decided by the
kernel over `Gen.commands`, regenerated from `bromelia/lib/*/messages.py` on every check. -/
namespace BV.C09
open BV BV.Dict BV.Command

/-- the AVP contributed by one argument (`none`: skipped) when its step does not raise -/
def produced (dict : List Entry) (row : Row) (a : Arg) : Option Avp :=
  match loadOne dict row a with
  | .ok r => r
  | .error _ => none

/-- order and content: when `_load` succeeds, the AVPs are exactly those produced by the arguments,
    in the order of the arguments (declared parameters first, keyword extras last) -/
theorem load_order (dict : List Entry) (row : Row) : ∀ (args : List Arg) (as : List Avp),
    loadArgs dict row args = .ok as →
    as = args.filterMap (produced dict row) ∧ ∀ a ∈ args, ∃ r, loadOne dict row a = .ok r
  | [], as, h => by simp [loadArgs] at h; subst h; simp
  | a :: rest, as, h => by
    simp only [loadArgs] at h
    split at h
    · cases h
    · rename_i r hr
      split at h
      · cases h
      · rename_i more hm
        cases h
        obtain ⟨ih1, ih2⟩ := load_order dict row rest more hm
        refine ⟨?_, ?_⟩
        · simp only [List.filterMap_cons, produced, hr]
          cases r <;> simp [ih1, produced]
        · intro x hx
          rcases List.mem_cons.mp hx with rfl | hx
          · exact ⟨r, hr⟩
          · exact ih2 x hx

/-- extras last: the AVPs of `params ++ extras` are those of the parameters followed by those of the extras -/
theorem extras_last (dict : List Entry) (row : Row) (ps extras : List Arg) (as : List Avp)
    (h : loadArgs dict row (ps ++ extras) = .ok as) :
    as = ps.filterMap (produced dict row) ++ extras.filterMap (produced dict row) := by
  rw [(load_order dict row _ _ h).1, List.filterMap_append]

/-- a mandatory argument that is `None` makes the constructor raise (library error), whatever else is given -/
theorem missing_mandatory_rejected (dict : List Entry) (row : Row) : ∀ (args : List Arg) (a : Arg) (c : Nat),
    a ∈ args → row.mandatory.lookup a.key = some c → a.val = none → ∃ e, loadArgs dict row args = .error e
  | [], _, _, h, _, _ => by cases h
  | b :: rest, a, c, hmem, hk, hv => by
    simp only [loadArgs]
    rcases List.mem_cons.mp hmem with rfl | hr
    · simp [loadOne, hk, hv]
    · cases hb : loadOne dict row b with
      | error e => exact ⟨e, rfl⟩
      | ok r =>
        obtain ⟨e, he⟩ := missing_mandatory_rejected dict row rest a c hr hk hv
        exact ⟨e, by simp [he]⟩

/-- each argument value is carried by an AVP of the dictionary class the key maps to: its code, vendor
    and default flags -/
theorem arg_carried_by_class (dict : List Entry) (c : Nat) (v : ArgVal) (x : Avp) (h : buildArg dict c v = .ok x) :
    ∃ e ∈ dict, e.nameKey = c ∧ x.code = e.code ∧ x.vendor = e.vendor ∧ x.flags = e.flags := by
  unfold buildArg at h
  split at h
  · cases h
  · rename_i e he
    have hm := List.mem_of_find?_eq_some he
    have hk : e.nameKey = c := by simpa using List.find?_some he
    refine ⟨e, hm, hk, ?_⟩
    cases v with
    | py pv =>
      simp only at h
      split at h
      · split at h <;> cases h
      · split at h
        · cases h; simp [instantiate]
        · cases h
        · cases h
    | avpList ms =>
      simp only at h
      split at h
      · split at h
        · cases h; simp [instantiate]
        · cases h
        · cases h
      · cases h
    | avpObj a => cases h

theorem key_unique : ∀ (l : List Arg), (l.map Arg.key).Nodup → ∀ a ∈ l, ∀ b ∈ l, b.key = a.key → b = a
  | [], _, _, ha, _, _, _ => by cases ha
  | x :: rest, hnd, a, ha, b, hb, hk => by
    simp only [List.map_cons, List.nodup_cons] at hnd
    rcases List.mem_cons.mp ha with rfl | ha' <;> rcases List.mem_cons.mp hb with rfl | hb'
    · rfl
    · exact absurd (List.mem_map.mpr ⟨b, hb', hk⟩) hnd.1
    · exact absurd (List.mem_map.mpr ⟨a, ha', hk.symm⟩) hnd.1
    · exact key_unique rest hnd.2 a ha' b hb' hk

/-- mandatory exactly once (argument level): with distinct argument keys, a successful `_load`
    produced exactly one AVP for every mandatory key that is a parameter -/
theorem mandatory_once (dict : List Entry) (row : Row) (args : List Arg) (as : List Avp)
    (h : loadArgs dict row args = .ok as) (hnd : (args.map Arg.key).Nodup) (k : String) (c : Nat)
    (hk : row.mandatory.lookup k = some c) (hin : k ∈ args.map Arg.key) :
    ∃ a ∈ args, a.key = k ∧ (∃ x, produced dict row a = some x) ∧ ∀ b ∈ args, b.key = k → b = a := by
  obtain ⟨a, ha, hak⟩ := List.mem_map.mp hin
  refine ⟨a, ha, hak, ?_, ?_⟩
  · obtain ⟨r, hr⟩ := (load_order dict row args as h).2 a ha
    unfold loadOne at hr
    rw [hak, hk] at hr
    cases hv : a.val with
    | none => simp [hv] at hr
    | some v =>
      simp only [hv] at hr
      cases hb : buildArg dict c v with
      | error e => simp [hb, Except.map] at hr
      | ok x =>
        refine ⟨x, ?_⟩
        simp [produced, loadOne, hak, hk, hv, hb, Except.map]
  · intro b hb hbk
    exact key_unique args hnd a ha b hb (by rw [hbk, hak])

/-- command flags: R exactly for request classes; P exactly when the Application-ID is not 0 -/
theorem flags_rule (isReq : Bool) (app : Option Nat) :
    ((flagsOf isReq app) / 128 % 2 = 1 ↔ isReq = true) ∧ ((flagsOf isReq app) / 64 % 2 = 1 ↔ app ≠ some 0) ∧
    (flagsOf isReq app) % 64 = 0 := by
  unfold flagsOf
  cases isReq <;> by_cases h : app = some 0 <;> simp [h]

/-- the built message carries the class's command code and Application-ID, and when the
    Application-ID is set its Message Length equals its serialised size -/
theorem built_header (dict : List Entry) (row : Row) (a hbh e2e : Nat) (args : List Arg) (m : Msg)
    (h : buildMsg dict row (some a) hbh e2e args = .ok m) :
    m.hdr.cmd = some row.cmd ∧ m.hdr.app = some a ∧ m.hdr.flags = flagsOf row.isRequest (some a) ∧
    m.hdr.length = m.dump.length := by
  unfold buildMsg at h
  cases hl : loadArgs dict row args with
  | error e => simp [hl, Except.map] at h
  | ok as =>
    simp only [hl, Except.map, Except.ok.injEq] at h
    subst h
    obtain ⟨h1, h2, h3⟩ := BV.C01.append_length_inv (headerOf row (some a) hbh e2e) as
    generalize as.foldl Msg.append (Msg.new (headerOf row (some a) hbh e2e)) = m at h1 h2 h3
    rw [h3]
    refine ⟨rfl, rfl, rfl, ?_⟩
    show m.hdr.length = (m.hdr.dump ++ m.avps.flatMap Avp.dump).length
    rw [h1, h3]
    simp [Header.dump, Header.optBE, headerOf, h2]; omega

/-- known finding C09-base-asa-raa-no-application-id: a class that leaves the Application-ID `None`
    serialises a 16-byte header, so the Message Length field exceeds the size by 4 -/
theorem no_app_header_short (dict : List Entry) (row : Row) (hbh e2e : Nat) (args : List Arg) (m : Msg)
    (h : buildMsg dict row none hbh e2e args = .ok m) : m.hdr.length = m.dump.length + 4 := by
  unfold buildMsg at h
  cases hl : loadArgs dict row args with
  | error e => simp [hl, Except.map] at h
  | ok as =>
    simp only [hl, Except.map, Except.ok.injEq] at h
    subst h
    obtain ⟨h1, h2, h3⟩ := BV.C01.append_length_inv (headerOf row none hbh e2e) as
    generalize as.foldl Msg.append (Msg.new (headerOf row none hbh e2e)) = m at h1 h2 h3
    show m.hdr.length = (m.hdr.dump ++ m.avps.flatMap Avp.dump).length + 4
    rw [h1, h3]
    simp [Header.dump, Header.optBE, headerOf, h2]; omega

/-! ### table facts over the regenerated table -/

theorem all_modelled : Gen.commands.all (·.modelled) = true := by decide +kernel

/-- every mandatory / optional key maps to an existing dictionary class, keys are distinct, parameter
    names are distinct -/
theorem keys_resolve :
    Gen.commands.all (fun r =>
      (r.mandatory ++ r.optionals).all (fun kc => Gen.dictionary.any (fun e => e.nameKey == kc.2)) &&
      decide ((r.mandatory.map (·.1)).Nodup) && decide ((r.optionals.map (·.1)).Nodup) && decide (r.params.Nodup)) = true := by
  decide +kernel

/-- classes whose `mandatory` table names a key that is not a constructor parameter (known finding
    C09-s6b-aaa-destination-realm) -/
def mandatoryNotParam : List String := ["etsi_3gpp_s6b.AAAnswer"]

theorem mandatory_are_params_partial :
    Gen.commands.all (fun r => mandatoryNotParam.contains r.name || r.mandatory.all (fun kc => r.params.contains kc.1)) = true := by
  decide +kernel

/-- a mandatory parameter without default is exactly a parameter whose default is `None`: omitting it
    is rejected (`missing_mandatory_rejected`) -/
theorem app_param_is_param :
    Gen.commands.all (fun r => match r.appParam with | some p => r.params.contains p && r.app.isNone | none => true) = true := by
  decide +kernel

/-- a request class and its answer class agree on command code and on the fixed Application-ID
    (classes whose Application-ID is an argument or left open are exempt) -/
theorem partners_agree :
    Gen.commands.all (fun r => match r.partner with
      | none => true
      | some i => match Gen.commands[i]? with
        | none => false
        | some p => p.cmd == r.cmd && p.isRequest != r.isRequest &&
            (r.app.isNone || p.app.isNone || r.app == p.app)) = true := by
  decide +kernel

/-- command code, Application-ID rule, R flag and the set of mandatory keys of every published class
    equal the reviewed snapshot (optionals may grow, new classes are unconstrained) -/
theorem commands_match_reference :
    Gen.commandsRef.all (fun ref => Gen.commands.any (fun r =>
      r.nameKey == ref.nameKey && r.isRequest == ref.isRequest && r.cmd == ref.cmd && r.app == ref.app &&
      r.appParam == ref.appParam && ref.mandatoryKeys.all (fun k => (r.mandatory.map (·.1)).contains k) &&
      r.mandatory.all (fun kc => ref.mandatoryKeys.contains kc.1))) = true := by
  decide +kernel

/-- every argument key of every published class is carried by the AVP (Vendor-ID, code) the reviewed
    snapshot lists for that key: the class a key is mapped to in the `mandatory` / `optionals` table
    has that vendor and code in the dictionary (keys the snapshot does not know are unconstrained) -/
theorem keys_carry_reference_avp :
    Gen.commandsRef.all (fun ref => Gen.commands.all (fun r =>
      r.nameKey != ref.nameKey ||
      (r.mandatory ++ r.optionals).all (fun kc =>
        match ref.keyAvps.find? (fun ka => ka.1 == kc.1) with
        | none => true
        | some ka => Gen.dictionary.any (fun e => e.nameKey == kc.2 && e.vendor.getD 0 == ka.2.1 && e.code == ka.2.2)))) = true := by
  decide +kernel

-- non-vacuity: the flag rule on the three shapes that occur
example : flagsOf true (some 16777251) = 0xc0 ∧ flagsOf false (some 0) = 0 ∧ flagsOf false none = 0x40 := by decide

end BV.C09
