import BromeliaVerif.Model.Decorate
import BromeliaVerif.Properties.C17
/-! C12 — answers leaving a route carry the request's identity and a correct error flag. -/
namespace BV.C12
open BV BV.Decorate BV.ResultCode BV.Spec

/-- the handler's answer is well-formed for decoration: it is an answer (R clear) whose Message
    Length matches its content. (It may or may not carry a Session-Id AVP; it may already carry the E
    flag.) -/
def Pre (a : Ans) (_r : Req) : Prop :=
  rbit a.flags = false ∧ a.length = msgSize a

theorem copySession_spec (a o : Ans) (r : Req) (h : copySession a r = .ok o) :
    o.flags = a.flags ∧ o.app = a.app ∧ o.hbh = a.hbh ∧ o.e2e = a.e2e ∧ o.resultCode = a.resultCode ∧
    o.hasExp = a.hasExp ∧ o.rest = a.rest ∧ (∀ d, r.session = some d → o.session = some d) ∧
    (r.session = none → o.session = a.session) ∧ (a.length = msgSize a → o.length = msgSize o) := by
  unfold copySession at h
  cases hrs : r.session with
  | none => simp only [hrs] at h; cases h; simp
  | some d => simp only [hrs] at h; cases h; simp [msgSize]

theorem setError_spec (a o : Ans) (h : setError a = .ok o) :
    o.app = a.app ∧ o.hbh = a.hbh ∧ o.e2e = a.e2e ∧ o.session = a.session ∧ o.resultCode = a.resultCode ∧
    o.hasExp = a.hasExp ∧ o.rest = a.rest ∧ o.length = a.length ∧
    (errorFamily a.resultCode = true → ebit a.flags = false → o.flags = a.flags + 32) ∧
    (errorFamily a.resultCode = false ∨ ebit a.flags = true → o.flags = a.flags) := by
  unfold setError at h
  by_cases hf : errorFamily a.resultCode = true
  · simp only [hf, ↓reduceIte] at h
    by_cases he : ebit a.flags = true
    · simp only [he, ↓reduceIte] at h; cases h; simp_all
    · simp only [he, Bool.false_eq_true, ↓reduceIte] at h
      split at h
      · cases h
      · cases h; simp_all
  · simp only [hf, Bool.false_eq_true, ↓reduceIte] at h; cases h; simp_all

theorem ebit_add32 (f : Nat) (h : ebit f = false) : ebit (f + 32) = true := by
  unfold ebit at *; simp at *; omega

/-- under the guard decoration always succeeds: whatever the handler's answer carries, one answer can
    be sent -/
theorem decorate_ok (a : Ans) (r : Req) (h : Pre a r) : ∃ o, decorate a r = .ok o := by
  obtain ⟨hr, _⟩ := h
  unfold decorate
  have h2 : ∃ a2, copySession (copyIds a r) r = .ok a2 := by
    unfold copySession; cases r.session <;> exact ⟨_, rfl⟩
  obtain ⟨a2, h2⟩ := h2
  have s2 := copySession_spec _ _ _ h2
  rw [h2]; simp only
  have h3 : ∃ a3, setError a2 = .ok a3 := by
    unfold setError
    have hr2 : rbit a2.flags = false := by rw [s2.1]; exact hr
    split
    · split
      · exact ⟨_, rfl⟩
      · simp [hr2]
    · exact ⟨_, rfl⟩
  obtain ⟨a3, h3⟩ := h3
  rw [h3]; exact ⟨_, rfl⟩

/-- identity: Application-ID, Hop-by-Hop and End-to-End of the request; its Session-Id when it has one -/
theorem decorate_identity (a o : Ans) (r : Req) (h : decorate a r = .ok o) :
    o.app = r.app ∧ o.hbh = r.hbh ∧ o.e2e = r.e2e ∧ (∀ d, r.session = some d → o.session = some d) := by
  unfold decorate at h
  split at h; · cases h
  rename_i a2 h2
  split at h; · cases h
  rename_i a3 h3
  cases h
  have s2 := copySession_spec _ _ _ h2
  have s3 := setError_spec _ _ h3
  have hd : ∀ x : Ans, (dropRc x).app = x.app ∧ (dropRc x).hbh = x.hbh ∧ (dropRc x).e2e = x.e2e ∧ (dropRc x).session = x.session := by
    intro x; unfold dropRc; split <;> simp
  refine ⟨?_, ?_, ?_, ?_⟩
  · rw [(hd a3).1, s3.1, s2.2.1]; rfl
  · rw [(hd a3).2.1, s3.2.1, s2.2.2.1]; rfl
  · rw [(hd a3).2.2.1, s3.2.2.1, s2.2.2.2.1]; rfl
  · intro d hd'; rw [(hd a3).2.2.2, s3.2.2.2.1]; exact s2.2.2.2.2.2.2.2.1 d hd'

/-- error flag: for an answer that arrives with the E flag clear it is set exactly when the handler's
    Result-Code is in the 3xxx, 4xxx or 5xxx family — for every code (numeric families by C17); an E
    flag the handler set itself is kept -/
theorem error_flag_iff_family (a o : Ans) (r : Req) (he : ebit a.flags = false) (h : decorate a r = .ok o) :
    ebit o.flags = true ↔ ∃ n, a.resultCode = some n ∧ (inFamily 3 n ∨ inFamily 4 n ∨ inFamily 5 n) := by
  have hfam : errorFamily a.resultCode = true ↔ ∃ n, a.resultCode = some n ∧ (inFamily 3 n ∨ inFamily 4 n ∨ inFamily 5 n) := by
    unfold errorFamily
    cases a.resultCode with
    | none => simp
    | some n => simp [BV.C17.model_family_iff, or_assoc]
  rw [← hfam]
  unfold decorate at h
  split at h; · cases h
  rename_i a2 h2
  split at h; · cases h
  rename_i a3 h3
  cases h
  have s2 := copySession_spec _ _ _ h2
  have s3 := setError_spec _ _ h3
  have hflag : (dropRc a3).flags = a3.flags := by unfold dropRc; split <;> rfl
  have hrc : a2.resultCode = a.resultCode := by rw [s2.2.2.2.2.1]; rfl
  have hfl : a2.flags = a.flags := by rw [s2.1]; rfl
  rw [hflag]
  by_cases hf : errorFamily a.resultCode = true
  · have := s3.2.2.2.2.2.2.2.2.1 (by rw [hrc]; exact hf) (by rw [hfl]; exact he)
    rw [this, hfl]; simp [hf, ebit_add32 _ he]
  · have hf' : errorFamily a.resultCode = false := by simpa using hf
    have := s3.2.2.2.2.2.2.2.2.2 (.inl (by rw [hrc]; exact hf'))
    rw [this, hfl]; simp [hf', he]

theorem preset_error_flag_kept (a o : Ans) (r : Req) (he : ebit a.flags = true) (h : decorate a r = .ok o) :
    o.flags = a.flags := by
  unfold decorate at h
  split at h; · cases h
  rename_i a2 h2
  split at h; · cases h
  rename_i a3 h3
  cases h
  have s2 := copySession_spec _ _ _ h2
  have s3 := setError_spec _ _ h3
  have hflag : (dropRc a3).flags = a3.flags := by unfold dropRc; split <;> rfl
  rw [hflag, s3.2.2.2.2.2.2.2.2.2 (.inr (by rw [s2.1]; exact he)), s2.1]; rfl

/-- a Result-Code is never sent alongside an Experimental-Result -/
theorem no_result_code_with_experimental (a o : Ans) (r : Req) (h : decorate a r = .ok o) :
    ¬ (o.hasExp = true ∧ o.resultCode.isSome = true) := by
  unfold decorate at h
  split at h; · cases h
  split at h; · cases h
  rename_i a3 _
  cases h
  unfold dropRc
  split
  · simp
  · rename_i hn; simpa using hn

/-- the Message Length of the sent answer matches its final content -/
theorem length_matches (a o : Ans) (r : Req) (hp : Pre a r) (h : decorate a r = .ok o) : o.length = msgSize o := by
  obtain ⟨_, hl⟩ := hp
  unfold decorate at h
  split at h; · cases h
  rename_i a2 h2
  split at h; · cases h
  rename_i a3 h3
  cases h
  have s2 := copySession_spec _ _ _ h2
  have s3 := setError_spec _ _ h3
  have l2 : a2.length = msgSize a2 := s2.2.2.2.2.2.2.2.2.2 (by simpa [copyIds, msgSize] using hl)
  have l3 : a3.length = msgSize a3 := by
    rw [s3.2.2.2.2.2.2.2.1, l2]; unfold msgSize; rw [s3.2.2.2.1, s3.2.2.2.2.1, s3.2.2.2.2.2.2.1]
  unfold dropRc
  split
  · rename_i hc
    simp only [Bool.and_eq_true] at hc
    cases hrc : a3.resultCode with
    | none => simp [hrc] at hc
    | some n => rw [l3]; simp [msgSize, hrc]
  · exact l3

/-- outside the guard: an "answer" with the R bit set and an error-family Result-Code raises the
    library's header error -/
theorem guard_errors (a : Ans) (r : Req) (hf : errorFamily a.resultCode = true) (he : ebit a.flags = false)
    (hr : rbit a.flags = true) : decorate a r = .error .header := by
  unfold decorate copySession copyIds
  cases r.session <;> simp [setError, hf, he, hr]

/-- an answer without Session-Id AVP gets the request's Session-Id added -/
theorem session_added (a o : Ans) (r : Req) (d : Bytes) (hs : r.session = some d) (h : decorate a r = .ok o) :
    o.session = some d := (decorate_identity a o r h).2.2.2 d hs

-- non-vacuity: DIAMETER_UNABLE_TO_COMPLY (5012) gets the error flag and the request's identity
example : ∃ o, decorate ⟨0x40, some 1, some 0, some 0, some [1], some 5012, false, 40, 20 + 40 + 12 + 12⟩
    ⟨some 16777251, some 7, some 9, some [2, 3]⟩ = .ok o ∧ o.flags = 0x60 ∧ o.app = some 16777251 ∧
    o.session = some [2, 3] ∧ o.length = 84 := ⟨_, rfl, by decide, rfl, rfl, by decide⟩
example : Pre ⟨0x40, some 1, some 0, some 0, some [1], some 5012, false, 40, 20 + 40 + 12 + 12⟩
    ⟨some 16777251, some 7, some 9, some [2, 3]⟩ := by
  refine ⟨by decide, by decide⟩

end BV.C12
