import BromeliaVerif.Proofs.Container
/-! C11 — a message's named AVP view, AVP list and length stay coherent under mutation.

Model: `Model/Container.lean` (the container of `DiameterMessage` after the repairs listed in
known_findings.json: pop by identity, smallest unused suffix, `__setitem__`/`update_avp` rebinding the
name, `cleanup` subtracting the listed AVPs). `Coherent` is the statement's invariant. -/
namespace BV.C11
open BV.Container

/-- after EVERY sequence of container operations (append, extend, pop, cleanup, replacing the list,
    item assignment, key renaming, data update, refresh) on an empty message: distinct listed objects,
    distinct names, one name per listed object and none for an unlisted one, Message Length = 20 + the
    padded sizes of the listed AVPs (= the size of the serialised message, C01) -/
theorem coherent (ops : List Op) (hf : freshRun empty ops) : Coherent (ops.foldl apply empty) :=
  run_coherent ops empty coherent_empty hf

/-- the same from any coherent state (e.g. a typed message as built by its constructor) -/
theorem coherent_from (c : Cont) (hc : Coherent c) (ops : List Op) (hf : freshRun c ops) :
    Coherent (ops.foldl apply c) := run_coherent ops c hc hf

/-- membership queries agree with both views: a name is reported present exactly when it is bound to
    a listed object -/
theorem has_avp_agrees (c : Cont) (hc : Coherent c) (k : Key) :
    hasKey c k = true ↔ ∃ o ∈ c.avps, (k, o.id) ∈ c.names := by
  unfold hasKey
  constructor
  · intro h
    simp only [Bool.and_eq_true, Bool.not_eq_true', List.contains_iff_mem] at h
    obtain ⟨_, hk⟩ := h
    obtain ⟨⟨k', i⟩, hm, rfl⟩ := List.mem_map.mp hk
    have : i ∈ ids c := (hc.refs_iff i).mp (List.mem_map.mpr ⟨(k', i), hm, rfl⟩)
    obtain ⟨o, ho, rfl⟩ := List.mem_map.mp this
    exact ⟨o, ho, hm⟩
  · rintro ⟨o, ho, hm⟩
    simp only [Bool.and_eq_true, Bool.not_eq_true', List.contains_iff_mem]
    refine ⟨?_, List.mem_map.mpr ⟨(k, o.id), hm, rfl⟩⟩
    cases h : c.avps with
    | nil => rw [h] at ho; cases ho
    | cons _ _ => rfl

/-- relative order: removing keeps the remaining AVPs in their order; adding appends at the end;
    replacing keeps every other position -/
theorem order_preserved (c : Cont) (hc : Coherent c) :
    (∀ k c', pop c k = .ok c' → c'.avps.Sublist c.avps) ∧
    (∀ o c', o.id ∉ ids c → append c o = .ok c' → c'.avps = c.avps ++ [o]) ∧
    (∀ os c', (∀ o ∈ os, o.id ∉ ids c) → (os.map (·.id)).Nodup → extend c os = .ok c' → c'.avps = c.avps ++ os) ∧
    (∀ i o c', o.id ∉ ids c → setItem c i o = .ok c' → c'.avps = c.avps.set i o) ∧
    (∀ a b c', updateKey c a b = .ok c' → c'.avps = c.avps) :=
  ⟨fun _ _ h => (pop_coherent hc h).2, fun _ _ hf h => (append_coherent hc hf h).2,
   fun os _ hf hn h => (extend_coherent os hc hf hn h).2, fun _ _ _ hf h => (setItem_coherent hc hf h).2,
   fun _ _ _ h => (updateKey_coherent hc h).2⟩

/-- the named object is the one removed by `pop`, not another one with equal contents -/
theorem pop_removes_named (c c' : Cont) (hc : Coherent c) (k : Key) (i : Nat) (hk : c.names.lookup k = some i)
    (h : pop c k = .ok c') : i ∉ ids c' ∧ ∀ j ∈ ids c, j ≠ i → j ∈ ids c' := by
  unfold pop at h
  split at h; · cases h
  rw [hk] at h
  simp only at h
  split at h; · cases h
  cases h
  simp only [ids, List.mem_map, List.mem_filter, bne_iff_ne, ne_eq, not_exists, not_and]
  refine ⟨fun x hx e => hx.2 e, ?_⟩
  rintro j ⟨p, hp, rfl⟩ hne
  exact ⟨p, ⟨hp, hne⟩, rfl⟩

/-- `update_avp(name, value)` replaces the object the name refers to — found by identity, not by
    equal contents — at its own position; every other position keeps its object, and only names of
    the replaced object are rebound -/
theorem update_avp_targets_named (c c' : Cont) (k : Key) (i : Nat) (o : Obj) (hk : c.names.lookup k = some i)
    (h : updateAvp c k o = .ok c') :
    ∃ idx old, c.avps[idx]? = some old ∧ old.id = i ∧ c'.avps = c.avps.set idx o ∧ c'.names = rebind c.names i o.id := by
  unfold updateAvp at h
  rw [hk] at h
  simp only at h
  split at h; · cases h
  rename_i idx hidx
  obtain ⟨hlt, hp, _⟩ := List.findIdx?_eq_some_iff_getElem.mp hidx
  have hget : c.avps[idx]? = some c.avps[idx] := List.getElem?_eq_getElem hlt
  unfold setItem at h
  rw [hget] at h
  simp only [Except.ok.injEq] at h
  subst h
  have hid : c.avps[idx].id = i := by simpa using hp
  exact ⟨idx, c.avps[idx], hget, hid, rfl, by simp [refresh, hid]⟩

-- non-vacuity: two equal-sized objects of the same class, pop the SECOND one, append a third
def a1 : Obj := ⟨1, "origin_host_avp", 16⟩
def a2 : Obj := ⟨2, "origin_host_avp", 16⟩
def a3 : Obj := ⟨3, "origin_host_avp", 16⟩
def demo : List Op := [.append a1, .append a2, .pop ("origin_host_avp", 1), .append a3, .setItem 0 ⟨4, "x_avp", 12⟩]

example : freshRun empty demo ∧
    (demo.foldl apply empty).avps.map (·.id) = [4, 3] ∧
    (demo.foldl apply empty).names = [(("origin_host_avp", 0), 4), (("origin_host_avp", 1), 3)] ∧
    (demo.foldl apply empty).length = 48 := by
  refine ⟨?_, by decide, by decide, by decide⟩
  simp only [demo, freshRun, Op.fresh, Op.objs]
  decide

end BV.C11
