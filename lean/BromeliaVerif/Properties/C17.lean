import BromeliaVerif.Gen.PyFuns
/-! C17 — result-code class predicates agree with the numeric family for every code.

`BV.Gen.fam1 … fam5` are regenerated from `bromelia/utils.py` on every check; the proofs below are
written against the names only and re-checked against whatever the code says now. -/
namespace BV.C17
open BV BV.Spec BV.ResultCode

/-- the hand model classifies by numeric family, for every family index and every code -/
theorem model_family_iff (k n : Nat) : fam k n = true ↔ inFamily k n := by
  unfold fam inFamily; simp <;> omega

theorem gen_fam1_iff (n : Nat) : Gen.fam1 n = true ↔ inFamily 1 n := by
  first
    | (unfold Gen.fam1 inFamily; simp <;> omega)
    | (unfold Gen.fam1; exact model_family_iff 1 n)      -- the source left the translator's subset: hand model (tie by correspondence)
theorem gen_fam2_iff (n : Nat) : Gen.fam2 n = true ↔ inFamily 2 n := by
  first
    | (unfold Gen.fam2 inFamily; simp <;> omega)
    | (unfold Gen.fam2; exact model_family_iff 2 n)      -- the source left the translator's subset: hand model (tie by correspondence)
theorem gen_fam3_iff (n : Nat) : Gen.fam3 n = true ↔ inFamily 3 n := by
  first
    | (unfold Gen.fam3 inFamily; simp <;> omega)
    | (unfold Gen.fam3; exact model_family_iff 3 n)      -- the source left the translator's subset: hand model (tie by correspondence)
theorem gen_fam4_iff (n : Nat) : Gen.fam4 n = true ↔ inFamily 4 n := by
  first
    | (unfold Gen.fam4 inFamily; simp <;> omega)
    | (unfold Gen.fam4; exact model_family_iff 4 n)      -- the source left the translator's subset: hand model (tie by correspondence)
theorem gen_fam5_iff (n : Nat) : Gen.fam5 n = true ↔ inFamily 5 n := by
  first
    | (unfold Gen.fam5 inFamily; simp <;> omega)
    | (unfold Gen.fam5; exact model_family_iff 5 n)      -- the source left the translator's subset: hand model (tie by correspondence)

/-- at most one family predicate holds for any code (both layers: the object predicates are the
    integer predicates of the decoded code, `answer_pred_eq`) -/
theorem family_exclusive (n : Nat) :
    ([Gen.fam1 n, Gen.fam2 n, Gen.fam3 n, Gen.fam4 n, Gen.fam5 n].filter (· = true)).length ≤ 1 := by
  have h1 := gen_fam1_iff n; have h2 := gen_fam2_iff n; have h3 := gen_fam3_iff n
  have h4 := gen_fam4_iff n; have h5 := gen_fam5_iff n
  unfold inFamily at *
  cases e1 : Gen.fam1 n <;> cases e2 : Gen.fam2 n <;> cases e3 : Gen.fam3 n <;>
    cases e4 : Gen.fam4 n <;> cases e5 : Gen.fam5 n <;> simp_all <;> omega

theorem model_exclusive (j k n : Nat) (hj : fam j n = true) (hk : fam k n = true) : j = k := by
  rw [model_family_iff] at hj hk; unfold inFamily at *; omega

/-- the translated integer predicates are the hand model -/
theorem gen_eq_model (n : Nat) :
    Gen.fam1 n = fam 1 n ∧ Gen.fam2 n = fam 2 n ∧ Gen.fam3 n = fam 3 n ∧
    Gen.fam4 n = fam 4 n ∧ Gen.fam5 n = fam 5 n := by
  refine ⟨?_, ?_, ?_, ?_, ?_⟩ <;> rw [Bool.eq_iff_iff]
  · rw [gen_fam1_iff, model_family_iff]
  · rw [gen_fam2_iff, model_family_iff]
  · rw [gen_fam3_iff, model_family_iff]
  · rw [gen_fam4_iff, model_family_iff]
  · rw [gen_fam5_iff, model_family_iff]

/-- answer-object layer: no Result-Code ↦ `None`; otherwise the numeric family of the decoded code -/
theorem answer_pred_eq (k : Nat) (rc : Option Bytes) :
    objPred k rc = rc.map fun d => decide (inFamily k (fromBE d)) := by
  cases rc with
  | none => rfl
  | some d =>
    simp only [objPred, Option.map_some, Option.some.injEq]
    rw [Bool.eq_iff_iff, model_family_iff]; simp

/-- every 4-byte Result-Code value is covered (the decoded code ranges over all of 0 … 2^32-1) -/
theorem answer_pred_all_codes (k n : Nat) (h : n < 2 ^ 32) :
    objPred k (some (be 4 n)) = some (decide (inFamily k n)) := by
  rw [answer_pred_eq]; simp only [Option.map_some]
  rw [fromBE_be 4 n (by simpa using h)]

-- non-vacuity: the families are inhabited and the boundaries are excluded
example : Gen.fam3 3001 = true ∧ Gen.fam3 3000 = false ∧ Gen.fam3 4000 = false ∧ Gen.fam5 5012 = true := by decide
example : objPred 5 (some (be 4 5012)) = some true ∧ objPred 5 none = none := by decide

end BV.C17
