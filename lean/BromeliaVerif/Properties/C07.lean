import BromeliaVerif.Model.Psm
/-! C07 — base-protocol answers echo the identifiers of the request they answer. Over the model of
the peer state machine (`Model/Psm.lean`): in every history (any order of inbound messages and local
events, both roles, reconnects on the same node object) the CEA/DWA/DPA written to the transport
are, in order, exactly the answers to the CER/DWR/DPR consumed in a state that answers them — same
command, the request's Hop-by-Hop and End-to-End identifiers — each written in the tick that
consumed its request (so before any later inbound message is processed). -/
namespace BV.C07
open BV BV.Psm

/-- the answer owed to a base request -/
def ansOf (m : PMsg) : Out :=
  match m.kind with
  | .cer => .cea m.hbh m.e2e
  | .dwr => .dwa m.hbh m.e2e
  | .dpr => .dpa m.hbh m.e2e
  | _ => .app m.id

def isAns : Out → Bool
  | .cea _ _ | .dwa _ _ | .dpa _ _ => true
  | _ => false

def answers (l : List Out) : List Out := l.filter isAns

@[simp] theorem answers_append (a b : List Out) : answers (a ++ b) = answers a ++ answers b := by
  simp [answers]
@[simp] theorem answers_nil : answers [] = [] := rfl

def isBaseReq (m : PMsg) : Bool := m.kind == .cer || m.kind == .dwr || m.kind == .dpr

structure Inv (n : Node) : Prop where
  emitted_eq : answers n.emitted = n.answered.map ansOf
  sendq_clean : answers n.sendq = []
  answered_reqs : ∀ m ∈ n.answered, isBaseReq m = true ∧ m.valid = true

theorem inv_init (r : Role) : Inv (init r) := by
  constructor <;> simp [init]

/-- `Inv` only looks at three fields -/
theorem same (n n' : Node) (he : n'.emitted = n.emitted) (hs : n'.sendq = n.sendq) (ha : n'.answered = n.answered)
    (h : Inv n) : Inv n' :=
  ⟨by rw [he, ha]; exact h.emitted_eq, by rw [hs]; exact h.sendq_clean, by rw [ha]; exact h.answered_reqs⟩

/-- a flush (optionally with one more non-answer message) -/
theorem flushed (n n' : Node) (extra : List Out) (hx : answers extra = [])
    (he : n'.emitted = n.emitted ++ n.sendq ++ extra) (hs : n'.sendq = []) (ha : n'.answered = n.answered)
    (h : Inv n) : Inv n' := by
  refine ⟨?_, by rw [hs]; rfl, by rw [ha]; exact h.answered_reqs⟩
  rw [he, ha, answers_append, answers_append, h.sendq_clean, hx]
  simpa using h.emitted_eq

/-- the one way an answer is written: it is the answer owed to `m`, flushed at once, and `m` is recorded -/
theorem answered (n n' : Node) (m : PMsg) (o : Out) (ho : o = ansOf m) (hk : isBaseReq m = true) (hv : m.valid = true)
    (he : n'.emitted = n.emitted ++ n.sendq ++ [o]) (hs : n'.sendq = []) (ha : n'.answered = n.answered ++ [m])
    (h : Inv n) : Inv n' := by
  have hans : isAns (ansOf m) = true := by
    simp only [isBaseReq, Bool.or_eq_true, beq_iff_eq] at hk
    rcases hk with (hk | hk) | hk <;> simp [ansOf, hk, isAns]
  subst ho
  refine ⟨?_, by rw [hs]; rfl, ?_⟩
  · rw [he, ha, answers_append, answers_append, h.sendq_clean]
    rw [show answers [ansOf m] = [ansOf m] by simp [answers, hans], h.emitted_eq]
    simp
  · intro x hx
    rw [ha] at hx
    simp only [List.mem_append, List.mem_singleton] at hx
    rcases hx with hx | rfl
    · exact h.answered_reqs x hx
    · exact ⟨hk, hv⟩

theorem goto_inv (n : Node) (a b : St) (h : Inv n) : Inv (goto n a b) := by
  unfold goto; split <;> exact same n _ rfl rfl rfl h

theorem trackEvents_inv (n : Node) (h : Inv n) : Inv (trackEvents n) := by
  unfold trackEvents
  split
  · split
    · refine ⟨h.emitted_eq, ?_, h.answered_reqs⟩
      show answers (n.sendq ++ [Out.dwr]) = []
      rw [answers_append, h.sendq_clean]; rfl
    · exact h
  · exact h

theorem connAttempt_inv (n : Node) (h : Inv n) : Inv (connAttempt n).1 := by
  unfold connAttempt
  split
  · split
    · split
      · exact flushed n _ [.cer] rfl rfl rfl rfl h
      · exact h
    · exact h
  · exact h

theorem runState_inv (n : Node) (h : Inv n) : Inv (runState n).1 := by
  unfold runState
  cases hs : n.st with
  | closed =>
    simp only [runClosed]
    cases n.role with
    | client => exact h
    | server =>
      simp only
      split
      · exact h
      · rename_i m rest _
        by_cases hv : (m.kind == .cer && m.valid) = true
        · simp only [hv, ↓reduceIte]
          simp only [Bool.and_eq_true, beq_iff_eq] at hv
          exact answered n _ m (.cea m.hbh m.e2e) (by simp [ansOf, hv.1]) (by simp [isBaseReq, hv.1]) hv.2 rfl rfl rfl h
        · simp only [Bool.not_eq_true] at hv; simp only [hv, Bool.false_eq_true, ↓reduceIte]; exact same n _ rfl rfl rfl h
  | waitConnAck =>
    simp only [runWaitConnAck, connRecv]
    have h1 := connAttempt_inv n h
    split
    · exact h1
    · split <;> exact same (connAttempt n).1 _ rfl rfl rfl h1
  | waitICEA =>
    simp only [runWaitICEA]
    split
    · exact h
    · split
      · exact h
      · split
        · split <;> exact same n _ rfl rfl rfl h
        · exact same n _ rfl rfl rfl h
  | opened =>
    have ht := trackEvents_inv n h
    simp only [runOpen]
    split
    · exact ht
    · split
      · exact flushed (trackEvents n) _ [.dpr] rfl rfl rfl rfl ht
      · split
        · exact flushed (trackEvents n) _ [] rfl (by simp [flush]) rfl rfl ht
        · split
          · exact ht
          · rename_i m rest _
            simp only [openRecv]
            cases hk : m.kind <;> simp only
            · by_cases hv : m.valid = true
              · simp only [hv, ↓reduceIte]
                exact answered (trackEvents n) _ m _ (by simp [ansOf, hk]) (by simp [isBaseReq, hk]) hv rfl rfl rfl ht
              · simp only [Bool.not_eq_true] at hv; simp only [hv, Bool.false_eq_true, ↓reduceIte]; exact same (trackEvents n) _ rfl rfl rfl ht
            · exact same (trackEvents n) _ rfl rfl rfl ht
            · by_cases hv : m.valid = true
              · simp only [hv, ↓reduceIte]
                exact answered (trackEvents n) _ m _ (by simp [ansOf, hk]) (by simp [isBaseReq, hk]) hv rfl rfl rfl ht
              · simp only [Bool.not_eq_true] at hv; simp only [hv, Bool.false_eq_true, ↓reduceIte]; exact same (trackEvents n) _ rfl rfl rfl ht
            · split <;> exact same (trackEvents n) _ rfl rfl rfl ht
            · by_cases hv : m.valid = true
              · simp only [hv, ↓reduceIte]
                exact answered (trackEvents n) _ m _ (by simp [ansOf, hk]) (by simp [isBaseReq, hk]) hv rfl rfl rfl ht
              · simp only [Bool.not_eq_true] at hv; simp only [hv, Bool.false_eq_true, ↓reduceIte]; exact same (trackEvents n) _ rfl rfl rfl ht
            · exact same (trackEvents n) _ rfl rfl rfl ht
            · split <;> exact same (trackEvents n) _ rfl rfl rfl ht
            · exact same (trackEvents n) _ rfl rfl rfl ht
  | closing =>
    simp only [runClosing]
    split
    · exact same n _ rfl rfl rfl h
    · split
      · exact h
      · split <;> exact same n _ rfl rfl rfl h
  | waitReturns => exact h
  | waitConnAckElect => exact h

theorem tick_inv (n : Node) (h : Inv n) : Inv (tick n) := by
  unfold tick
  split
  · exact h
  · exact goto_inv _ _ _ (runState_inv n h)

theorem apply_inv (n : Node) (e : Ev) (h : Inv n) : Inv (apply n e) := by
  cases e with
  | tick => exact tick_inv n h
  | inject m => exact ⟨h.emitted_eq, h.sendq_clean, h.answered_reqs⟩
  | connAck => exact ⟨h.emitted_eq, h.sendq_clean, h.answered_reqs⟩
  | connNack => exact ⟨h.emitted_eq, h.sendq_clean, h.answered_reqs⟩
  | localStop => exact ⟨h.emitted_eq, h.sendq_clean, h.answered_reqs⟩
  | peerDisc => exact ⟨h.emitted_eq, h.sendq_clean, h.answered_reqs⟩
  | idle => exact ⟨h.emitted_eq, h.sendq_clean, h.answered_reqs⟩
  | submit id =>
    simp only [apply]
    split
    · refine ⟨h.emitted_eq, ?_, h.answered_reqs⟩
      show answers (n.sendq ++ [Out.app id]) = []
      rw [answers_append, h.sendq_clean]; rfl
    · exact h
  | restart =>
    simp only [apply]
    split
    · exact ⟨h.emitted_eq, rfl, h.answered_reqs⟩
    · exact h

/-- MAIN THEOREM, every history, both roles, across reconnects on the same node object: the
    CEA/DWA/DPA written to the transport are, in order, exactly the answers owed to the valid
    CER/DWR/DPR that were consumed in an answering state — one answer per request, none without a
    request, each with its request's command and identifiers -/
theorem answers_match_requests (role : Role) (evs : List Ev) :
    answers (run role evs).emitted = (run role evs).answered.map ansOf ∧
    ∀ m ∈ (run role evs).answered, isBaseReq m = true ∧ m.valid = true := by
  suffices Inv (run role evs) from ⟨this.emitted_eq, this.answered_reqs⟩
  unfold run
  suffices ∀ n, Inv n → Inv (evs.foldl apply n) from this _ (inv_init role)
  induction evs with
  | nil => intro n h; exact h
  | cons e es ih => intro n h; exact ih _ (apply_inv n e h)

/-- the answer is written in the step that consumes the request: nothing that is an answer is ever
    parked in the send queue (every history), so whenever a request has been recorded as answered its
    answer is already on the transport — before any later inbound message is processed -/
theorem no_answer_waits (role : Role) (evs : List Ev) : answers (run role evs).sendq = [] := by
  suffices Inv (run role evs) from this.sendq_clean
  unfold run
  suffices ∀ n, Inv n → Inv (evs.foldl apply n) from this _ (inv_init role)
  induction evs with
  | nil => intro n h; exact h
  | cons e es ih => intro n h; exact ih _ (apply_inv n e h)

/-- an answer never carries identifiers of a different request: position-wise equality -/
theorem kth_answer (role : Role) (evs : List Ev) (k : Nat) (m : PMsg)
    (h : (run role evs).answered[k]? = some m) :
    (answers (run role evs).emitted)[k]? = some (ansOf m) := by
  rw [(answers_match_requests role evs).1]
  simp [h]

/-! non-vacuity: back-to-back requests with different identifiers, and a reconnect -/
def cer (h e : Nat) : PMsg := { kind := .cer, valid := true, okAddr := true, hbh := h, e2e := e, id := 0 }
def dwr (h e : Nat) : PMsg := { kind := .dwr, valid := true, okAddr := true, hbh := h, e2e := e, id := 0 }
def dpr (h e : Nat) : PMsg := { kind := .dpr, valid := true, okAddr := true, hbh := h, e2e := e, id := 0 }

example : (run .server [.inject (cer 1 2), .inject (dwr 3 4), .inject (dwr 5 6), .tick, .tick, .tick]).emitted
    = [.cea 1 2, .dwa 3 4, .dwa 5 6] := by decide
example : (run .server [.inject (cer 1 2), .tick, .inject (dpr 4294967295 0), .tick, .restart, .inject (cer 8 9), .tick]).emitted
    = [.cea 1 2, .dpa 4294967295 0, .cea 8 9] := by decide

end BV.C07
