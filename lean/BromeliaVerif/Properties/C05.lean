import BromeliaVerif.Model.Outbound
/-! C05 — submitted messages are written to the socket exactly once, whole and in order.
Over the model of the outbound pipeline (`Model/Outbound.lean`): every sequence of submissions (any
number of threads), batch flushes with any limit, transfers, partial writes of any size and inbound
events, in any order. -/
namespace BV.C05
open BV BV.Outbound

theorem takeBatch_split (limit : Nat) : ∀ (q : List OMsg) (used : Nat),
    (takeBatch limit used q).1 ++ (takeBatch limit used q).2 = q := by
  intro q
  induction q with
  | nil => intro used; simp [takeBatch]
  | cons m rest ih =>
    intro used
    unfold takeBatch
    split
    · simp [ih]
    · simp

theorem flat_append (a b : List OMsg) : flat (a ++ b) = flat a ++ flat b := by
  simp [flat]

/-- CONSERVATION: nothing is lost, duplicated, torn or reordered anywhere in the pipeline — what has
    been written, followed by what is buffered at each stage, is the concatenation of the accepted
    messages' encodings in acceptance order -/
def Inv (s : St) : Prop := s.written ++ s.sendbuf ++ s.pending ++ flat s.sendq = flat s.accepted

theorem inv_init : Inv init := by simp [Inv, init, flat]

theorem step_inv (s : St) (a : Act) (h : Inv s) : Inv (step s a) := by
  unfold Inv at *
  cases a with
  | submit m =>
    simp only [step]
    split
    · simp only [flat_append, ← List.append_assoc, h]
    · exact h
  | flush limit =>
    simp only [step]
    have e := takeBatch_split limit s.sendq 0
    rw [← h]
    conv => rhs; rw [← e, flat_append]
    simp [List.append_assoc]
  | transfer => simp only [step]; rw [← h]; simp [List.append_assoc]
  | write n =>
    simp only [step]; rw [← h]
    have := List.take_append_drop n s.sendbuf
    conv => rhs; rw [← this]
    simp [List.append_assoc]
  | readEvent => exact h
  | disconnect => exact h

theorem conservation (as : List Act) : Inv (run as) := by
  unfold run
  suffices ∀ s, Inv s → Inv (as.foldl step s) from this _ inv_init
  induction as with
  | nil => intro s h; exact h
  | cons a rest ih => intro s h; exact ih _ (step_inv s a h)

/-- at every moment the bytes on the socket are a prefix of the concatenation of the accepted
    messages (in acceptance order): none duplicated, none torn or interleaved -/
theorem written_is_prefix (as : List Act) : (run as).written <+: flat (run as).accepted := by
  have := conservation as
  unfold Inv at this
  exact ⟨(run as).sendbuf ++ (run as).pending ++ flat (run as).sendq, by rw [← this]; simp [List.append_assoc]⟩

/-- once everything has drained, the socket has received exactly the concatenation: none lost -/
theorem drained_exact (as : List Act) (h1 : (run as).sendq = []) (h2 : (run as).pending = []) (h3 : (run as).sendbuf = []) :
    (run as).written = flat (run as).accepted := by
  have := conservation as
  unfold Inv at this
  rw [h1, h2, h3] at this
  simpa [flat] using this

/-- acceptance order restricted to one submitter is that submitter's submission order (while
    connected): the accepted list is the list of submit actions, in order -/
def submits : List Act → List OMsg
  | [] => []
  | .submit m :: rest => m :: submits rest
  | _ :: rest => submits rest

theorem accepted_sublist (as : List Act) : ∀ s, (as.foldl step s).accepted.Sublist (s.accepted ++ submits as) := by
  induction as with
  | nil => intro s; simp [submits]
  | cons a rest ih =>
    intro s
    cases a with
    | submit m =>
      simp only [List.foldl_cons, submits]
      have := ih (step s (.submit m))
      by_cases hc : s.connected = true
      · simp only [step, hc, ↓reduceIte] at this ⊢
        simpa [List.append_assoc] using this
      · simp only [step, hc, ↓reduceIte] at this ⊢
        exact this.trans (List.Sublist.append (List.Sublist.refl _) (List.sublist_cons_self _ _))
    | flush l => simpa [submits, step] using ih (step s (.flush l))
    | transfer => simpa [submits, step] using ih (step s .transfer)
    | write n => simpa [submits, step] using ih (step s (.write n))
    | readEvent => simpa [submits, step] using ih s
    | disconnect => simpa [submits, step] using ih (step s .disconnect)

/-- … and with the connection up throughout, every submission is accepted: the accepted list IS the
    list of submissions, so each submitter's messages appear in its submission order -/
theorem accepted_eq_submits (as : List Act) (hc : ∀ a ∈ as, a ≠ .disconnect) :
    ∀ s, s.connected = true → (as.foldl step s).accepted = s.accepted ++ submits as := by
  induction as with
  | nil => intro s _; simp [submits]
  | cons a rest ih =>
    intro s hs
    have hrest : ∀ a ∈ rest, a ≠ .disconnect := fun x hx => hc x (List.mem_cons_of_mem _ hx)
    cases a with
    | submit m =>
      simp only [List.foldl_cons, submits]
      rw [ih hrest (step s (.submit m)) (by simp [step, hs])]
      simp [step, hs]
    | flush l => simpa [submits, step] using ih hrest (step s (.flush l)) (by simpa [step] using hs)
    | transfer => simpa [submits, step] using ih hrest (step s .transfer) (by simpa [step] using hs)
    | write n => simpa [submits, step] using ih hrest (step s (.write n)) (by simpa [step] using hs)
    | readEvent => simpa [submits, step] using ih hrest s hs
    | disconnect => exact absurd rfl (hc .disconnect (List.mem_cons_self))

theorem per_submitter_order (as : List Act) (hc : ∀ a ∈ as, a ≠ .disconnect) (t : Nat) :
    (run as).accepted.filter (·.thr == t) = (submits as).filter (·.thr == t) := by
  unfold run
  rw [accepted_eq_submits as hc init rfl]
  simp [init]

/-- a batch never exceeds the limit unless its first message alone does (that message is sent on its
    own rather than starving the queue), and it never skips a message -/
theorem batch_is_prefix (limit : Nat) (q : List OMsg) : (takeBatch limit 0 q).1 <+: q :=
  ⟨(takeBatch limit 0 q).2, takeBatch_split limit q 0⟩

-- non-vacuity: two submitters, a partial write in the middle, inbound traffic in between
def m1 : OMsg := ⟨1, [1, 2, 3]⟩
def m2 : OMsg := ⟨2, [4, 5]⟩
def m3 : OMsg := ⟨1, [6]⟩
example : (run [.submit m1, .submit m2, .flush 4, .readEvent, .transfer, .write 2, .submit m3, .readEvent, .write 5, .flush 100,
    .transfer, .write 9]).written = [1, 2, 3, 4, 5, 6] := by decide
example : (takeBatch 4 0 [m1, m2, m3]).1 = [m1] ∧ (takeBatch 2 0 [m1, m2]).1 = [m1] := by decide

/-! ### the hand-over of the pinned tree (batch attached to the selector registration) does NOT have the
property: a read event drops it, a partial write re-delivers it -/

structure PSt where
  attached : Option Bytes     -- the batch attached to the selector key (`selector.modify(…, data=stream)`)
  dataStream : Bytes          -- `data_stream`
  queued : Bool               -- `send_data_stream_queued`
  sendbuf : Bytes
  written : Bytes
deriving DecidableEq, Repr

inductive PAct | flush (b : Bytes) | round (n : Nat) | readEvent
deriving Repr

/-- `round n`: one pass of `_run` with a write event in which `sock.send` accepts n bytes -/
def pstep (s : PSt) : PAct → PSt
  | .flush b => { s with attached := some b }
  | .readEvent => { s with attached := none }          -- `_set_selector_events_mask("r")` re-registers without data
  | .round n =>
    let s1 := match s.attached with | some b => { s with dataStream := s.dataStream ++ b } | none => s
    let s2 := if !s1.queued && !s1.dataStream.isEmpty
              then { s1 with sendbuf := s1.sendbuf ++ s1.dataStream, dataStream := [], queued := true } else s1
    let s3 := { s2 with written := s2.written ++ s2.sendbuf.take n, sendbuf := s2.sendbuf.drop n }
    if s3.queued && s3.sendbuf.isEmpty then { s3 with attached := none, queued := false } else s3

def pinit : PSt := { attached := none, dataStream := [], queued := false, sendbuf := [], written := [] }

/-- a read event between the flush and the write pass: the batch is gone -/
theorem pinned_read_event_loses :
    ([PAct.flush [1, 2, 3], .readEvent, .round 10].foldl pstep pinit).written = [] := by decide

/-- a partial write keeps the batch attached: it is appended to the output again on the next pass -/
theorem pinned_partial_write_duplicates :
    ([PAct.flush [1, 2, 3], .round 2, .round 10, .flush [4], .round 10].foldl pstep pinit).written = [1, 2, 3, 1, 2, 3, 4] := by decide


/-! ### write interest: bytes waiting in the transport keep the socket registered for write events -/

/-- bytes in the hand-over buffer or in the send buffer ⇒ `EVENT_WRITE` is registered -/
def WI (sa : St × Bool) : Prop := (sa.1.pending ≠ [] ∨ sa.1.sendbuf ≠ []) → sa.2 = true

theorem flat_eq_nil_of_batch_nil (b : List OMsg) (h : b = []) : flat b = [] := by subst h; rfl

theorem step2_wi (sa : St × Bool) (a : Act) (h : WI sa) : WI (step2 sa a) := by
  obtain ⟨s, armed⟩ := sa
  unfold WI at *
  simp only at h
  cases a with
  | submit m => simp only [step2, step, armedAfter]; split <;> exact h
  | flush limit =>
    simp only [step2, step, armedAfter]
    intro hne
    cases hb : (takeBatch limit 0 s.sendq).1 with
    | nil =>
      simp only [hb, flat, List.map_nil, List.flatten_nil, List.append_nil] at hne
      have := h hne
      simp [this]
    | cons x xs => simp
  | transfer =>
    simp only [step2, step, armedAfter]
    intro hne
    apply h
    rcases hne with hne | hne
    · exact absurd rfl hne
    · by_cases hp : s.pending = []
      · right; intro hs; exact hne (by rw [hs, hp]; rfl)
      · left; exact hp
  | write n =>
    simp only [step2, step, armedAfter]
    intro hne
    by_cases hd : s.sendbuf.drop n = []
    · simp only [hd, List.isEmpty_nil, if_true]
      rcases hne with hne | hne
      · cases hp : s.pending with
        | nil => exact absurd hp hne
        | cons x xs => rfl
      · exact absurd hd hne
    · have : (s.sendbuf.drop n).isEmpty = false := by
        cases hx : s.sendbuf.drop n with
        | nil => exact absurd hx hd
        | cons x xs => rfl
      simp only [this]
      apply h
      right
      intro hs
      exact hd (by rw [hs]; simp)
  | readEvent =>
    simp only [step2, step, armedAfter]
    intro hne
    rcases hne with hne | hne
    · cases hp : s.pending with
      | nil => exact absurd hp hne
      | cons x xs => simp
    · cases hp : s.sendbuf with
      | nil => exact absurd hp hne
      | cons x xs => simp
  | disconnect => simp only [step2, step, armedAfter]; exact h

/-- for every sequence of submissions, flushes, write events (whole or partial) and read events, in any order: while bytes
    wait in the transport the socket stays registered for write events, so the next select round writes them (no later
    submission is needed to get them moving) -/
theorem write_interest_kept (as : List Act) : WI (run2 as) := by
  unfold run2
  suffices ∀ sa, WI sa → WI (as.foldl step2 sa) from this _ (by intro h; rcases h with h | h <;> exact absurd rfl h)
  induction as with
  | nil => intro sa h; exact h
  | cons a rest ih => intro sa h; exact ih _ (step2_wi sa a h)

/-- the tracked pipeline is the pipeline -/
theorem run2_fst (as : List Act) : (run2 as).1 = run as := by
  unfold run2 run
  suffices ∀ s b, (as.foldl step2 (s, b)).1 = as.foldl step s from this _ _
  induction as with
  | nil => intro s b; rfl
  | cons a rest ih => intro s b; exact ih _ _

/-- and a write event that takes everything empties the transport: with the interest kept, that event comes -/
theorem write_event_drains (s : St) :
    (step (step s .transfer) (.write (s.sendbuf.length + s.pending.length))).pending = [] ∧
    (step (step s .transfer) (.write (s.sendbuf.length + s.pending.length))).sendbuf = [] := by
  simp [step]

-- non-vacuity: a partial write followed by a read event keeps the interest; the pinned shape of the defect drops it
example : (run2 [.submit ⟨0, [1, 2, 3, 4]⟩, .flush 100, .transfer, .write 1, .readEvent]).2 = true ∧
    (run2 [.submit ⟨0, [1, 2, 3, 4]⟩, .flush 100, .transfer, .write 1, .readEvent]).1.sendbuf = [2, 3, 4] := by decide

end BV.C05
