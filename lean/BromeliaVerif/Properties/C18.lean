import BromeliaVerif.Proofs.Tbcd
/-! C18 — TBCD digit encoding round-trips for every digit string. -/
namespace BV.C18
open BV BV.Tbcd

/-- decode ∘ encode = id for every string without the filler character (in particular every digit
    string), of any length, odd or even — by two-step induction. -/
theorem decode_encode : ∀ s : List Char, (∀ c ∈ s, c ≠ 'f') → dec (enc s) = some s
  | [], _ => rfl
  | [a], h => by
    have : a ≠ 'f' := h a (by simp)
    simp [enc, dec]
  | a :: b :: rest, h => by
    have ha : a ≠ 'f' := h a (by simp)
    have hb : b ≠ 'f' := h b (by simp)
    have ih := decode_encode rest (fun c hc => h c (by simp [hc]))
    simp [enc, dec, ha, hb, ih]

/-- digits are not the filler -/
theorem digit_ne_filler (c : Char) (h : c.isDigit = true) : c ≠ 'f' := by
  intro e; subst e; revert h; decide

theorem decode_encode_digits (s : List Char) (h : ∀ c ∈ s, c.isDigit = true) : dec (enc s) = some s :=
  decode_encode s fun c hc => digit_ne_filler c (h c hc)

/-- the encoding of a number's decimal numeral round-trips -/
theorem decode_encode_number (n : Nat) : dec (enc (Nat.toDigits 10 n)) = some (Nat.toDigits 10 n) :=
  decode_encode_digits _ fun _ hc => Nat.isDigit_of_mem_toDigits (by decide) (by decide) hc

/-- no two digit strings share a TBCD encoding (corollary of the round trip): what the peer decodes
    is the string that was encoded and no other -/
theorem encode_injective (s t : List Char) (hs : ∀ c ∈ s, c.isDigit = true) (ht : ∀ c ∈ t, c.isDigit = true)
    (h : enc s = enc t) : s = t := by
  have h1 := decode_encode_digits s hs
  have h2 := decode_encode_digits t ht
  rw [h, h2] at h1
  exact (Option.some.inj h1).symm

/-- length of the encoding: one octet (two hex characters) per started pair -/
theorem encode_length : ∀ s : List Char, (enc s).length = 2 * ((s.length + 1) / 2)
  | [] => rfl
  | [_] => by simp [enc]
  | _ :: _ :: rest => by simp [enc, encode_length rest]; omega

/-- … and a string of even length never collides with one of odd length even after the filler is dropped -/
theorem encode_length_parity (s t : List Char) (h : enc s = enc t) : (s.length + 1) / 2 = (t.length + 1) / 2 := by
  have := congrArg List.length h
  rw [encode_length, encode_length] at this
  omega

/-- nibble-swapped layout: in octet i the second hex character is digit 2i and the first is digit
    2i+1, or the filler when the string has ended -/
theorem encode_layout : ∀ (s : List Char) (i : Nat), 2 * i < s.length →
    (enc s)[2 * i + 1]? = s[2 * i]? ∧ (enc s)[2 * i]? = some (s.getD (2 * i + 1) 'f')
  | [], _, h => by simp at h
  | [a], i, h => by
    have : i = 0 := by simp at h; omega
    subst this; simp [enc]
  | a :: b :: rest, 0, _ => by simp [enc]
  | a :: b :: rest, i + 1, h => by
    have ih := encode_layout rest i (by simp at h; omega)
    have e1 : 2 * (i + 1) + 1 = (2 * i + 1) + 1 + 1 := by omega
    have e2 : 2 * (i + 1) = (2 * i) + 1 + 1 := by omega
    rw [e1, e2]
    simp only [enc, List.getElem?_cons_succ, List.getD_cons_succ]
    exact ⟨ih.1, ih.2⟩

/-- the filler appears only for odd lengths -/
theorem filler_iff_odd : ∀ s : List Char, (∀ c ∈ s, c ≠ 'f') → ('f' ∈ enc s ↔ s.length % 2 = 1)
  | [], _ => by simp [enc]
  | [a], _ => by simp [enc]
  | a :: b :: rest, h => by
    have ha : a ≠ 'f' := h a (by simp)
    have hb : b ≠ 'f' := h b (by simp)
    have ih := filler_iff_odd rest (fun c hc => h c (by simp [hc]))
    simp only [enc, List.mem_cons, List.length_cons]
    constructor
    · rintro (e | e | e)
      · exact absurd e.symm hb
      · exact absurd e.symm ha
      · have := ih.1 e; omega
    · intro e; right; right; exact ih.2 (by omega)

/-- MSISDN / STN-SR built from a number carry exactly the TBCD octets of its decimal numeral -/
theorem avp_carries_tbcd (n : Nat) : avpData n = Spec.tbcdBytes (Nat.toDigits 10 n) :=
  fromHex_enc _

-- non-vacuity / concrete layout
example : enc "5511".toList = "5511".toList.reverse.reverse.tail.head! :: '5' :: "11".toList := by decide
example : enc "12345".toList = "2143f5".toList ∧ dec "2143f5".toList = some "12345".toList := by decide
example : avpData 5521993082672 = [0x55, 0x12, 0x99, 0x03, 0x28, 0x76, 0xf2] := by decide

end BV.C18
