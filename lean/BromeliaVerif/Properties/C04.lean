import BromeliaVerif.Model.Inbound
/-! C04 — inbound messages are delivered once, in order, however the stream is fragmented.
Over the model of the inbound pipeline (`Model/Inbound.lean`): every sequence of well-formed
messages, every segmentation of their bytes by the network (any chunk sizes, down to one byte, cuts
inside headers) and every interleaving of reader, receive worker, state machine and consumer. -/
namespace BV.C04
open BV BV.Inbound

/-! ### framing: cutting a byte stream back into the messages it was made of -/

theorem lenField_append (m rest : Bytes) (h : 4 ≤ m.length) : lenField (m ++ rest) = lenField m := by
  unfold lenField
  congr 1
  rw [List.drop_append_of_le_length (by omega)]
  rw [List.take_append_of_le_length (by simp; omega)]

/-- a prefix of a well-formed message that is shorter than the message is never taken for complete -/
theorem incomplete_not_split (m : Bytes) (hm : WellFormed m) (p : Bytes) (hp : p <+: m) (hlt : p.length < m.length) (f : Nat) :
    splitStream f p = ([], p) := by
  cases f with
  | zero => rfl
  | succ f =>
    unfold splitStream
    by_cases h20 : p.length < 20
    · simp [h20]
    · simp only [h20, ↓reduceIte]
      obtain ⟨t, ht⟩ := hp
      have hl : lenField p = m.length := by
        have : lenField (p ++ t) = lenField p := lenField_append p t (by omega)
        rw [ht] at this
        rw [← this]; exact hm.2
      simp [hl, hlt]

/-- FRAMING: for every sequence of well-formed messages and EVERY prefix of their concatenation
    (wherever the network or the reader cut it), the split yields exactly the messages that are
    complete in the prefix, in order, and keeps the bytes of the partial one -/
theorem split_prefix : ∀ (ms : List Bytes), (∀ m ∈ ms, WellFormed m) → ∀ (p : Bytes), p <+: ms.flatten → ∀ f, p.length ≤ f →
    ∃ j, (splitStream f p).1 = ms.take j ∧ (ms.take j).flatten ++ (splitStream f p).2 = p ∧
      (splitStream f p).2 <+: (ms.drop j).flatten ∧ (∀ m, (ms.drop j).head? = some m → (splitStream f p).2.length < m.length) := by
  intro ms
  induction ms with
  | nil =>
    intro _ p hp f _
    have : p = [] := by simpa using hp
    subst this
    refine ⟨0, ?_, ?_, ?_, ?_⟩ <;> cases f <;> simp [splitStream]
  | cons m rest ih =>
    intro hwf p hp f hf
    have hm := hwf m (List.mem_cons_self)
    have hrest : ∀ x ∈ rest, WellFormed x := fun x hx => hwf x (List.mem_cons_of_mem _ hx)
    simp only [List.flatten_cons] at hp
    by_cases hlen : p.length < m.length
    · -- p ends inside the first message
      have hpm : p <+: m :=
        List.prefix_of_prefix_length_le hp (List.prefix_append _ _) (by omega)
      have := incomplete_not_split m hm p hpm hlen f
      refine ⟨0, by simp [this], by simp [this], ?_, ?_⟩
      · simp only [this, List.drop_zero, List.flatten_cons]; exact hp
      · intro x hx; simp only [List.drop_zero, List.head?_cons, Option.some.injEq] at hx; subst hx; simp [this, hlen]
    · -- the first message is complete in p
      have hge : m.length ≤ p.length := by omega
      obtain ⟨t, ht⟩ := hp
      have hpm : p = m ++ p.drop m.length := by
        have h1 : p.take m.length = m := by
          have : (p ++ t).take m.length = m := by rw [ht]; simp
          rw [List.take_append_of_le_length hge] at this; exact this
        conv => lhs; rw [← List.take_append_drop m.length p, h1]
      have hq : p.drop m.length <+: rest.flatten := by
        refine ⟨t, ?_⟩
        have : m ++ (p.drop m.length ++ t) = m ++ rest.flatten := by rw [← List.append_assoc, ← hpm, ht]
        exact List.append_cancel_left this
      cases f with
      | zero =>
        have : p.length = 0 := by omega
        have : m.length = 0 := by omega
        have := hm.1; omega
      | succ f =>
        have hl : lenField p = m.length := by
          rw [hpm, lenField_append m _ (by have := hm.1; omega)]; exact hm.2
        have h20 : ¬ p.length < 20 := by have := hm.1; omega
        obtain ⟨j, h1, h2, h3, h4⟩ := ih hrest (p.drop m.length) hq f (by simp; have := hm.1; omega)
        refine ⟨j + 1, ?_, ?_, ?_, ?_⟩
        · unfold splitStream
          simp only [h20, ↓reduceIte, hl]
          have : ¬ (m.length < 20 ∨ p.length < m.length) := by have := hm.1; omega
          simp only [this, ↓reduceIte, List.take_succ_cons, h1]
          congr 1
          have : (p.take m.length) = m := by
            have := congrArg (List.take m.length) hpm
            simpa using this
          exact this
        · unfold splitStream
          simp only [h20, ↓reduceIte, hl]
          have : ¬ (m.length < 20 ∨ p.length < m.length) := by have := hm.1; omega
          simp only [this, ↓reduceIte, List.take_succ_cons, List.flatten_cons, List.append_assoc, h2]
          exact hpm.symm
        · unfold splitStream
          simp only [h20, ↓reduceIte, hl]
          have : ¬ (m.length < 20 ∨ p.length < m.length) := by have := hm.1; omega
          simpa only [this, ↓reduceIte, List.drop_succ_cons] using h3
        · unfold splitStream
          simp only [h20, ↓reduceIte, hl]
          have : ¬ (m.length < 20 ∨ p.length < m.length) := by have := hm.1; omega
          simpa only [this, ↓reduceIte, List.drop_succ_cons] using h4

/-! ### the pipeline: every segmentation, every interleaving -/

/-- invariant: the messages parsed so far (taken by the state machine, or still queued) are an initial
    segment of what the peer sent, and the bytes still in flight (reassembly carry, transport buffer,
    network) are exactly the encoding of the rest; deliveries are the application messages among those
    taken, in order -/
structure PInv (isApp : Bytes → Bool) (ms : List Bytes) (s : St) : Prop where
  framed : ∃ j, s.ticked ++ s.queue = ms.take j ∧ s.carry ++ s.recvStream ++ s.wire = (ms.drop j).flatten
  deliveries : s.delivered ++ s.deliverQ = s.ticked.filter isApp
  base : s.consumed = s.ticked.filter (fun m => !isApp m)

theorem pinv_init (isApp : Bytes → Bool) (ms : List Bytes) : PInv isApp ms (init ms.flatten) :=
  ⟨⟨0, by simp [init], by simp [init]⟩, by simp [init], by simp [init]⟩

/-- what one worker iteration does to a framed state -/
theorem worker_framed (ms : List Bytes) (hwf : ∀ m ∈ ms, WellFormed m) (s : St) (j : Nat)
    (h1 : s.ticked ++ s.queue = ms.take j) (h2 : s.carry ++ s.recvStream ++ s.wire = (ms.drop j).flatten) :
    let r := splitStream (s.carry ++ s.recvStream).length (s.carry ++ s.recvStream)
    ∃ k, s.ticked ++ (s.queue ++ r.1) = ms.take (j + k) ∧ r.2 ++ [] ++ s.wire = (ms.drop (j + k)).flatten ∧
      (∀ m, (ms.drop (j + k)).head? = some m → r.2.length < m.length) := by
  intro r
  have hp : (s.carry ++ s.recvStream) <+: (ms.drop j).flatten := ⟨s.wire, h2⟩
  have hwf' : ∀ m ∈ ms.drop j, WellFormed m := fun m hm => hwf m (List.mem_of_mem_drop hm)
  obtain ⟨k, e1, e2, _, e4⟩ := split_prefix (ms.drop j) hwf' _ hp _ (Nat.le_refl _)
  refine ⟨k, ?_, ?_, ?_⟩
  · rw [← List.append_assoc, h1, e1, List.take_add]
  · have h3 : (ms.drop j).flatten = ((ms.drop j).take k).flatten ++ ((ms.drop j).drop k).flatten := by
      rw [← List.flatten_append, List.take_append_drop]
    have h4 : ((ms.drop j).take k).flatten ++ (r.2 ++ s.wire) = ((ms.drop j).take k).flatten ++ ((ms.drop j).drop k).flatten := by
      rw [← List.append_assoc, e2, h2, ← h3]
    have := List.append_cancel_left h4
    simpa [List.drop_drop, Nat.add_comm] using this
  · intro m hm
    apply e4 m
    simpa [List.drop_drop, Nat.add_comm] using hm

theorem step_pinv (isApp : Bytes → Bool) (ms : List Bytes) (hwf : ∀ m ∈ ms, WellFormed m) (s : St) (a : Act)
    (h : PInv isApp ms s) : PInv isApp ms (step isApp s a) := by
  obtain ⟨⟨j, h1, h2⟩, hd, hb⟩ := h
  cases a with
  | chunk n =>
    refine ⟨⟨j, h1, ?_⟩, hd, hb⟩
    simp only [step]
    rw [← h2]
    simp [List.append_assoc]
  | worker =>
    obtain ⟨k, e1, e2, _⟩ := worker_framed ms hwf s j h1 h2
    exact ⟨⟨j + k, e1, e2⟩, hd, hb⟩
  | tick =>
    simp only [step]
    cases hq : s.queue with
    | nil => simp only; exact ⟨⟨j, h1, h2⟩, hd, hb⟩
    | cons m rest =>
      simp only
      rw [hq] at h1
      by_cases ha : isApp m = true
      · simp only [ha, ↓reduceIte]
        refine ⟨⟨j, by simpa [List.append_assoc] using h1, h2⟩, ?_, ?_⟩
        · simp only [List.filter_append, List.filter_cons, ha, ↓reduceIte, List.filter_nil, ← List.append_assoc, hd]
        · simp only [List.filter_append, List.filter_cons, ha, Bool.not_true, Bool.false_eq_true, ↓reduceIte, List.filter_nil,
            List.append_nil]; exact hb
      · simp only [ha, Bool.false_eq_true, ↓reduceIte]
        have ha' : isApp m = false := by simpa using ha
        refine ⟨⟨j, by simpa [List.append_assoc] using h1, h2⟩, ?_, ?_⟩
        · simp only [List.filter_append, List.filter_cons, ha', Bool.false_eq_true, ↓reduceIte, List.filter_nil, List.append_nil]; exact hd
        · simp only [List.filter_append, List.filter_cons, ha', Bool.not_false, ↓reduceIte, List.filter_nil, hb]
  | get =>
    simp only [step]
    cases hq : s.deliverQ with
    | nil => simp only; exact ⟨⟨j, h1, h2⟩, hd, hb⟩
    | cons m rest =>
      simp only
      refine ⟨⟨j, h1, h2⟩, ?_, hb⟩
      rw [← hd, hq]; simp [List.append_assoc]

theorem run_pinv (isApp : Bytes → Bool) (ms : List Bytes) (hwf : ∀ m ∈ ms, WellFormed m) (as : List Act) :
    PInv isApp ms (run isApp ms.flatten as) := by
  unfold run
  suffices ∀ s, PInv isApp ms s → PInv isApp ms (as.foldl (step isApp) s) from this _ (pinv_init isApp ms)
  induction as with
  | nil => intro s h; exact h
  | cons a rest ih => intro s h; exact ih _ (step_pinv isApp ms hwf s a h)

theorem prefix_filter {α : Type} (p : α → Bool) {a b : List α} (h : a <+: b) : a.filter p <+: b.filter p := by
  obtain ⟨t, rfl⟩ := h
  exact ⟨t.filter p, by simp⟩

/-- ONCE, COMPLETE, IN ORDER: for every message sequence, every segmentation and every interleaving,
    what the application has received is an initial segment of the application messages sent, and
    what the state machine has consumed is an initial segment of the base-protocol messages sent -/
theorem delivered_in_order (isApp : Bytes → Bool) (ms : List Bytes) (hwf : ∀ m ∈ ms, WellFormed m) (as : List Act) :
    (run isApp ms.flatten as).delivered <+: ms.filter isApp ∧
    (run isApp ms.flatten as).consumed <+: ms.filter (fun m => !isApp m) := by
  obtain ⟨⟨j, h1, _⟩, hd, hb⟩ := run_pinv isApp ms hwf as
  have ht : (run isApp ms.flatten as).ticked <+: ms :=
    (List.prefix_append _ _).trans (h1 ▸ List.take_prefix j ms)
  constructor
  · exact List.IsPrefix.trans ⟨_, hd⟩ (prefix_filter isApp ht)
  · rw [hb]; exact prefix_filter _ ht

/-- NOTHING LOST: once the network has delivered everything, one more worker iteration leaves no
    byte behind and every message sent has been parsed, in order; when the queues have been emptied the
    application has received exactly the application messages sent -/
theorem all_parsed_after_drain (isApp : Bytes → Bool) (ms : List Bytes) (hwf : ∀ m ∈ ms, WellFormed m) (as : List Act)
    (hw : (run isApp ms.flatten as).wire = []) :
    let s := step isApp (run isApp ms.flatten as) .worker
    s.carry = [] ∧ s.recvStream = [] ∧ s.ticked ++ s.queue = ms := by
  intro s
  obtain ⟨⟨j, h1, h2⟩, _, _⟩ := run_pinv isApp ms hwf as
  obtain ⟨k, e1, e2, e3⟩ := worker_framed ms hwf _ j h1 h2
  have hrest : ms.drop (j + k) = [] := by
    cases hd : ms.drop (j + k) with
    | nil => rfl
    | cons m rest =>
      exfalso
      have hl := e3 m (by rw [hd]; rfl)
      rw [hw, hd] at e2
      simp only [List.append_nil, List.flatten_cons] at e2
      rw [e2] at hl
      simp at hl
      omega
  have hcarry : s.carry = [] := by
    rw [hw, hrest] at e2
    show (splitStream ((run isApp ms.flatten as).carry ++ (run isApp ms.flatten as).recvStream).length
      ((run isApp ms.flatten as).carry ++ (run isApp ms.flatten as).recvStream)).2 = []
    simpa using e2
  refine ⟨hcarry, rfl, ?_⟩
  have : ms.take (j + k) = ms := by
    have := List.take_append_drop (j + k) ms
    rw [hrest, List.append_nil] at this; exact this
  rw [← this]; exact e1

theorem all_delivered (isApp : Bytes → Bool) (ms : List Bytes) (hwf : ∀ m ∈ ms, WellFormed m) (as : List Act)
    (hq : (run isApp ms.flatten as).queue = []) (hd : (run isApp ms.flatten as).deliverQ = [])
    (hall : (run isApp ms.flatten as).ticked = ms) :
    (run isApp ms.flatten as).delivered = ms.filter isApp ∧ (run isApp ms.flatten as).consumed = ms.filter (fun m => !isApp m) := by
  obtain ⟨_, h2, h3⟩ := run_pinv isApp ms hwf as
  rw [hd, List.append_nil, hall] at h2
  rw [hall] at h3
  exact ⟨h2, h3⟩

-- non-vacuity: two 20-byte messages (length field 20), delivered one byte at a time
def hdr (tag : UInt8) : Bytes := [1, 0, 0, 20, tag, 0, 0, 0, 0, 0, 0, 0, 0, 0, 0, 0, 0, 0, 0, 0]
example : WellFormed (hdr 7) := ⟨by decide, by decide⟩
example : (run (fun m => m[4]? == some 9) (hdr 7 ++ hdr 9) ((List.replicate 40 [Act.chunk 1, .worker]).flatten ++ [.tick, .tick, .get])).delivered
    = [hdr 9] := by decide

end BV.C04
