import BromeliaVerif.Model.Session
import Std.Data.String.ToNat
/-! C16 — generated Session-Ids are unique for the life of the process and well-formed. -/
namespace BV.C16
open BV.Session

theorem run_low_gt (ops : List Op) : ∀ (s : St), ∀ x ∈ run s ops, s.id < x.low ∧ x.high = s.init := by
  induction ops with
  | nil => intro s x hx; cases hx
  | cons op ops ih =>
    intro s x hx
    simp only [run, List.mem_cons] at hx
    rcases hx with rfl | hx
    · simp [step]
    · have := ih (step s op).1 x hx
      simp only [step] at this
      exact ⟨by omega, this.2⟩

/-- uniqueness: along every history of generations and bulk origin updates, for any identities (same
    or switching) at any rate, the generated Session-Ids are pairwise distinct — even their
    (high32, low32) parts alone are -/
theorem session_unique (s : St) (ops : List Op) : ((run s ops).map (fun x => (x.high, x.low))).Nodup := by
  induction ops generalizing s with
  | nil => simp [run]
  | cons op ops ih =>
    simp only [run, List.map_cons, List.nodup_cons]
    refine ⟨?_, ih _⟩
    intro hm
    obtain ⟨x, hx, he⟩ := List.mem_map.mp hm
    have := run_low_gt ops (step s op).1 x hx
    simp only [step, Prod.mk.injEq] at he this
    omega

theorem nodup_of_map {α β : Type} (f : α → β) : ∀ (l : List α), (l.map f).Nodup → l.Nodup
  | [], _ => List.nodup_nil
  | x :: xs, h => by
    simp only [List.map_cons, List.nodup_cons] at h ⊢
    exact ⟨fun hx => h.1 (List.mem_map.mpr ⟨x, hx, rfl⟩), nodup_of_map f xs h.2⟩

theorem session_unique' (s : St) (ops : List Op) : (run s ops).Nodup :=
  nodup_of_map _ _ (session_unique s ops)

/-- form: identity;high32;low32;optional — the text starts with the given identity, followed by the
    decimal `init` and counter -/
theorem session_form (s : St) (op : Op) :
    let x := (step s op).2
    x.identity = op.identity ∧ render x = op.identity ++ ';' :: ((Nat.repr s.init).toList ++ ';' :: ((Nat.repr (s.id + 1)).toList ++ ";bromelia".toList)) ∧
    op.identity <+: render x := by
  refine ⟨rfl, by simp [render, step], ?_⟩
  simp only [render, step, List.append_assoc]
  exact List.prefix_append _ _

/-- the i-th generated id carries counter s.id + i + 1 (so a bulk update that switches identity does
    not restart the numbering) -/
theorem counter_monotone (s : St) (ops : List Op) (i : Nat) (h : i < (run s ops).length) :
    ((run s ops)[i]).low = s.id + i + 1 := by
  induction ops generalizing s i with
  | nil => simp [run] at h
  | cons op ops ih =>
    cases i with
    | zero => simp [run, step]
    | succ j =>
      simp only [run, List.getElem_cons_succ]
      have := ih (step s op).1 j (by simpa [run] using h)
      simp only [step] at this ⊢
      omega

-- non-vacuity: two identities interleaved with a switching bulk update, all within one second
example : (run ⟨3900000000, 0⟩ [.gen "a".toList, .gen "b".toList, .bulk "b".toList "a".toList, .bulk "a".toList "b".toList, .gen "a".toList]).map (·.low) = [1, 2, 3, 4, 5] := by
  decide


/-- a list cut at its LAST `;`: if the tails carry no `;`, equal texts have equal tails -/
theorem tail_eq_of_no_sep (a b d e : List Char) (hd : ';' ∉ d) (he : ';' ∉ e)
    (h : a ++ ';' :: d = b ++ ';' :: e) : d = e := by
  induction a generalizing b with
  | nil =>
    cases b with
    | nil => simpa using h
    | cons c b =>
      simp only [List.nil_append, List.cons_append, List.cons.injEq] at h
      exact absurd (h.2 ▸ (by simp : ';' ∈ b ++ ';' :: e)) hd
  | cons c a ih =>
    cases b with
    | nil =>
      simp only [List.nil_append, List.cons_append, List.cons.injEq] at h
      exact absurd (h.2 ▸ (by simp : ';' ∈ a ++ ';' :: d)) he
    | cons c' b =>
      simp only [List.cons_append, List.cons.injEq] at h
      exact ih b h.2

theorem no_sep_repr (n : Nat) : ';' ∉ (Nat.repr n).toList := by
  intro h
  rw [Nat.toList_repr] at h
  have := Nat.isDigit_of_mem_toDigits (by omega) (by omega) h
  revert this; decide

/-- the TEXT decides the counter: two rendered Session-Ids that are equal as strings have the same
    low word, whatever the identities are (identities may themselves contain `;`) -/
theorem render_low_inj (x y : Sid) (h : render x = render y) : x.low = y.low := by
  have hx : ∀ z : Sid, render z = ((z.identity ++ [';'] ++ (Nat.repr z.high).toList) ++ ';' :: (Nat.repr z.low).toList) ++ ";bromelia".toList := by
    intro z; simp [render, List.append_assoc]
  rw [hx x, hx y] at h
  have h1 := List.append_cancel_right h
  have := tail_eq_of_no_sep _ _ _ _ (no_sep_repr _) (no_sep_repr _) h1
  exact Nat.repr_injective (String.toList_inj.mp this)

/-- uniqueness at the level the statement speaks of — the generated TEXTS are pairwise distinct in
    every history, for arbitrary identities -/
theorem session_text_unique (s : St) (ops : List Op) : ((run s ops).map render).Nodup := by
  induction ops generalizing s with
  | nil => simp [run]
  | cons op ops ih =>
    simp only [run, List.map_cons, List.nodup_cons]
    refine ⟨?_, ih _⟩
    intro hm
    obtain ⟨x, hx, he⟩ := List.mem_map.mp hm
    have h1 := run_low_gt ops (step s op).1 x hx
    have h2 := render_low_inj _ _ he
    simp only [step] at h1 h2
    omega

-- non-vacuity: identities that contain the separator themselves
example : ((run ⟨1, 0⟩ [.gen "a;1".toList, .gen "a".toList]).map render).Nodup := session_text_unique _ _
end BV.C16
