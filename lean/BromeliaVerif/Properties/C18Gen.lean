import BromeliaVerif.Gen.TbcdGen
import BromeliaVerif.Properties.C18
/-! Tie (a) for the TBCD loops (C18): `Gen/TbcdGen.lean` is regenerated from `bromelia/utils.py` on every run
(`harness/gen_tbcd.py`, a shape-checking translation carrying the code's constants: slice width, step, filler character, the
index kept at the filler, the special characters) as index loops with fuel; the theorems below are re-checked against it. -/
namespace BV.C18Gen
open BV.Tbcd BV.Gen.Tbcd

def plain (s : List Char) : Prop := ∀ c ∈ s, c ∉ specialChars

theorem isSpecial_false (bits s : List Char) (hs : plain s) (hb : ∀ c ∈ bits, c ∈ s) : isSpecial bits = false := by
  unfold isSpecial
  rw [List.any_eq_false]
  intro c hc
  simp only [List.contains_eq_mem, decide_eq_true_eq]
  intro hm
  exact hs c (hb c hm) hc

theorem encLoop_spec (tr : List Char → List Char) (input : List Char) (hp : plain input) :
    ∀ (f off : Nat) (out : List Char), input.length - off < f → encLoop tr input f off out = out ++ enc (input.drop off) := by
  first
  | (intros; rfl)        -- Gen/TbcdGen.lean fell back to the hand model (source outside the translator's shape): tie (b) alone
  | (
    intro f
    induction f with
    | zero => intro off out h; omega
    | succ f ih =>
      intro off out h
      unfold encLoop
      by_cases hlt : off < input.length
      · simp only [hlt, if_true]
        match hd : input.drop off with
        | [] => simp [List.drop_eq_nil_iff] at hd; omega
        | [a] =>
          simp [hd, enc]
        | a :: b :: rest =>
          have hmem : ∀ c ∈ [b, a], c ∈ input := by
            intro c hc
            have : c ∈ input.drop off := by rw [hd]; simp at hc ⊢; rcases hc with h | h <;> simp [h]
            exact List.mem_of_mem_drop this
          have hsp := isSpecial_false [b, a] input hp hmem
          have hdrop : input.drop (off + 2) = rest := by
            rw [← List.drop_drop, hd]; rfl
          have hlen : (input.drop off).length = input.length - off := List.length_drop
          rw [hd] at hlen
          simp only [List.length_cons] at hlen
          simp only [List.take, List.length_cons, List.length_nil, List.reverse_cons, List.reverse_nil, List.nil_append,
            List.singleton_append, hsp, if_true, Bool.false_eq_true, if_false]
          rw [ih (off + 2) (out ++ [b, a]) (by omega), hdrop]
          simp [enc]
      · simp only [hlt, if_false]
        have : input.drop off = [] := List.drop_eq_nil_iff.2 (by omega)
        simp [this, enc]
    )

/-- `encode_to_tbcd` as translated from the code on this run IS the model's encoder on every string without special characters
(in particular every digit string, any length): the round-trip, layout and filler theorems of C18 hold of the code as it is now -/
theorem gen_encode_eq (tr : List Char → List Char) (s : List Char) (hp : plain s) : encode tr s = enc s := by
  first
  | (rfl)        -- Gen/TbcdGen.lean fell back to the hand model (source outside the translator's shape): tie (b) alone
  | (
    unfold encode
    rw [encLoop_spec tr s hp _ 0 [] (by omega)]
    simp
    )

theorem decLoop_spec (input : List Char) :
    ∀ (f off : Nat) (out : List Char), input.length - off < f →
      decLoop input f off out = (dec (input.drop off)).map (out ++ ·) := by
  first
  | (intros; rfl)        -- Gen/TbcdGen.lean fell back to the hand model (source outside the translator's shape): tie (b) alone
  | (
    intro f
    induction f with
    | zero => intro off out h; omega
    | succ f ih =>
      intro off out h
      unfold decLoop
      by_cases hlt : off < input.length
      · simp only [hlt, if_true]
        match hd : input.drop off with
        | [] => simp [List.drop_eq_nil_iff] at hd; omega
        | [a] =>
          have hlen : (input.drop off).length = input.length - off := List.length_drop
          rw [hd] at hlen
          simp only [List.length_cons, List.length_nil] at hlen
          by_cases ha : a = 'f'
          · subst ha; simp [dec]
          · have hd2 : input.drop (off + 2) = [] := List.drop_eq_nil_iff.2 (by omega)
            have hne : (a == 'f') = false := by simp [ha]
            simp only [List.take, List.any_cons, List.any_nil, Bool.or_false, hne, Bool.not_false, if_true,
              List.reverse_cons, List.reverse_nil, List.nil_append]
            rw [ih (off + 2) (out ++ [a]) (by omega), hd2]
            simp [dec, hne]
        | a :: b :: rest =>
          have hdrop : input.drop (off + 2) = rest := by
            rw [← List.drop_drop, hd]; rfl
          have hlen : (input.drop off).length = input.length - off := List.length_drop
          rw [hd] at hlen
          simp only [List.length_cons] at hlen
          by_cases hf : (a == 'f' || b == 'f') = true
          · have hc : ([a, b].any (fun c => c == 'f')) = true := by
              simp only [List.any_cons, List.any_nil, Bool.or_false]
              exact hf
            simp only [List.take, hc, Bool.not_true, Bool.false_eq_true, if_false, dec, hf, if_true]
            simp
          · have hf' : (a == 'f' || b == 'f') = false := by simpa using hf
            have hc : ([a, b].any (fun c => c == 'f')) = false := by
              simp only [List.any_cons, List.any_nil, Bool.or_false]
              exact hf'
            simp only [List.take, hc, Bool.not_false, if_true, List.reverse_cons, List.reverse_nil, List.nil_append,
              List.singleton_append]
            rw [ih (off + 2) (out ++ [b, a]) (by omega), hdrop]
            simp only [dec, hf', Bool.false_eq_true, if_false, Option.map_map]
            congr 1
            funext r
            simp
      · simp only [hlt, if_false]
        have : input.drop off = [] := List.drop_eq_nil_iff.2 (by omega)
        simp [this, dec]
    )

/-- `decode_from_tbcd` as translated from the code on this run IS the model's decoder, for every string -/
theorem gen_decode_eq (s : List Char) : decode s = dec s := by
  first
  | (rfl)        -- Gen/TbcdGen.lean fell back to the hand model (source outside the translator's shape): tie (b) alone
  | (
    unfold decode
    rw [decLoop_spec s _ 0 [] (by omega)]
    simp
    )
end BV.C18Gen

namespace BV.C18Gen
open BV.Tbcd BV.Gen.Tbcd

theorem digits_plain (s : List Char) (h : ∀ c ∈ s, c.isDigit = true) : plain s := by
  intro c hc hs
  have hd := h c hc
  have : c = '*' ∨ c = '#' ∨ c = 'a' ∨ c = 'b' ∨ c = 'c' := by
    first
    | (simpa [specialChars] using hs)
    | (simp [specialChars] at hs; exact hs)
  rcases this with h | h | h | h | h <;> subst h <;> exact absurd hd (by decide)

/-- C18 on the translated code: decoding the encoding of any digit string returns the string -/
theorem code_roundtrip_digits (tr : List Char → List Char) (s : List Char) (h : ∀ c ∈ s, c.isDigit = true) :
    decode (encode tr s) = some s := by
  rw [gen_encode_eq tr s (digits_plain s h), gen_decode_eq]
  exact BV.C18.decode_encode_digits s h

end BV.C18Gen
