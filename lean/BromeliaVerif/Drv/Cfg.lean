import BromeliaVerif.Drv.Util
import BromeliaVerif.Model.Config
/-! Driver operation for configurations (C19). Value tokens: `s:<hex utf8>` `i:<int>` `n` `o:<tag>`
`a:<tag>:<k1+k2/0|1,…>` (applications: per entry its keys and whether all values are bytes; `a:<tag>:` = []). -/
namespace BV.Drv
open BV BV.Config

def hexStr (h : String) : String := String.ofList ((parseHex h).map fun b => Char.ofNat b.toNat)

def parseCVal (t : String) : CVal :=
  match t.splitOn ":" with
  | ["s", h] => .str (hexStr h)
  | ["i", n] => .int (n.toInt?.getD 0)
  | ["n"] => .none
  | ["o", tag] => .other (nat! tag)
  | ["a", tag, es] =>
    let entries := if es == "" then [] else (es.splitOn ",").map fun e =>
      match e.splitOn "/" with
      | [ks, b] => ({ keys := if ks == "" then [] else ks.splitOn "+", allBytes := b == "1" } : AppEntry)
      | _ => { keys := [], allBytes := false }
    .apps entries (nat! tag)
  | _ => .other 999999

def cvalStr : CVal → String
  | .str s => "s:" ++ toHex s.toUTF8.toList
  | .int n => s!"i:{n}"
  | .none => "n"
  | .other t => s!"o:{t}"
  | .apps _ t => s!"a:{t}"

/-- keys are passed as the hex of their UTF-8 bytes (they may be empty or contain blanks) -/
partial def parseKVs : List String → List (String × CVal)
  | k :: v :: r => (hexStr k, parseCVal v) :: parseKVs r
  | _ => []

def opCfg : List String → Option String
  | "config" :: toks =>
    match convert (parseKVs toks) with
    | .ok c => some ("ok " ++ " ".intercalate ([c.mode, c.transport, c.applications, c.localHost, c.localRealm, c.localIp, c.localPort,
        c.peerHost, c.peerRealm, c.peerIp, c.peerPort, c.watchdog].map cvalStr))
    | .error .invalidKey => some "err:key"
    | .error .invalidValue => some "err:value"
    | .error .incomplete => some "err:incomplete"
  | "yaml" :: toks =>
    -- yaml (mode-hex transport-hex|-)* → per entry: MODE TRANSPORT
    let rec go : List String → List String
      | m :: t :: r =>
        let s : Spec := { mode := hexStr m, transport := if t == "-" then none else some (hexStr t), applications := 0, fields := [] }
        let c := specToCfg s
        (match get c "MODE", get c "TRANSPORT_TYPE" with
         | some a, some b => cvalStr a ++ "/" ++ cvalStr b
         | _, _ => "?") :: go r
      | _ => []
    some (" ".intercalate (go toks))
  | _ => none

end BV.Drv
