import BromeliaVerif.Drv.Util
import BromeliaVerif.Model.Tbcd
namespace BV.Drv
open BV BV.Tbcd

def optStr : Option (List Char) → String
  | none => "none"
  | some l => "s:" ++ String.ofList l

/-- `tbcd <digits>` (`-` = empty string): model encoding, model round trip, spec octets -/
def opC18 : List String → Option String
  | ["tbcd", s] =>
    let ds := if s == "-" then [] else s.toList
    let e := enc ds
    some s!"enc=s:{String.ofList e} rt={optStr (dec e)} spec={toHex (Spec.tbcdBytes ds)}"
  | ["tbcd_dec", s] =>
    let ds := if s == "-" then [] else s.toList
    some s!"dec={optStr (dec ds)}"
  | ["tbcd_avp", n] =>
    let n := nat! n
    some s!"model={toHex (avpData n)} spec={toHex (Spec.tbcdBytes (Nat.toDigits 10 n))}"
  | _ => none

end BV.Drv
