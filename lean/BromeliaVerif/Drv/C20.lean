import BromeliaVerif.Drv.Util
import BromeliaVerif.Gen.PyFuns
import BromeliaVerif.Model.Address
import BromeliaVerif.Model.Ipv4
import BromeliaVerif.Model.Time
namespace BV.Drv
open BV BV.Bits

/-- specification of the three bit operations, arithmetic on the word (independent of the byte model) -/
def specTest (w : Nat) (b : Int) : Option Bool :=
  if 0 ≤ b ∧ b < 32 then some (w.testBit b.toNat) else none
def specSet (w : Nat) (b : Int) : Option Nat :=
  match specTest w b with
  | some false => some (w + 2 ^ b.toNat)
  | _ => none
def specUnset (w : Nat) (b : Int) : Option Nat :=
  match specTest w b with
  | some true => some (w - 2 ^ b.toNat)
  | _ => none

def opC20 : List String → Option String
  | ["bit", op, w, b] =>
    let w := nat! w
    let bi : Int := b.toInt?.getD 0
    -- a negative index takes the `else: raise` branch of the code; the Nat models see an index ≥ 32
    let bn : Nat := if bi < 0 then 1000 else bi.toNat
    match op with
    | "test" => some s!"model={optB01 (isBitSet w bn)} gen={optB01 (Gen.isBitSet (byteOf w) bn)} spec={optB01 (specTest w bi)}"
    | "set" => some s!"model={optNat (setBit w bn)} spec={optNat (specSet w bi)}"
    | "unset" => some s!"model={optNat (unsetBit w bn)} spec={optNat (specUnset w bi)}"
    | _ => none
  | ["addr", fam, packed] =>
    let f := if fam == "4" then Address.Fam.v4 else Address.Fam.v6
    let p := parseHex packed
    let data := Address.mk f p
    let fo := match Address.famOf data with | some .v4 => "4" | some .v6 => "6" | none => "err"
    let txt := if fam == "4" then Ipv4.format (Address.packedOf data) else "-"
    some s!"data={toHex data} fam={fo} packed={toHex (Address.packedOf data)} text={txt}"
  | ["addr4", lit] =>   -- the literal is passed as the hex of its ASCII bytes
    match Ipv4.parse ((parseHex lit).map fun b => Char.ofNat b.toNat) with
    | some p => some s!"packed={toHex p}"
    | none => some "packed=none"
  | ["addrwire", h] =>
    let d := parseHex h
    let fo := match Address.famOf d with | some .v4 => "4" | some .v6 => "6" | none => "err"
    some s!"ok={b01 (Address.fromBytesOk d)} fam={fo}"
  | ["time", y, m, d, hh, mm, ss] =>
    let (y, m, d, hh, mm, ss) := (nat! y, nat! m, nat! d, nat! hh, nat! mm, nat! ss)
    let secs := Spec.Ntp.seconds y m d hh mm ss
    let model := match Time.timeData (Spec.Ntp.days y m d) (hh * 3600 + mm * 60 + ss) with
      | some b => toHex b | none => "range-error"
    let spec := if secs < 2 ^ 32 then toHex (be 4 secs) else "range-error"
    some s!"model={model} spec={spec} seconds={secs} valid={b01 (Spec.Ntp.validDate y m d)}"
  | _ => none

end BV.Drv
