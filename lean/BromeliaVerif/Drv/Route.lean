import BromeliaVerif.Drv.Util
import BromeliaVerif.Model.Route
/-! Driver operations for decorate_answer (C12) and callback_route (C13). -/
namespace BV.Drv
open BV BV.Decorate BV.Route

def optB (s : String) : Option Bytes := if s == "none" then none else some (parseHex s)
def optN (s : String) : Option Nat := if s == "-" || s == "none" then none else s.toNat?
def showN : Option Nat → String | some n => toString n | none => "-"
def showB : Option Bytes → String | some b => toHex b | none => "none"

def ansStr (o : Ans) : String :=
  s!"ok flags={o.flags} app={showN o.app} hbh={showN o.hbh} e2e={showN o.e2e} sid={showB o.session} rc={showN o.resultCode} exp={b01 o.hasExp} len={o.length}"

def opRoute : List String → Option String
  | ["decorate", fl, app, hbh, e2e, sid, rc, ex, rest, len, rapp, rhbh, re2e, rsid] =>
    let a : Ans := ⟨nat! fl, optN app, optN hbh, optN e2e, optB sid, optN rc, ex == "1", nat! rest, nat! len⟩
    let r : Req := ⟨optN rapp, optN rhbh, optN re2e, optB rsid⟩
    match decorate a r with
    | .ok o => some (ansStr o)
    | .error .header => some "err:lib"
  | "route" :: nreg :: rest =>
    -- route <nreg> (app cmd h)* <rapp> <rcmd> <outcome: A|N|W|E>  → which handler runs, what is sent
    let n := nat! nreg
    let regs := (List.range n).map fun i => (nat! (rest.getD (3 * i) "0"), nat! (rest.getD (3 * i + 1) "0"), nat! (rest.getD (3 * i + 2) "0"))
    let tail := rest.drop (3 * n)
    match tail with
    | [rapp, rcmd] =>
      let t := regs.foldl (fun t (a, c, h) => register t a c h) []
      some (match dispatch t (nat! rapp) (nat! rcmd) with | some h => s!"handler={h}" | none => "handler=none")
    | _ => some "bad-desc"
  | _ => none

end BV.Drv
