import BromeliaVerif.Drv.Util
import BromeliaVerif.Model.Inbound
/-! Driver operation for the inbound pipeline (C04). A message is abstracted to (number, length,
application?): byte 0 = version, bytes 1..3 = length, byte 4 = number, byte 5 = application flag. -/
namespace BV.Drv
open BV BV.Inbound

def mkMsg (id len : Nat) (app : Bool) : Bytes :=
  [1] ++ be 3 len ++ [UInt8.ofNat id, if app then 1 else 0] ++ List.replicate (len - 6) 0

def msgId (m : Bytes) : String := toString ((m[4]?.getD 0).toNat)
def isAppMsg (m : Bytes) : Bool := m[5]? == some 1
def idsOf (l : List Bytes) : String := if l.isEmpty then "-" else ",".intercalate (l.map msgId)

/-- `inb <n> (<id>.<len>.<a|b>)* <act>*`: `c<n>` chunk, `w` worker, `t` tick, `g` get -/
def opInb : List String → Option String
  | "inb" :: n :: rest =>
    let k := nat! n
    let ms := (rest.take k).map fun d =>
      match d.splitOn "." with
      | [i, l, a] => mkMsg (nat! i) (nat! l) (a == "a")
      | _ => []
    let acts := (rest.drop k).filterMap fun a =>
      if a == "w" then some Act.worker else if a == "t" then some Act.tick else if a == "g" then some Act.get
      else if a.startsWith "c" then some (Act.chunk (nat! (a.drop 1).toString)) else none
    let s := run isAppMsg ms.flatten acts
    some s!"delivered={idsOf s.delivered} consumed={idsOf s.consumed} ticked={idsOf s.ticked} queue={idsOf s.queue} deliverq={idsOf s.deliverQ} carry={s.carry.length} recv={s.recvStream.length} wire={s.wire.length}"
  | _ => none

end BV.Drv
