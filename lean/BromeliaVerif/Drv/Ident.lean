import BromeliaVerif.Drv.Util
import BromeliaVerif.Model.Ident
/-! Driver operation for request identifier assignment (C15). -/
namespace BV.Drv
open BV BV.Ident

def pcName : Pc → String
  | .readH => "readH" | .commitH r => s!"commitH:{r}" | .readE h => s!"readE:{h}" | .commitE h r => s!"commitE:{h}:{r}"
  | .done h e => s!"done:{h}:{e}"

def isDone : Pc → Bool | .done _ _ => true | _ => false

/-- run thread `t` to completion (bounded by the remaining source) -/
def runToDone (s : Sys) (t : Nat) : Nat → Sys
  | 0 => s
  | fuel + 1 => match s.thr[t]? with
    | some pc => if isDone pc then s else runToDone (stepThread s t) t fuel
    | none => s

def csv (l : List Nat) : String := if l.isEmpty then "-" else ",".intercalate (l.map toString)

/-- `ident <src csv|-> <act>*` with acts `n` (spawn), `x` (explicit header), `s<t>` (one step of thread t),
    `c` (spawn a thread and run it to completion) -/
def opIdent : List String → Option String
  | "ident" :: src :: acts =>
    let srcL := if src == "-" then [] else (src.splitOn ",").map nat!
    let s0 : Sys := { hbh := [], e2e := [], src := srcL, thr := [] }
    let s := acts.foldl (fun s a =>
      if a == "n" then act s .spawn
      else if a == "x" then act s .explicitHeader
      else if a == "c" then
        let s1 := act s .spawn
        runToDone s1 (s1.thr.length - 1) (2 * s1.src.length + 4)
      else if a.startsWith "s" then act s (.step (nat! (a.drop 1).toString))
      else s) s0
    some s!"hbh={csv s.hbh} e2e={csv s.e2e} thr={" ".intercalate (s.thr.map pcName)} left={s.src.length}"
  | _ => none

end BV.Drv
