import BromeliaVerif.Drv.Util
import BromeliaVerif.Gen.PyFuns
namespace BV.Drv
open BV BV.ResultCode

def genFam (k n : Nat) : Bool :=
  match k with
  | 1 => Gen.fam1 n | 2 => Gen.fam2 n | 3 => Gen.fam3 n | 4 => Gen.fam4 n | 5 => Gen.fam5 n
  | _ => false

/-- `fam k n` → model (hand), gen (translated), spec (numeric family) -/
def opC17 : List String → Option String
  | ["fam", k, n] =>
    let k := nat! k; let n := nat! n
    some s!"model={b01 (fam k n)} gen={b01 (genFam k n)} spec={b01 (decide (Spec.inFamily k n))}"
  | ["objpred", k, rc] =>
    let k := nat! k
    let rc : Option Bytes := if rc == "none" then none else some (parseHex rc)
    let spec := rc.map fun d => decide (Spec.inFamily k (fromBE d))
    some s!"model={optB01 (objPred k rc)} spec={optB01 spec}"
  | _ => none

end BV.Drv
