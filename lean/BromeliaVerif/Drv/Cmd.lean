import BromeliaVerif.Drv.Codec
import BromeliaVerif.Gen.Commands
import BromeliaVerif.Model.Command
/-! Driver operation for typed command classes (C09, C01 typed part). -/
namespace BV.Drv
open BV BV.Dict BV.Spec BV.Command

inductive ArgDesc
  | none
  | py (v : PyVal)
  | list (ds : List Desc)
  | obj (d : Desc)

partial def parseArgs : Nat → List String → Option (List (String × ArgDesc) × List String)
  | 0, r => some ([], r)
  | n + 1, key :: "N" :: r =>
    (parseArgs n r).map fun (as, r') => ((key, .none) :: as, r')
  | n + 1, key :: "P" :: r =>
    match parseVal r with
    | some (v, r') => (parseArgs n r').map fun (as, r'') => ((key, .py v) :: as, r'')
    | none => none
  | n + 1, key :: "L" :: k :: r =>
    match parseDescs (nat! k) r with
    | some (ds, r') => (parseArgs n r').map fun (as, r'') => ((key, .list ds) :: as, r'')
    | none => none
  | n + 1, key :: "A" :: r =>
    match parseDesc r with
    | some (d, r') => (parseArgs n r').map fun (as, r'') => ((key, .obj d) :: as, r'')
    | none => none
  | _, _ => none

def toArg : String × ArgDesc → Except String Arg
  | (k, .none) => .ok ⟨k, none⟩
  | (k, .py v) => .ok ⟨k, some (.py v)⟩
  | (k, .list ds) => (ds.mapM build).map fun as => ⟨k, some (.avpList as)⟩
  | (k, .obj d) => (build d).map fun a => ⟨k, some (.avpObj a)⟩

def entryByKey (nk : Nat) : Option Entry := Gen.dictionary.find? (·.nameKey == nk)

/-- specification content of one argument: the RFC encoding of the value under the class the key maps to -/
def argContent (row : Row) : String × ArgDesc → Option (Option Content)
  | (_, .none) => some none
  | (k, .py v) =>
    match (row.mandatory.lookup k).orElse (fun _ => row.optionals.lookup k) with
    | some nk => match entryByKey nk with
      | some e => (dataOf e.kind e.values v).map fun d => some (.leaf e.code e.flags e.vendor d)
      | none => none
    | none => none
  | (k, .list ds) =>
    match (row.mandatory.lookup k).orElse (fun _ => row.optionals.lookup k) with
    | some nk => match entryByKey nk, ds.mapM content with
      | some e, some cs =>
        let codes := cs.map fun c => match c with | .leaf c _ _ _ => c | .grouped c _ _ _ => c
        if e.kind == Kind.grouped && e.mandatory.all (fun m => codes.contains m.2) then some (some (.grouped e.code e.flags e.vendor cs)) else none
      | _, _ => none
    | none => none
  | (k, .obj d) =>
    if (row.mandatory.lookup k).isSome || (row.optionals.lookup k).isSome then none
    else (content d).map some

def loadErrStr : LoadErr → String
  | .missingMandatory _ => "err:lib"
  | .notAnAvp _ => "err:lib"
  | .avp (.lib _) => "err:lib"
  | .avp (.std _) => "err:std"
  | .unmodelled => "unmodelled"

def opCmd : List String → Option String
  | "cmd" :: name :: app :: hbh :: e2e :: n :: toks =>
    match Gen.commands.find? (·.name == name), parseArgs (nat! n) toks with
    | some row, some (ads, []) =>
      let appV := optNat? app
      let model : String :=
        match ads.mapM toArg with
        | .error e => if e.startsWith "lib" then "err:lib len=0 n=0" else if e.startsWith "std" then "err:std len=0 n=0" else "unmodelled"
        | .ok args =>
          match buildMsg Gen.dictionary row appV (nat! hbh) (nat! e2e) args with
          | .ok m => s!"{toHex m.dump} len={m.hdr.length} n={m.avps.length}"
          | .error e => s!"{loadErrStr e} len=0 n=0"
      let spec : String :=
        match appV, ads.mapM (argContent row) with
        | some a, some cs =>
          let hf : HeaderFields := ⟨1, flagsOf row.isRequest (some a), row.cmd, a, nat! hbh, nat! e2e⟩
          toHex (encMsg hf (cs.filterMap id))
        | _, _ => "none"
      some s!"model={model} spec={spec}"
    | _, _ => some "bad-desc"
  | _ => none

end BV.Drv
