import BromeliaVerif.Drv.Util
import BromeliaVerif.Model.Outbound
/-! Driver operation for the outbound pipeline (C05). Message bytes are abstracted to
`len` copies of the message number (the model only concatenates and cuts). -/
namespace BV.Drv
open BV BV.Outbound

/-- run-length summary of a byte string: `v*n,v*n,…` -/
def rle (b : Bytes) : String :=
  let rec go : Bytes → Option (Nat × Nat) → List String → List String
    | [], none, acc => acc.reverse
    | [], some (v, n), acc => (s!"{v}*{n}" :: acc).reverse
    | x :: xs, none, acc => go xs (some (x.toNat, 1)) acc
    | x :: xs, some (v, n), acc => if x.toNat == v then go xs (some (v, n + 1)) acc else go xs (some (x.toNat, 1)) (s!"{v}*{n}" :: acc)
  let parts := go b none []
  if parts.isEmpty then "-" else ",".intercalate parts

/-- `outb <act>*`: `s<thr>.<id>.<len>` submit, `f<limit>` flush, `t` transfer, `w<n>` write, `r` read event, `x` disconnect -/
def opOutb : List String → Option String
  | "outb" :: acts =>
    let (s, batches) := acts.foldl (fun (sb : St × List String) a =>
      let (s, bs) := sb
      if a.startsWith "s" then
        match (a.drop 1).toString.splitOn "." with
        | [t, i, l] => (step s (.submit ⟨nat! t, List.replicate (nat! l) (UInt8.ofNat (nat! i))⟩), bs)
        | _ => (s, bs)
      else if a.startsWith "f" then
        let limit := nat! (a.drop 1).toString
        let b := (takeBatch limit 0 s.sendq).1
        (step s (.flush limit), bs ++ [rle (flat b)])
      else if a == "t" then (step s .transfer, bs)
      else if a.startsWith "w" then (step s (.write (nat! (a.drop 1).toString)), bs)
      else if a == "r" then (step s .readEvent, bs)
      else if a == "x" then (step s .disconnect, bs)
      else (s, bs)) (init, [])
    some s!"written={rle s.written} sendbuf={s.sendbuf.length} pending={s.pending.length} queued={rle (flat s.sendq)} batches={";".intercalate batches}"
  | _ => none

end BV.Drv
