import BromeliaVerif.Drv.Util
import BromeliaVerif.Model.Psm
/-! Driver operation for the peer state machine (C06, C07) and the validity predicates. -/
namespace BV.Drv
open BV BV.Psm BV.Process

def bit (s : String) (i : Nat) : Bool := (s.toList.getD i '0') == '1'

/-- one abstract AVP: `H<f><l><hex>` `R<f><l><hex>` `I` `V` `P` `S` `C<f><l>` `D<r>` `O` -/
def parsePAvp (s : String) : PAvp :=
  match s.toList with
  | 'H' :: f :: l :: d => .originHost (f == '1') (l == '1') (parseHex (String.ofList d))
  | 'R' :: f :: l :: d => .originRealm (f == '1') (l == '1') (parseHex (String.ofList d))
  | ['I'] => .hostIp
  | ['V'] => .vendorId
  | ['P'] => .productName
  | ['S'] => .originStateId
  | ['C', f, l] => .resultCode (f == '1') (l == '1')
  | ['D', r] => .disconnectCause (r == '1')
  | _ => .other

def parseAvps (s : String) : List PAvp := if s == "-" then [] else (s.splitOn ",").map parsePAvp

def parseKind : String → Option Kind
  | "cer" => some .cer | "cea" => some .cea | "dwr" => some .dwr | "dwa" => some .dwa
  | "dpr" => some .dpr | "dpa" => some .dpa | "req" => some .appReq | "ans" => some .appAns
  | _ => none

def validOf (p : Peer) (k : Kind) (flags : Nat) (as : List PAvp) : Bool :=
  match k with
  | .cer => validCER p flags as
  | .cea => validCEA p flags as
  | .dwr => validDWR p flags as
  | .dwa => validDWA p flags as
  | .dpr => validDPR p flags as
  | .dpa => validDPA p flags as
  | _ => true

/-- `i:<kind>:<flags>:<addr 4 bits>:<hbh>:<e2e>:<avps>` -/
def parseEv (p : Peer) (s : String) : Option Ev :=
  match s.splitOn ":" with
  | ["t"] => some .tick
  | ["a"] => some .connAck
  | ["n"] => some .connNack
  | ["s"] => some .localStop
  | ["d"] => some .peerDisc
  | ["w"] => some .idle
  | ["r"] => some .restart
  | ["u", id] => some (.submit (nat! id))
  | ["i", k, fl, ad, hbh, e2e, avps] =>
    (parseKind k).map fun kind =>
      .inject { kind, valid := validOf p kind (nat! fl) (parseAvps avps),
                okAddr := okAddr ⟨bit ad 0, bit ad 1, bit ad 2, bit ad 3⟩,
                hbh := nat! hbh, e2e := nat! e2e, id := nat! hbh }
  | _ => none

def stName : St → String
  | .closed => "closed" | .waitConnAck => "wait-conn-ack" | .waitICEA => "wait-i-cea" | .opened => "open"
  | .waitReturns => "wait-returns" | .waitConnAckElect => "wait-conn-ack-elect" | .closing => "closing"

def outName : Out → String
  | .cer => "cer" | .dwr => "dwr" | .dpr => "dpr"
  | .cea h e => s!"cea:{h}:{e}" | .dwa h e => s!"dwa:{h}:{e}" | .dpa h e => s!"dpa:{h}:{e}"
  | .app id => s!"app:{id}"

def joinOr (l : List String) : String := if l.isEmpty then "-" else ",".intercalate l

/-- the observation after one event: state, loop running, transport releases so far, what was
    written and delivered by this event, queue lengths -/
def obs (pre post : Node) : String :=
  let em := post.emitted.drop pre.emitted.length
  let dl := post.delivered.drop pre.delivered.length
  s!"{stName post.st}/{b01 post.running}/{post.released}/{joinOr (em.map outName)}/{joinOr (dl.map toString)}/{post.recvq.length}/{post.sendq.length}"

def opPsm : List String → Option String
  | "psm" :: role :: host :: realm :: evs =>
    let p : Peer := ⟨parseHex host, parseHex realm⟩
    let r : Role := if role == "c" then .client else .server
    let rec go (n : Node) : List String → List String → List String
      | [], acc => acc.reverse
      | e :: es, acc =>
        match parseEv p e with
        | none => ("bad-ev" :: acc).reverse
        | some ev => let n' := apply n ev; go n' es (obs n n' :: acc)
    some ("|".intercalate (go (init r) evs []))
  | ["valid", k, host, realm, fl, avps] =>
    match parseKind k with
    | some kind => some (b01 (validOf ⟨parseHex host, parseHex realm⟩ kind (nat! fl) (parseAvps avps)))
    | none => some "bad-desc"
  | _ => none

end BV.Drv
