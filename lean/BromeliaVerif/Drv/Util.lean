import BromeliaVerif.Model.Bytes
/-! helpers of the line-protocol driver (not part of any model) -/
namespace BV.Drv

def hexVal (c : Char) : Nat :=
  if '0' ≤ c ∧ c ≤ '9' then c.toNat - '0'.toNat
  else if 'a' ≤ c ∧ c ≤ 'f' then c.toNat - 'a'.toNat + 10
  else if 'A' ≤ c ∧ c ≤ 'F' then c.toNat - 'A'.toNat + 10 else 0

/-- `-` denotes the empty byte string -/
def parseHex (s : String) : Bytes :=
  let rec go : List Char → Bytes
    | a :: b :: rest => UInt8.ofNat (hexVal a * 16 + hexVal b) :: go rest
    | _ => []
  if s == "-" then [] else go s.toList

def hexDigit (n : Nat) : Char := if n < 10 then Char.ofNat (48 + n) else Char.ofNat (87 + n)

def toHex (b : Bytes) : String :=
  if b.isEmpty then "-" else String.ofList (b.flatMap fun x => [hexDigit (x.toNat / 16), hexDigit (x.toNat % 16)])

def b01 (b : Bool) : String := if b then "1" else "0"

def optB01 : Option Bool → String
  | none => "none"
  | some b => b01 b

def optNat : Option Nat → String
  | none => "none"
  | some n => toString n

def nat! (s : String) : Nat := s.toNat?.getD 0

end BV.Drv
