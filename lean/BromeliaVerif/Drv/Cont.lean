import BromeliaVerif.Drv.Util
import BromeliaVerif.Model.Container
/-! Driver operation for the message container (C11): `cont <op tokens…>` prints the state after each op. -/
namespace BV.Drv
open BV.Container

def parseObjs : Nat → List String → Option (List Obj × List String)
  | 0, r => some ([], r)
  | n + 1, i :: b :: sz :: r => (parseObjs n r).map fun (os, r') => (⟨nat! i, b, nat! sz⟩ :: os, r')
  | _, _ => none

partial def parseOps : List String → Option (List Op)
  | [] => some []
  | "A" :: i :: b :: sz :: r => (parseOps r).map (Op.append ⟨nat! i, b, nat! sz⟩ :: ·)
  | "E" :: n :: r => match parseObjs (nat! n) r with
    | some (os, r') => (parseOps r').map (Op.extend os :: ·)
    | none => none
  | "P" :: b :: sfx :: r => (parseOps r).map (Op.pop (b, nat! sfx) :: ·)
  | "C" :: r => (parseOps r).map (Op.cleanup :: ·)
  | "S" :: n :: r => match parseObjs (nat! n) r with
    | some (os, r') => (parseOps r').map (Op.setAvps os :: ·)
    | none => none
  | "I" :: idx :: i :: b :: sz :: r => (parseOps r).map (Op.setItem (nat! idx) ⟨nat! i, b, nat! sz⟩ :: ·)
  | "K" :: b1 :: s1 :: b2 :: s2 :: r => (parseOps r).map (Op.updateKey (b1, nat! s1) (b2, nat! s2) :: ·)
  | "U" :: b :: sfx :: i :: b2 :: sz :: r => (parseOps r).map (Op.updateAvp (b, nat! sfx) ⟨nat! i, b2, nat! sz⟩ :: ·)
  | "R" :: r => (parseOps r).map (Op.refresh :: ·)
  | "Z" :: i :: sz :: r => (parseOps r).map (Op.resize (nat! i) (nat! sz) :: ·)
  | _ => none

def contStr (c : Cont) : String :=
  let a := ",".intercalate (c.avps.map fun o => toString o.id)
  let n := ",".intercalate (c.names.map fun (k, i) => s!"{k.1}:{k.2}={i}")
  s!"avps=[{a}] names=[{n}] len={c.length}"

def opCont : List String → Option String
  | "cont" :: toks =>
    match parseOps toks with
    | none => some "bad-desc"
    | some ops =>
      let (_, outs) := ops.foldl (fun (acc : Cont × List String) op =>
        let c' := apply acc.1 op
        (c', acc.2 ++ [contStr c'])) (empty, [])
      some (" | ".intercalate outs)
  | _ => none

end BV.Drv
