import BromeliaVerif.Drv.Util
import BromeliaVerif.Model.Worker
import BromeliaVerif.Gen.Dictionary
import BromeliaVerif.Model.Parse
import BromeliaVerif.Spec.Rfc6733
/-! Driver operations of the codec (C01, C02, C03, C10): content descriptors, model construction,
specification encoding, decoding. -/
namespace BV.Drv
open BV BV.Dict BV.Spec BV.Parse

/-- logical content as the harness describes it -/
inductive Desc
  | generic (code flags : Nat) (vendor : Option Nat) (data : Bytes)
  | leaf (name : String) (flags : Option Nat) (val : PyVal)
  | group (name : String) (flags : Option Nat) (kids : List Desc)
deriving Inhabited

def optNat? (s : String) : Option Nat := if s == "-" then none else s.toNat?

/-- value tokens: `I n` `BOOL 0|1` `B hex` `S cp,cp,…|-` `N` `F` `T y m d hh mm ss` `IP 4|6 hex` `BADIP` `O` -/
def parseVal : List String → Option (PyVal × List String)
  | "I" :: n :: r => some (.int (n.toInt?.getD 0), r)
  | "BOOL" :: b :: r => some (.bool (b == "1"), r)
  | "B" :: h :: r => some (.bytes (parseHex h), r)
  | "S" :: s :: r => some (.str (if s == "-" then [] else (s.splitOn ",").map nat!), r)
  | "N" :: r => some (.none, r)
  | "F" :: r => some (.float, r)
  | "T" :: y :: m :: d :: hh :: mm :: ss :: r => some (.datetime (nat! y) (nat! m) (nat! d) (nat! hh) (nat! mm) (nat! ss), r)
  | "IP" :: f :: h :: r => some (.ip (nat! f) (parseHex h), r)
  | "BADIP" :: r => some (.badip, r)
  | "O" :: r => some (.other, r)
  | _ => none

mutual
  partial def parseDesc : List String → Option (Desc × List String)
    | "X" :: c :: f :: v :: d :: r => some (.generic (nat! c) (nat! f) (optNat? v) (parseHex d), r)
    | "D" :: name :: f :: r =>
      match parseVal r with
      | some (v, r') => some (.leaf name (optNat? f) v, r')
      | none => none
    | "G" :: name :: f :: n :: r =>
      match parseDescs (nat! n) r with
      | some (ks, r') => some (.group name (optNat? f) ks, r')
      | none => none
    | _ => none
  partial def parseDescs : Nat → List String → Option (List Desc × List String)
    | 0, r => some ([], r)
    | n + 1, r =>
      match parseDesc r with
      | some (d, r') =>
        match parseDescs n r' with
        | some (ds, r'') => some (d :: ds, r'')
        | none => none
      | none => none
end

def entryOf (name : String) : Option Entry := Gen.dictionary.find? (·.name == name)

def errStr : PyErr → String
  | .lib n => "lib:" ++ n
  | .std _ => "std"

/-- the AVP object the library builds for a descriptor (model path), or the error class -/
partial def build : Desc → Except String Avp
  | .generic c f v d => .ok ⟨c, f, v, d⟩
  | .leaf name fl val =>
    match entryOf name with
    | none => .error "unknown-class"
    | some e =>
      match construct e.kind e.values val with
      | .ok d => let a := instantiate e d; .ok { a with flags := fl.getD a.flags }
      | .err er => .error (errStr er)
      | .unmodelled => .error "unmodelled"
  | .group name fl kids =>
    match entryOf name with
    | none => .error "unknown-class"
    | some e =>
      match kids.mapM build with
      | .error er => .error er
      | .ok ks =>
        match constructGrouped e.mandatory ks with
        | .ok d => let a := instantiate e d; .ok { a with flags := fl.getD a.flags }
        | .err er => .error (errStr er)
        | .unmodelled => .error "unmodelled"

/-- the logical content tree of a descriptor (specification path); `none` = outside the domain -/
partial def content : Desc → Option Content
  | .generic c f v d => some (.leaf c f v d)
  | .leaf name fl val =>
    match entryOf name with
    | none => none
    | some e => (dataOf e.kind e.values val).map fun d => .leaf e.code (fl.getD e.flags) e.vendor d
  | .group name fl kids =>
    match entryOf name with
    | none => none
    | some e =>
      match kids.mapM content with
      | none => none
      | some ks =>
        let codes := ks.map fun k => match k with | .leaf c _ _ _ => c | .grouped c _ _ _ => c
        if e.mandatory.all (fun m => codes.contains m.2) then some (.grouped e.code (fl.getD e.flags) e.vendor ks) else none

def resStr : Except String Bytes → String
  | .ok b => toHex b
  | .error e => "err:" ++ e

partial def lavpStr : LAvp → String
  | .mk a cls kids =>
    let v := match a.vendor with | some v => toString v | none => "-"
    s!"A {a.code} {a.flags} {v} {toHex a.data} {cls.getD "-"} {kids.length}" ++
      String.join (kids.map fun k => " " ++ lavpStr k)

def perr : Parse.Err → String
  | .parsing => "err:parsing"
  | .lib n => "err:lib:" ++ n
  | .std n => "err:std:" ++ n
  | .unmodelled => "unmodelled"

def hdrStr (h : Header) : String :=
  let o := fun (x : Option Nat) => match x with | some v => toString v | none => "-"
  s!"H {h.version} {h.length} {h.flags} {o h.cmd} {o h.app} {o h.hbh} {o h.e2e}"

def opCodec : List String → Option String
  | "enc" :: toks =>
    match parseDesc toks with
    | some (d, []) =>
      let model := (build d).map Avp.dump
      let spec := match content d with | some c => toHex (enc c) | none => "none"
      some s!"model={resStr model} spec={spec}"
    | _ => some "bad-desc"
  | "msg" :: ver :: fl :: cmd :: app :: hbh :: e2e :: n :: toks =>
    match parseDescs (nat! n) toks with
    | some (ds, []) =>
      let hf : HeaderFields := ⟨nat! ver, nat! fl, nat! cmd, nat! app, nat! hbh, nat! e2e⟩
      let h : Header := { version := hf.version, length := 20, flags := hf.flags, cmd := some hf.cmd,
                          app := some hf.app, hbh := some hf.hbh, e2e := some hf.e2e }
      let model : Except String Msg := (ds.mapM build).map fun as => as.foldl Msg.append (Msg.new h)
      let spec := match ds.mapM content with | some cs => toHex (encMsg hf cs) | none => "none"
      let ms := match model with | .ok m => s!"{toHex m.dump} len={m.hdr.length}" | .error e => s!"err:{e} len=0"
      some s!"model={ms} spec={spec}"
    | _ => some "bad-desc"
  | "construct" :: name :: toks =>
    match entryOf name, parseVal toks with
    | some e, some (v, []) =>
      let model := match construct e.kind e.values v with
        | .ok d => "ok:" ++ toHex d
        | .err (.lib _) => "err:lib"
        | .err (.std _) => "err:std"
        | .unmodelled => "unmodelled"
      let spec := match v with
        | .bool b => if e.kind == Kind.unsigned32 || e.kind == Kind.unsigned64
                     then (match dataOf e.kind e.values (.int (if b then 1 else 0)) with | some d => toHex d | none => "none")
                     else "none"
        | x => match dataOf e.kind e.values x with | some d => toHex d | none => "none"
      some s!"model={model} spec={spec}"
    | _, _ => some "bad-desc"
  | ["load", h] =>
    match loadAvps Gen.dictionary (parseHex h) with
    | .ok as => some ("ok " ++ " ".intercalate (as.map lavpStr))
    | .error e => some (perr e)
  | ["loadmsg", h] =>
    match loadMsgs Gen.dictionary (parseHex h) with
    | .ok ms => some ("ok " ++ " | ".intercalate (ms.map fun m =>
        hdrStr m.hdr ++ " " ++ toString m.avps.length ++ String.join (m.avps.map fun a => " " ++ lavpStr a) ++ " R " ++ toHex m.dump))
    | .error e => some (perr e)
  | ["wstep", c, h] =>
    -- one worker iteration: carried bytes, new bytes → alive, lock, carried afterwards, what was enqueued
    let o := Worker.step Gen.dictionary (parseHex c) (parseHex h)
    let enq := if o.enqueued.isEmpty then "none" else "ok " ++ " | ".intercalate (o.enqueued.map fun m =>
        hdrStr m.hdr ++ " " ++ toString m.avps.length ++ String.join (m.avps.map fun a => " " ++ lavpStr a) ++ " R " ++ toHex m.dump)
    some s!"{b01 o.alive} {b01 o.lockHeld} {toHex o.carry} {enq}"
  | _ => none

end BV.Drv

namespace BV.Drv
open BV BV.Dict BV.Spec BV.Parse

def knownEntry (v : Option Nat) (c : Nat) : Option Entry :=
  dispatch Gen.dictionary { code := c, flags := 0, vendor := v, data := [] }

/-- what a decoder that preserves every field must return for a content tree (specification side of
    C02): code, flags, Vendor-ID and data as on the wire, the dictionary class of a known
    (vendor, code) pair, members of known Grouped AVPs -/
partial def observe : Content → String
  | .leaf c f v d =>
    let vs := match v with | some v => toString v | none => "-"
    let cls := match knownEntry v c with | some e => e.name | none => "-"
    s!"A {c} {f} {vs} {toHex d} {cls} 0"
  | .grouped c f v ks =>
    let vs := match v with | some v => toString v | none => "-"
    let d := encList ks
    match knownEntry v c with
    | some e =>
      if e.kind == .grouped then
        s!"A {c} {f} {vs} {toHex d} {e.name} {ks.length}" ++ String.join (ks.map fun k => " " ++ observe k)
      else s!"A {c} {f} {vs} {toHex d} {e.name} 0"
    | none => s!"A {c} {f} {vs} {toHex d} - 0"

/-- guard of the known finding C02-reflag: some known AVP (any depth) carries a flag byte other than
    its dictionary default -/
partial def reflagged : Content → Bool
  | .leaf c f v _ => match knownEntry v c with | some e => e.flags != f | none => false
  | .grouped c f v ks =>
    (match knownEntry v c with | some e => e.flags != f | none => false) || ks.any reflagged

partial def parseMsgDescs : Nat → List String → Option (List (HeaderFields × List Desc) × List String)
  | 0, r => some ([], r)
  | k + 1, ver :: fl :: cmd :: app :: hbh :: e2e :: n :: r =>
    match parseDescs (nat! n) r with
    | some (ds, r') =>
      match parseMsgDescs k r' with
      | some (ms, r'') => some ((⟨nat! ver, nat! fl, nat! cmd, nat! app, nat! hbh, nat! e2e⟩, ds) :: ms, r'')
      | none => none
    | none => none
  | _, _ => none

def loadMsgsStr (wire : Bytes) : String :=
  match loadMsgs Gen.dictionary wire with
  | .ok ms => "ok " ++ " | ".intercalate (ms.map fun m =>
      hdrStr m.hdr ++ " " ++ toString m.avps.length ++ String.join (m.avps.map fun a => " " ++ lavpStr a) ++ " R " ++ toHex m.dump)
  | .error e => perr e

def opC02 : List String → Option String
  | "c02" :: k :: toks =>
    match parseMsgDescs (nat! k) toks with
    | some (ms, []) =>
      match ms.mapM (fun (hf, ds) => (ds.mapM content).map fun cs => (hf, cs)) with
      | none => some "out-of-domain"
      | some mcs =>
        let wires := mcs.map fun (hf, cs) => encMsg hf cs
        let wire := wires.flatten
        let spec := "ok " ++ " | ".intercalate (mcs.map fun (hf, cs) =>
          let w := encMsg hf cs
          s!"H {hf.version} {w.length} {hf.flags} {hf.cmd} {hf.app} {hf.hbh} {hf.e2e} {cs.length}" ++
            String.join (cs.map fun c => " " ++ observe c) ++ " R " ++ toHex w)
        let rf := mcs.any fun (_, cs) => cs.any reflagged
        some s!"wire={toHex wire} reflag={b01 rf} ;; {loadMsgsStr wire} ;; {spec}"
    | _ => some "bad-desc"
  | _ => none

end BV.Drv
