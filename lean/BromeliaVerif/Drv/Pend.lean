import BromeliaVerif.Drv.Util
import BromeliaVerif.Model.Pending
/-! Driver operation for the request/answer rendezvous (C14). -/
namespace BV.Drv
open BV BV.Pending

def cpcName : CPc → String
  | .start => "start" | .registered => "registered" | .waiting => "waiting" | .woke => "woke" | .cleared => "cleared"
  | .stopSet => "stopSet" | .done => "done"
def dpcName : DPc → String
  | .check => "check" | .found => "found" | .fetched => "fetched" | .updated => "updated" | .notified => "notified" | .released => "released"
  | .done => "done" | .dropped => "dropped" | .crashed => "crashed"
def slotName : Option Slot → String
  | none => "-" | some .request => "request" | some (.answer k) => s!"answer{k}"

/-- `pend <act>*`: `n` new request, `c<i>` caller step, `a<i>` answer arrives, `d<i>.<j>` dispatch step, `x` stray -/
def opPend : List String → Option String
  | "pend" :: acts =>
    let s := acts.foldl (fun (s : Sys) a =>
      if a == "n" then act s .newRequest
      else if a == "x" then act s .stray
      else if a.startsWith "c" then act s (.caller (nat! (a.drop 1).toString))
      else if a.startsWith "a" then act s (.arrive (nat! (a.drop 1).toString))
      else if a.startsWith "d" then
        match ((a.drop 1).toString.splitOn ".") with
        | [i, j] => act s (.disp (nat! i) (nat! j))
        | _ => s
      else s) ([] : Sys)
    some (" | ".intercalate (s.map fun r =>
      s!"{cpcName r.cpc} res={slotName r.result} reg={b01 r.reg} disp={",".intercalate (r.disp.map dpcName)}"))
  | _ => none

end BV.Drv
