import BromeliaVerif.Model.Parse
import BromeliaVerif.Spec.Rfc6733
/-! Specification side of C02: which content trees are well-formed wire content for a dictionary
(`good`), and what a decoder must return for them (`obs`): one object per AVP, in order, code /
Vendor-ID / data as on the wire, known (vendor, code) pairs as their dictionary class, unknown ones
generic. `obs` describes the *implemented* decoder, which normalises the flag byte of known AVPs to
the class default (known finding C02-known-avp-reflagged); `Faithful` is the guard under which that
is the identity. -/
namespace BV.Spec
open BV BV.Dict BV.Parse

def fieldsOk (c f : Nat) (v : Option Nat) (n : Nat) : Bool :=
  decide (c < 2 ^ 32) && decide (f < 256) && (vbit f == v.isSome) && decide (v.getD 0 < 2 ^ 32) &&
  decide ((match v with | some _ => 12 | none => 8) + n < 2 ^ 24)

def key (c : Nat) (v : Option Nat) : Avp := { code := c, flags := 0, vendor := v, data := [] }

def rootCode : Content → Nat
  | .leaf c _ _ _ => c
  | .grouped c _ _ _ => c

def leafOk (e : Entry) (d : Bytes) : Bool :=
  match acceptLeaf e.kind e.values d with
  | .ok _ => true
  | .error _ => false

mutual
  /-- well-formed wire content w.r.t. a dictionary: field widths, V flag ⇔ Vendor-ID, 24-bit length;
      data of a known AVP in the domain of its type; a known Grouped AVP has good members including
      the mandatory ones -/
  def good (dict : List Entry) : Content → Bool
    | .leaf c f v d =>
      fieldsOk c f v d.length &&
      (match dispatch dict (key c v) with
       | none => true
       | some e => e.kind != .grouped && leafOk e d)
    | .grouped c f v ks =>
      fieldsOk c f v (encList ks).length && goodList dict ks &&
      (match dispatch dict (key c v) with
       | none => true
       | some e =>
         if e.kind = .grouped then e.mandatory.all (fun m => ks.any (fun k => rootCode k == m.2))
         else leafOk e (encList ks))
  def goodList (dict : List Entry) : List Content → Bool
    | [] => true
    | k :: ks => good dict k && goodList dict ks
end

mutual
  /-- the decoded object for a content tree -/
  def obs (dict : List Entry) : Content → LAvp
    | .leaf c f v d =>
      match dispatch dict (key c v) with
      | none => .mk ⟨c, f, v, d⟩ none []
      | some e => .mk ⟨e.code, e.flags, e.vendor, d⟩ (some e.name) []
    | .grouped c f v ks =>
      match dispatch dict (key c v) with
      | none => .mk ⟨c, f, v, encList ks⟩ none []
      | some e =>
        if e.kind = .grouped then
          .mk ⟨e.code, e.flags, e.vendor, (obsList dict ks).flatMap (fun k => k.avp.dump)⟩ (some e.name) (obsList dict ks)
        else .mk ⟨e.code, e.flags, e.vendor, encList ks⟩ (some e.name) []
  def obsList (dict : List Entry) : List Content → List LAvp
    | [] => []
    | k :: ks => obs dict k :: obsList dict ks
end

mutual
  /-- the content after the decoder's flag normalisation: flags of known AVPs replaced by the class
      default, recursively inside known Grouped AVPs -/
  def norm (dict : List Entry) : Content → Content
    | .leaf c f v d =>
      match dispatch dict (key c v) with
      | none => .leaf c f v d
      | some e => .leaf c e.flags v d
    | .grouped c f v ks =>
      match dispatch dict (key c v) with
      | none => .grouped c f v ks
      | some e => if e.kind = .grouped then .grouped c e.flags v (normList dict ks) else .grouped c e.flags v ks
  def normList (dict : List Entry) : List Content → List Content
    | [] => []
    | k :: ks => norm dict k :: normList dict ks
end

mutual
  /-- guard (complement of the known finding): every known AVP carries its class's default flags -/
  def faithful (dict : List Entry) : Content → Bool
    | .leaf c f v _ =>
      match dispatch dict (key c v) with
      | none => true
      | some e => e.flags == f
    | .grouped c f v ks =>
      match dispatch dict (key c v) with
      | none => true
      | some e => e.flags == f && (if e.kind = .grouped then faithfulList dict ks else true)
  def faithfulList (dict : List Entry) : List Content → Bool
    | [] => true
    | k :: ks => faithful dict k && faithfulList dict ks
end

end BV.Spec
