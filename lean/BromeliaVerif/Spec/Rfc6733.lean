import BromeliaVerif.Model.Avp
/-! Reference encoder written from RFC 6733 §3 (header) and §4 (AVP), independent of the Python
code path. `Content` is the logical content of an AVP: a leaf with data, or a Grouped AVP whose data
is the concatenation of its members' encodings, to any depth. -/
namespace BV.Spec

inductive Content where
  | leaf (code flags : Nat) (vendor : Option Nat) (data : Bytes)
  | grouped (code flags : Nat) (vendor : Option Nat) (kids : List Content)
deriving Repr, Inhabited

/-- §4.1: AVP Code (4), Flags (1), Length (3, header + data, padding excluded), Vendor-ID (4, iff
    present), data, zero padding to a multiple of 4 -/
def encAvp (code flags : Nat) (vendor : Option Nat) (data : Bytes) : Bytes :=
  be 4 code ++ be 1 flags ++ be 3 ((match vendor with | some _ => 12 | none => 8) + data.length) ++
  (match vendor with | some v => be 4 v | none => []) ++ data ++ List.replicate (padLen data.length) 0

mutual
  def enc : Content → Bytes
    | .leaf c f v d => encAvp c f v d
    | .grouped c f v ks => encAvp c f v (encList ks)
  def encList : List Content → Bytes
    | [] => []
    | k :: ks => enc k ++ encList ks
end

structure HeaderFields where
  version : Nat
  flags : Nat
  cmd : Nat
  app : Nat
  hbh : Nat
  e2e : Nat
deriving Repr, DecidableEq, Inhabited

/-- §3: Version (1), Message Length (3, whole message), Command Flags (1), Command Code (3),
    Application-ID (4), Hop-by-Hop (4), End-to-End (4), then the AVPs -/
def encHeader (h : HeaderFields) (total : Nat) : Bytes :=
  be 1 h.version ++ be 3 total ++ be 1 h.flags ++ be 3 h.cmd ++ be 4 h.app ++ be 4 h.hbh ++ be 4 h.e2e

def encMsgBody (h : HeaderFields) (body : Bytes) : Bytes := encHeader h (20 + body.length) ++ body

def encMsg (h : HeaderFields) (avps : List Content) : Bytes := encMsgBody h (encList avps)

end BV.Spec
