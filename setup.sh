#!/bin/bash
# Run once after a fresh restore (offline): regenerate Gen/*.lean from /repo and build library + native driver.
set -e
cd "$(dirname "$0")"
mkdir -p .work replays evidence
export PYTHONPATH="${VERIF_REPO:-/repo}:$(pwd)/harness"
export PYTHONDONTWRITEBYTECODE=1
/venv/bin/python -W ignore harness/gen_all.py
cd lean
lake build BromeliaVerif driver
